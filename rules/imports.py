"""Cross-property imports: a rule written for one property that is also a necessary condition of another is evaluated under
the importing property's id as well, so that `./check <importer>` reports a change that breaks the importer through it.

IMPORTS[importer] = [(source property, [rule ids], why the rule is a necessary condition of the importer)]

An imported obligation is keyed `<importer>.X/<source key>`. A violation that is a *known finding of the source property*
is not repeated under the importer (it is reported, and suppressed by exact key, where it belongs); any other violation of
an imported rule is a violation of the importer.
"""
IMPORTS = {
    "C01": [
        ("C07", ["C07.D1", "C07.W1", "C07.W2", "C07.W3"], "no infinitely sized types: every containment cycle is cut"),
        ("C11", ["C11.D1"], "the flags that switch on the untagged-enum FromStr/Display impls hold only for enums whose every variant is a single item with that impl: otherwise the emitted impl does not type-check"),
        ("C17", ["C17.W2"], "types named inside `mod builder` / `mod defaults` carry the module prefix at every nesting level, otherwise the path does not resolve"),
        ("C17", ["C17.D1"], "forwarding impls (newtype/untagged FromStr, Display, Default) are emitted wherever has_impl answers true for the inner type: a false `true` yields an impl that does not type-check"),
        ("C19", ["C19.T2", "C19.D1"], "no conflicting or missing Deserialize impls; no derive that cannot be derived"),
        ("C06", ["C06.D1", "C06.D2", "C06.W1", "C06.W2"], "a default the validator accepts is one the renderer can render (no panic while rendering, no ill-typed default expression) and every shared default fn the output names is defined"),
        ("C14", ["C14.D1"], "the two places that decide how a map type is rendered agree, so the `skip_serializing_if` predicate names a method of the field's actual type"),
    ],
    "C04": [
        ("C02", ["C02.D1", "C02.W2", "C02.D2"], "a tagged enum is recognised only from the shape serde's representation produces (and requires what serde requires); a variant's payload keeps its shape (tuple stays tuple, struct stays struct); alternatives are compared in both directions"),
        ("C09", ["C09.D8", "C09.D3"], "the mutual-exclusion tests that decide between an untagged enum and a struct of options look at both directions of every pair"),
        ("C03", ["C03.D1", "C03.D2", "C03.D4"], "the serde attributes that fix the wire format (representation, tag/content strings, renames, default/skip pairs) come from the schema's own names and the member's type"),
        ("C08", ["C08.D1"], "renames carry the raw JSON name exactly when the identifier differs"),
        ("C05", ["C05.W2"], "closed objects stay closed and required members stay required"),
        ("C06", ["C06.W1"], "both ingestion routes finalise every type they create"),
        ("C06", ["C06.D1"], "a default that schemars records (e.g. the Default of an adjacently tagged enum) is accepted only if it can be rendered: ingestion does not succeed and then panic while rendering"),
        ("C01", ["C01.T3"], "a one-element tuple variant keeps its tuple-ness (`V((T,))`): serde's representation of `V((T,))` and `V(T)` differ"),
    ],
    "C02": [
        ("C10", ["C10.D1", "C10.D2", "C10.D3", "C10.D4", "C10.D6", "C10.D7"], "the scalar chosen can represent every admitted value, so every valid number/string deserializes"),
        ("C09", ["C09.D8", "C09.D3"], "the mutual-exclusion tests that decide how an anyOf is rendered look at both directions of every pair"),
        ("C01", ["C01.T3"], "a one-element tuple variant is declared `V((T,))`: as `V(T)` it is a newtype variant and the array a valid instance carries is rejected"),
        ("C09", ["C09.D9"], "the alternatives of a nested oneOf are each conjoined with the negation of the *others*: a valid instance is not excluded by its own alternative"),
        ("C09", ["C09.D5", "C09.D1"], "a merge does not drop enum values of the right JSON type and does not declare a satisfiable conjunction empty: instances valid under the allOf stay representable"),
    ],
    "C03": [
        ("C09", ["C09.D5"], "enum values that are valid for the merged schema's type are kept: an instance made of them still deserialises"),
        ("C08", ["C08.D2"], "two properties that sanitise to one field are rejected, not silently merged: no declared member is dropped on the round trip"),
        ("C02", ["C02.D1"], "a tagged variant is data-less only when the tag is its only member: no declared member is dropped"),
        ("C02", ["C02.W5", "C02.D2"], "sibling subschemas keep types of their own (a value is not rewritten through a sibling's type); an anyOf is only treated as a oneOf when no two alternatives overlap, so no member is dropped by a shadowing variant"),
    ],
    "C05": [
        ("C06", ["C06.D10"], "the values of an allow / deny list are compared as the numbers the schema states: no number is squeezed through a narrower representation on the way"),
        ("C09", ["C09.W1"], "a closed object stays closed through an allOf merge: an unsatisfiable / `false` additionalProperties outcome is never dropped to 'absent'"),
        ("C11", ["C11.T1", "C11.T2"], "FromStr / TryFrom accept exactly the strings Deserialize accepts (same raw names, same constrained path)"),
    ],
    "C06": [
        ("C10", ["C10.D5"], "a numeric default outside the admitted range is reported when the schema is added"),
    ],
    "C10": [
        ("C09", ["C09.D8"], "a merged tuple position is constrained only by what the subschemas say about that position: the scalar chosen for it admits every value the conjunction admits"),
        ("C09", ["C09.D6", "C09.D7"], "the bounds of a conjunction are each side's own bounds combined member by member in the direction of an intersection: the scalar is chosen for the range the allOf really admits"),
        ("C06", ["C06.W3", "C06.D8"], "the numeric default that is range-checked is the one the schema states (annotations are not rewritten before conversion)"),
        ("C14", ["C14.W5"], "every occurrence of a numeric schema goes through its own conversion (and default range check): nothing converted earlier is remembered under a key that ignores the default"),
    ],
    "C14": [
        ("C16", ["C16.W2"], "replacement and merging read the definitions index: it is only ever added to (a replaced definition's schema must stay available for structural merging)"),
    ],
    "C11": [
        ("C15", ["C15.D4"], "which string conversions a replaced type is taken to have (`T: ?FromStr`, `T: Display`) decides which forwarding FromStr/Display impls are emitted for types wrapping it: an opt-out that is lost yields a FromStr that is not the wire format"),
    ],
    "C13": [
        ("C16", ["C16.W8"], "an external path stands for its schema together with its converted parameters: native entries are de-duplicated by their full structure, not by the path alone"),
    ],
    "C17": [
        ("C14", ["C14.W4"], "has_impl for a replaced type answers from the impl list stored by the setter: it is the list the user gave last, not an accumulation"),
        ("C11", ["C11.D1"], "has_impl answers true for an enum through the bespoke-impl flags: the flags are set only where the emitted impl exists and type-checks"),
    ],
    "C18": [
        ("C17", ["C17.W2"], "builder fields and setters name property types relative to `super`: the module prefix reaches every nested type"),
    ],
    "C19": [
        ("C14", ["C14.T1"], "the base derives (Serialize, Deserialize, Debug, Clone) survive the assembly of the derive list whatever extra derives the user adds"),
        ("C14", ["C14.W2"], "the derives a type carries are the patch lookup's result joined with the emitter's own additions: a patched type keeps the trait surface of its kind"),
    ],
    "C16": [
        ("C06", ["C06.W1"], "every entry created by a call is finalised by that call: the definitions do not depend on which call happened to create a shared sub-type"),
        ("C14", ["C14.W2"], "the name of a patched type is a pure function of the settings, not of what the space already contains: re-adding a schema finds the registered type"),
        ("C02", ["C02.W4"], "an id handed out for a schema resolves to that schema's structure: a name hit is not answered with another schema's type"),
    ],
}
