"""A small evaluator for the numeric fragments of typify's HIR facts.

Several properties turn on code that touches numbers only through comparisons and table look-ups (the integer type search,
the range check of a default, bound merging). Such code has finitely many behaviours over the orderings of its inputs, so a
rule can *evaluate* it on a grid of boundary scenarios instead of matching its text: the verdict is then independent of
how the search is written (three closures, one closure with a helper, a match, `map_or`) - which a frozen-form recogniser
is not. Nothing of /repo is executed: the evaluator interprets the fact tree.

Values: numbers (float), bool, str, None for `()`; ("Some", v) / ("None",) ; ("Ok", v) / ("Err", v); ("tup", [..]);
lists; ("closure", node, env); ("ctor", name, [args]) for other constructors; ("struct", name, {field: v}).
Anything not modelled raises Unknown - the calling rule reports "not evaluable" (fail closed), never guesses.
"""
import re


class Unknown(Exception):
    pass


class Return(Exception):
    def __init__(self, value, inlined=False):
        self.value = value
        self.inlined = inlined


class Break(Exception):
    pass


class Continue(Exception):
    pass


INT_LIMITS = {
    "i8": (-128.0, 127.0), "i16": (-32768.0, 32767.0), "i32": (-2147483648.0, 2147483647.0), "i64": (-9223372036854775808.0, 9223372036854775807.0),
    "u8": (0.0, 255.0), "u16": (0.0, 65535.0), "u32": (0.0, 4294967295.0), "u64": (0.0, 18446744073709551615.0),
    "usize": (0.0, 18446744073709551615.0), "isize": (-9223372036854775808.0, 9223372036854775807.0),
}
NONE = ("None",)


class Env:
    """a chain of frames: blocks, arms and closures get a child frame; assignment writes the frame that defines the name"""
    __slots__ = ("vars", "up")

    def __init__(self, up=None, init=None):
        self.vars = dict(init or {})
        self.up = up

    def child(self):
        return Env(self)

    def __contains__(self, name):
        e = self
        while e is not None:
            if name in e.vars:
                return True
            e = e.up
        return False

    def __getitem__(self, name):
        e = self
        while e is not None:
            if name in e.vars:
                return e.vars[name]
            e = e.up
        raise KeyError(name)

    def __setitem__(self, name, v):
        self.vars[name] = v

    def set_existing(self, name, v):
        e = self
        while e is not None:
            if name in e.vars:
                e.vars[name] = v
                return True
            e = e.up
        return False

    def update(self, other):
        self.vars.update(other.vars if isinstance(other, Env) else other)


def some(v):
    return ("Some", v)


def is_opt(v):
    return isinstance(v, tuple) and v and v[0] in ("Some", "None")


def truthy(v):
    if isinstance(v, bool):
        return v
    raise Unknown("non-bool condition %r" % (v,))


class Machine:
    def __init__(self, crate=None, fuel=200000, hooks=None):
        self.c = crate
        self.fuel = fuel
        self.hooks = hooks or {}     # method/fn name -> python callable(machine, recv/args...) for opaque values

    # ------------------------------------------------------------------ patterns
    def match(self, p, v, env):
        """bind pattern `p` against value `v` into env (a dict that is updated); True if it matches"""
        k = p.get("k")
        if k == "wild":
            return True
        if k == "bind":
            if p.get("sub") is not None and not self.match(p["sub"], v, env):
                return False
            env[p["name"]] = v
            return True
        if k == "ref" and isinstance(p.get("pat"), dict):
            return self.match(p["pat"], v, env)
        if k == "tuple":
            if not (isinstance(v, tuple) and v and v[0] == "tup" and len(v[1]) == len(p["pats"])):
                raise Unknown("tuple pattern against %r" % (v,))
            return all(self.match(pp, vv, env) for pp, vv in zip(p["pats"], v[1]))
        if k in ("tstruct", "path"):
            name = str(p.get("path", "")).split("::")[-1]
            if isinstance(v, tuple) and v and v[0] in ("Some", "None", "Ok", "Err"):
                if v[0] != name:
                    return False
                subs = p.get("pats", []) if k == "tstruct" else []
                if not subs:
                    return True
                return self.match(subs[0], v[1], env)
            if isinstance(v, tuple) and v and v[0] == "ctor":
                if v[1] != name:
                    return False
                subs = p.get("pats", []) if k == "tstruct" else []
                return all(self.match(pp, vv, env) for pp, vv in zip(subs, v[2]))
            raise Unknown("constructor pattern %s against %r" % (name, v))
        if k == "struct":
            if not (isinstance(v, tuple) and v and v[0] == "struct"):
                raise Unknown("struct pattern against %r" % (v,))
            for fname, fp in p.get("fields", []):
                if fname not in v[2]:
                    raise Unknown("field %s of pattern not modelled" % fname)
                if not self.match(fp, v[2][fname], env):
                    return False
            return True
        if k == "lit":
            return self.lit(p) == v
        if k == "or":
            for alt in p["pats"]:
                e2 = Env()
                if self.match(alt, v, e2):
                    env.update(e2)
                    return True
            return False
        if k == "slice":
            ps_ = p.get("pats", [])
            if not (isinstance(v, list) and len(v) == len(ps_)):
                raise Unknown("slice pattern against %r" % (v if not isinstance(v, list) else "[..]",))
            return all(self.match(pp, vv, env) for pp, vv in zip(ps_, v))
        if k == "range":
            raise Unknown("range pattern")
        raise Unknown("pattern " + str(k))

    def lit(self, e):
        v = e.get("v", {})
        for t in ("float", "int"):
            if t in v:
                return float(v[t])
        if "str" in v:
            return v["str"]
        if "bool" in v:
            return bool(v["bool"])
        if "char" in v:
            return v["char"]
        raise Unknown("literal")

    # ------------------------------------------------------------------ expressions
    def ev(self, e, env):
        self.fuel -= 1
        if self.fuel < 0:
            raise Unknown("out of fuel")
        if e is None:
            return None
        k = e.get("k")
        if k == "block":
            env = env.child()
            try:
                for st in e.get("stmts", []):
                    self.stmt(st, env)
                return self.ev(e["tail"], env) if e.get("tail") is not None else None
            except Return as r:
                if e.get("inlined") and r.inlined:
                    return r.value
                raise
        if k == "lit":
            return self.lit(e)
        if k == "path":
            return self.path(e, env)
        if k in ("ref", "cast"):
            return self.ev(e["e"], env)
        if k == "un":
            v = self.ev(e["e"], env)
            if e["op"] == "Deref":
                return v
            if e["op"] == "Not":
                return not truthy(v)
            if e["op"] == "Neg":
                return -v
            raise Unknown("unary " + e["op"])
        if k == "bin":
            op = e["op"]
            if op == "And":
                return truthy(self.ev(e["l"], env)) and truthy(self.ev(e["r"], env))
            if op == "Or":
                return truthy(self.ev(e["l"], env)) or truthy(self.ev(e["r"], env))
            l, r = self.ev(e["l"], env), self.ev(e["r"], env)
            return self.binop(op, l, r)
        if k == "if":
            c = e["cond"]
            if c.get("k") == "letx":
                env2 = env.child()
                if self.match(c["pat"], self.ev(c["init"], env), env2):
                    return self.ev(e["then"], env2)
                return self.ev(e["else"], env) if e.get("else") is not None else None
            if truthy(self.ev(c, env)):
                return self.ev(e["then"], env)
            return self.ev(e["else"], env) if e.get("else") is not None else None
        if k == "letx":
            raise Unknown("let-chain")
        if k == "match":
            return self.ev_match(e, env)
        if k == "tup":
            es = [self.ev(x, env) for x in e.get("es", [])]
            return ("tup", es) if es else None
        if k == "array":
            return [self.ev(x, env) for x in e.get("es", [])]
        if k == "closure":
            return ("closure", e, env)
        if k in ("ret", "iret"):
            raise Return(self.ev(e.get("e"), env) if e.get("e") is not None else None, inlined=(k == "iret"))
        if k == "call":
            return self.call(e, env)
        if k == "mcall":
            return self.mcall(e, env)
        if k == "field":
            v = self.ev(e["e"], env)
            nm = e["name"]
            if isinstance(v, tuple) and v and v[0] == "tup" and str(nm).isdigit():
                return v[1][int(nm)]
            if isinstance(v, tuple) and v and v[0] == "struct" and nm in v[2]:
                return v[2][nm]
            if "field" in self.hooks:
                return self.hooks["field"](self, v, nm)
            raise Unknown("field .%s of %r" % (nm, v))
        if k == "macro":
            if e["name"] in ("panic", "unreachable", "todo", "unimplemented"):
                raise Unknown("reaches %s!" % e["name"])
            if e["name"] == "matches":
                raise Unknown("matches! without expansion")
            if e["name"] in ("format",):
                fs = self.hooks["__format_string"](e.get("sp")) if "__format_string" in self.hooks else None
                if isinstance(fs, str):
                    vals = [self.ev(a, env) for a in e.get("args", [])]
                    out, i_ = "", 0
                    parts = re.split(r"(\{\{|\}\}|\{[^{}]*\})", fs)
                    for part in parts:
                        if part == "{{":
                            out += "{"
                        elif part == "}}":
                            out += "}"
                        elif part.startswith("{") and part.endswith("}"):
                            if i_ >= len(vals) or not isinstance(vals[i_], str):
                                return "<formatted>"
                            out += vals[i_]
                            i_ += 1
                        else:
                            out += part
                    return out
                return "<formatted>"
            if e["name"] in ("warn", "info", "debug", "trace", "error", "eprintln", "println", "log"):
                return None
            if e["name"] == "vec":
                return [self.ev(a, env) for a in e.get("args", [])]
            raise Unknown("macro " + e["name"])
        if k == "struct":
            return ("struct", str(e.get("path", "")).split("::")[-1], {f[0]: self.ev(f[1], env) for f in e.get("fields", [])})
        if k == "index":
            v, i = self.ev(e["e"], env), self.ev(e["i"], env)
            if isinstance(i, tuple) and i and i[0] == "struct" and i[1] in ("RangeTo", "RangeFrom", "Range", "RangeFull", "RangeInclusive", "RangeToInclusive"):
                a_ = int(i[2].get("start", 0)) if "start" in i[2] else 0
                b_ = int(i[2]["end"]) + (1 if i[1] in ("RangeInclusive", "RangeToInclusive") else 0) if "end" in i[2] else len(v)
                if a_ > b_ or b_ > len(v):
                    raise Unknown("slice out of range (would panic)")
                return v[a_:b_]
            return v[int(i)]
        if k in ("assign", "assignop"):
            l = e["l"]
            while l.get("k") in ("ref",) or (l.get("k") == "un" and l.get("op") == "Deref"):
                l = l["e"]
            if l.get("k") == "field":
                base = self.ev(l["e"], env)
                if isinstance(base, tuple) and base and base[0] == "struct" and isinstance(base[2], dict):
                    r = self.ev(e["r"], env)
                    if k == "assignop":
                        r = self.binop(e.get("op"), base[2].get(l["name"]), r)
                    base[2][l["name"]] = r
                    return None
            if not (l.get("k") == "path" and l.get("res") == "local"):
                raise Unknown("assignment to a place")
            r = self.ev(e["r"], env)
            if k == "assignop":
                r = self.binop(e.get("op"), env[l["path"]], r)
            self.assign(l["path"], r, env)
            return None
        if k == "loop":
            raise Unknown("loop")
        raise Unknown("expression " + str(k))

    def assign(self, name, v, env):
        if not env.set_existing(name, v):
            raise Unknown("assignment to unknown local " + name)

    def binop(self, op, l, r):
        if op in ("Eq", "Ne"):
            return (l == r) if op == "Eq" else (l != r)
        if isinstance(l, (int, float)) and isinstance(r, (int, float)) and not isinstance(l, bool):
            if op in ("Lt", "Le", "Gt", "Ge"):
                return {"Lt": l < r, "Le": l <= r, "Gt": l > r, "Ge": l >= r}[op]
            if op in ("Add", "Sub", "Mul"):
                return {"Add": l + r, "Sub": l - r, "Mul": l * r}[op]
            if op == "Div" and r != 0:
                return l / r
            if op == "Rem" and r != 0:
                import math
                return math.fmod(l, r)
        if op == "BitOr" and isinstance(l, bool) and isinstance(r, bool):
            return l or r
        if op == "BitAnd" and isinstance(l, bool) and isinstance(r, bool):
            return l and r
        raise Unknown("operator %s on %r, %r" % (op, l, r))

    def stmt(self, st, env):
        k = st.get("k")
        if k == "let":
            if st.get("init") is None:
                for b in self.binds(st["pat"]):
                    env[b] = None
                return
            v = self.ev(st["init"], env)
            e2 = Env()
            if self.match(st["pat"], v, e2):
                env.update(e2)
                return
            if st.get("else") is not None:
                self.ev(st["else"], env)
                raise Unknown("let-else fell through")
            raise Unknown("refutable let")
        self.ev(st, env)

    def binds(self, p):
        out = []
        if isinstance(p, dict):
            if p.get("k") == "bind":
                out.append(p["name"])
            for v in p.values():
                if isinstance(v, dict):
                    out += self.binds(v)
                elif isinstance(v, list):
                    for x in v:
                        out += self.binds(x)
        return out

    def ev_match(self, e, env):
        src_ = e.get("src", "normal")
        if src_ == "try":
            inner = e["scrut"]["args"][0] if e["scrut"].get("k") == "call" and e["scrut"].get("args") else e["scrut"]
            v = self.ev(inner, env)
            if isinstance(v, tuple) and v and v[0] in ("Some", "Ok"):
                return v[1]
            if isinstance(v, tuple) and v and v[0] in ("None", "Err"):
                raise Return(v)
            raise Unknown("`?` on %r" % (v,))
        if src_ == "for":
            return self.ev_for(e, env)
        v = self.ev(e["scrut"], env)
        for arm in e["arms"]:
            env2 = env.child()
            if self.match(arm["pat"], v, env2):
                if arm.get("guard") is not None and not truthy(self.ev(arm["guard"], env2)):
                    continue
                return self.ev(arm["body"], env2)
        raise Unknown("no arm matches %r" % (v,))

    def ev_for(self, e, env):
        # desugared `for PAT in ITER { BODY }`: match into_iter(ITER) { mut iter => loop { match next(&mut iter) { None => break, Some(PAT) => BODY } } }
        it = e["scrut"]
        if it.get("k") == "call" and it.get("args"):
            it = it["args"][0]
        seq = self.ev(it, env)
        if not isinstance(seq, list):
            raise Unknown("for over %r" % (seq,))
        inner = None
        for n in self.walk(e["arms"]):
            if n.get("k") == "match" and n is not e and any(str(a.get("pat", {}).get("path", "")).endswith("Some") for a in n.get("arms", [])):
                inner = n
                break
        if inner is None:
            raise Unknown("for-loop shape")
        some_arm = [a for a in inner["arms"] if str(a["pat"].get("path", "")).endswith("Some")][0]
        for item in seq:
            env2 = env.child()
            if not self.match(some_arm["pat"]["pats"][0], item, env2):
                raise Unknown("refutable for pattern")
            try:
                self.ev(some_arm["body"], env2)
            except Continue:
                continue
            except Break:
                break
        return None

    def walk(self, x):
        if isinstance(x, dict):
            yield x
            for v in x.values():
                if isinstance(v, (dict, list)):
                    for y in self.walk(v):
                        yield y
        elif isinstance(x, list):
            for v in x:
                for y in self.walk(v):
                    yield y

    def path(self, e, env):
        p_ = str(e.get("path", ""))
        if e.get("res") == "local":
            if p_ in env:
                return env[p_]
            raise Unknown("local " + p_)
        last = p_.split("::")[-1]
        if last == "None" and e.get("res") == "ctor":
            return NONE
        if p_.endswith("f64::EPSILON"):
            return 2.220446049250313e-16
        m_ = re.search(r"\b([iu](?:8|16|32|64|size))::(MIN|MAX)$", p_)
        if m_:
            return INT_LIMITS[m_.group(1)][0 if m_.group(2) == "MIN" else 1]
        if re.search(r"\bf64::(MAX|INFINITY)$", p_):
            return float("inf")
        if re.search(r"\bf64::(MIN|NEG_INFINITY)$", p_):
            return float("-inf")
        if e.get("res") == "ctor":
            return ("ctor", last, [])
        if e.get("res") in ("fn", "assocfn"):
            return ("fnref", p_)
        if e.get("res") == "const" and self.c is not None and p_ in self.c.hir:
            return self.ev(self.c.hir[p_]["body"], Env())
        raise Unknown("path " + p_)

    # ------------------------------------------------------------------ calls
    def apply(self, f, args):
        if isinstance(f, tuple) and f and f[0] == "closure":
            node, cenv = f[1], f[2]
            env2 = cenv.child()
            ps = node.get("params", [])
            if len(ps) != len(args):
                raise Unknown("closure arity")
            for p, a in zip(ps, args):
                if not self.match(p, a, env2):
                    raise Unknown("refutable closure parameter")
            try:
                return self.ev(node["body"], env2)
            except Return as r:
                if r.inlined:
                    raise
                return r.value
        if isinstance(f, tuple) and f and f[0] == "fnref":
            return self.call_named(f[1], args)
        raise Unknown("call of %r" % (f,))

    def hook_for(self, fn):
        """a hook registered for this callee: keys with `::` match a path suffix (`Regex::new`), plain keys the last segment"""
        for k_, v_ in self.hooks.items():
            if "::" in k_ and not k_.startswith("__") and (fn == k_ or fn.endswith("::" + k_) or fn.endswith(k_)):
                return v_
        return self.hooks.get(fn.split("::")[-1])

    def run_fn(self, h, args):
        """evaluate the body of the fn record `h` on `args` (hooks are not consulted for `h` itself)"""
        env2 = Env()
        ps = h.get("params", [])
        if len(ps) != len(args):
            raise Unknown("arity")
        for p, a in zip(ps, args):
            if not self.match(p, a, env2):
                raise Unknown("refutable parameter")
        try:
            return self.ev(h["body"], env2)
        except Return as r:
            return r.value

    def call_named(self, fn, args):
        last = fn.split("::")[-1]
        hk_ = self.hook_for(fn)
        if hk_ is not None:
            return hk_(self, *args)
        if last in ("min", "max") and len(args) == 2 and all(isinstance(a, (int, float)) for a in args):
            return min(args) if last == "min" else max(args)
        if self.c is not None and fn in self.c.hir and not self.c.hir[fn].get("derived"):
            h = self.c.hir[fn]
            env2 = Env()
            ps = h.get("params", [])
            if len(ps) != len(args):
                raise Unknown("arity of " + fn)
            for p, a in zip(ps, args):
                if not self.match(p, a, env2):
                    raise Unknown("refutable parameter")
            try:
                return self.ev(h["body"], env2)
            except Return as r:
                return r.value
        if last in self.hooks:
            return self.hooks[last](self, *args)
        raise Unknown("fn " + fn)

    def call(self, e, env):
        fn = e.get("fn") or ""
        args = [self.ev(a, env) for a in e.get("args", [])]
        if e.get("res") in ("ctor", "selfctor"):
            last = fn.split("::")[-1] if e.get("res") == "ctor" else "Self"
            if last in ("Some", "Ok", "Err"):
                return (last, args[0])
            return ("ctor", last, args)
        if e.get("res") == "local" or not fn:
            f = self.ev(e["f"], env) if isinstance(e.get("f"), dict) else None
            return self.apply(f, args)
        last = fn.split("::")[-1]
        hk_ = self.hook_for(fn)
        if hk_ is not None:
            return hk_(self, *args)
        if last in ("from", "into", "clone", "to_string", "new") and len(args) == 1:
            return args[0]
        return self.call_named(fn, args)

    def mcall(self, e, env):
        name = e["name"]
        recv = self.ev(e["recv"], env)
        argn = e.get("args", [])
        # adaptors that take closures are evaluated lazily
        if name in ("clone", "to_owned", "to_string", "into", "as_ref", "as_deref", "as_mut", "copied", "cloned", "borrow", "iter", "into_iter", "iter_mut", "as_str", "to_vec", "as_slice", "by_ref", "unwrap_or_default") and not argn:
            if name == "unwrap_or_default":
                raise Unknown("unwrap_or_default")
            return recv
        args = [self.ev(a, env) for a in argn]
        if isinstance(recv, (int, float)) and not isinstance(recv, bool):
            if name == "abs":
                return abs(recv)
            if name in ("min", "max") and len(args) == 1:
                return min(recv, args[0]) if name == "min" else max(recv, args[0])
            if name in ("ge", "le", "gt", "lt", "eq", "ne"):
                return self.binop({"ge": "Ge", "le": "Le", "gt": "Gt", "lt": "Lt", "eq": "Eq", "ne": "Ne"}[name], recv, args[0])
            if name in ("fract",):
                import math
                return math.fmod(recv, 1.0)
            if name in ("floor", "ceil", "round", "trunc"):
                import math
                return float({"floor": math.floor, "ceil": math.ceil, "round": round, "trunc": math.trunc}[name](recv))
            if name in ("is_nan",):
                return recv != recv
        if is_opt(recv):
            s = recv[0] == "Some"
            if name == "is_some":
                return s
            if name == "is_none":
                return not s
            if name in ("unwrap", "expect"):
                if s:
                    return recv[1]
                raise Unknown("unwrap of None")
            if name == "unwrap_or":
                return recv[1] if s else args[0]
            if name == "unwrap_or_else":
                return recv[1] if s else self.apply(args[0], [])
            if name == "map":
                return some(self.apply(args[0], [recv[1]])) if s else NONE
            if name == "map_or":
                return self.apply(args[1], [recv[1]]) if s else args[0]
            if name == "map_or_else":
                return self.apply(args[1], [recv[1]]) if s else self.apply(args[0], [])
            if name == "is_some_and":
                return truthy(self.apply(args[0], [recv[1]])) if s else False
            if name == "and_then":
                return self.apply(args[0], [recv[1]]) if s else NONE
            if name == "filter":
                return recv if s and truthy(self.apply(args[0], [recv[1]])) else NONE
            if name == "or":
                return recv if s else args[0]
            if name == "or_else":
                return recv if s else self.apply(args[0], [])
            if name == "ok_or":
                return ("Ok", recv[1]) if s else ("Err", args[0])
            if name == "ok_or_else":
                return ("Ok", recv[1]) if s else ("Err", self.apply(args[0], []))
            if name == "zip":
                return some(("tup", [recv[1], args[0][1]])) if s and is_opt(args[0]) and args[0][0] == "Some" else NONE
            if name == "flatten":
                if not s:
                    return NONE
                if is_opt(recv[1]):
                    return recv[1]
                raise Unknown("flatten of %r" % (recv,))
            if name == "transpose":
                if not s:
                    return ("Ok", NONE)
                inner = recv[1]
                if isinstance(inner, tuple) and inner and inner[0] == "Ok":
                    return ("Ok", some(inner[1]))
                if isinstance(inner, tuple) and inner and inner[0] == "Err":
                    return inner
                raise Unknown("transpose of %r" % (recv,))
            if name == "xor":
                raise Unknown("xor")
        if isinstance(recv, tuple) and recv and recv[0] in ("Ok", "Err"):
            o = recv[0] == "Ok"
            if name == "ok":
                return some(recv[1]) if o else NONE
            if name == "is_ok":
                return o
            if name == "is_err":
                return not o
            if name == "map_err":
                return recv if o else ("Err", self.apply(args[0], [recv[1]]))
            if name == "map":
                return ("Ok", self.apply(args[0], [recv[1]])) if o else recv
            if name == "and_then":
                return self.apply(args[0], [recv[1]]) if o else recv
            if name in ("unwrap", "expect"):
                if o:
                    return recv[1]
                raise Unknown("unwrap of Err")
        if isinstance(recv, bool):
            if name == "then":
                return some(self.apply(args[0], [])) if recv else NONE
            if name == "then_some":
                return some(args[0]) if recv else NONE
        if isinstance(recv, list):
            if name == "insert" and len(args) == 1:
                if args[0] in recv:
                    return False
                recv.append(args[0])
                return True
            if name == "remove" and len(args) == 1 and not isinstance(args[0], float):
                if args[0] in recv:
                    recv.remove(args[0])
                    return True
                return False
            if name == "push" and len(args) == 1:
                recv.append(args[0])
                return None
            if name == "extend" and len(args) == 1 and isinstance(args[0], list):
                for x_ in args[0]:
                    if x_ not in recv:
                        recv.append(x_)
                return None
            if name == "retain" and len(args) == 1:
                keep = [x_ for x_ in recv if truthy(self.apply(args[0], [x_]))]
                recv[:] = keep
                return None
            if name == "for_each" and len(args) == 1:
                for x_ in list(recv):
                    self.apply(args[0], [x_])
                return None
            if name == "partition" and len(args) == 1:
                a_, b_ = [], []
                for x_ in recv:
                    (a_ if truthy(self.apply(args[0], [x_])) else b_).append(x_)
                return ("tup", [a_, b_])
            if name == "rev":
                return list(reversed(recv))
            if name == "len":
                return float(len(recv))
            if name == "is_empty":
                return not recv
            if name == "enumerate":
                return [("tup", [float(i), x]) for i, x in enumerate(recv)]
            if name == "find_map":
                for x in recv:
                    r = self.apply(args[0], [x])
                    if is_opt(r) and r[0] == "Some":
                        return r
                return NONE
            if name == "find":
                for x in recv:
                    if truthy(self.apply(args[0], [x])):
                        return some(x)
                return NONE
            if name == "map":
                return [self.apply(args[0], [x]) for x in recv]
            if name == "filter":
                return [x for x in recv if truthy(self.apply(args[0], [x]))]
            if name == "filter_map":
                out = []
                for x in recv:
                    r = self.apply(args[0], [x])
                    if is_opt(r) and r[0] == "Some":
                        out.append(r[1])
                return out
            if name == "any":
                return any(truthy(self.apply(args[0], [x])) for x in recv)
            if name == "all":
                return all(truthy(self.apply(args[0], [x])) for x in recv)
            if name in ("next", "first"):
                return some(recv[0]) if recv else NONE
            if name == "last":
                return some(recv[-1]) if recv else NONE
            if name == "collect":
                ty_ = (self.c.ty(e.get("ty")) if self.c is not None else "") or ""
                if ty_.startswith("std::result::Result<") or ty_.startswith("std::option::Option<"):
                    ok_tag, stop = ("Ok", "Err") if ty_.startswith("std::result") else ("Some", "None")
                    out = []
                    for x in recv:
                        if isinstance(x, tuple) and x and x[0] == stop:
                            return x
                        if isinstance(x, tuple) and x and x[0] == ok_tag:
                            out.append(x[1])
                        else:
                            raise Unknown("collect into %s of %r" % (ok_tag, x))
                    return (ok_tag, out)
                if "Set<" in ty_:
                    out = []
                    for x in recv:
                        if x not in out:
                            out.append(x)
                    return out
                return list(recv)
            if name == "contains":
                return args[0] in recv
            if name == "position":
                for i, x in enumerate(recv):
                    if truthy(self.apply(args[0], [x])):
                        return some(float(i))
                return NONE
            if name == "take":
                return recv[:int(args[0])]
            if name == "skip":
                return recv[int(args[0]):]
            if name == "chain":
                return recv + list(args[0])
        if isinstance(recv, str):
            def _pred(p_):
                # a char / &str / closure pattern
                if isinstance(p_, str):
                    return lambda ch: ch == p_ if len(p_) == 1 else None
                return lambda ch: truthy(self.apply(p_, [ch]))
            if len(recv) == 1 and name in ("is_alphanumeric", "is_ascii_alphanumeric", "is_alphabetic", "is_ascii_alphabetic", "is_numeric", "is_ascii_digit", "is_digit", "is_whitespace", "is_ascii_lowercase", "is_ascii_uppercase", "is_lowercase", "is_uppercase"):
                return {"is_alphanumeric": recv.isalnum(), "is_ascii_alphanumeric": recv.isascii() and recv.isalnum(), "is_alphabetic": recv.isalpha(), "is_ascii_alphabetic": recv.isascii() and recv.isalpha(),
                        "is_numeric": recv.isnumeric(), "is_ascii_digit": recv.isascii() and recv.isdigit(), "is_digit": recv.isdigit(), "is_whitespace": recv.isspace(),
                        "is_ascii_lowercase": recv.isascii() and recv.islower(), "is_ascii_uppercase": recv.isascii() and recv.isupper(), "is_lowercase": recv.islower(), "is_uppercase": recv.isupper()}[name]
            if name in ("find", "rfind") and len(args) == 1:
                if isinstance(args[0], str) and len(args[0]) != 1:
                    ix = recv.find(args[0]) if name == "find" else recv.rfind(args[0])
                    return some(float(ix)) if ix >= 0 else NONE
                pr = _pred(args[0])
                rng = range(len(recv)) if name == "find" else range(len(recv) - 1, -1, -1)
                for ix in rng:
                    if pr(recv[ix]):
                        return some(float(ix))
                return NONE
            if name == "contains" and len(args) == 1:
                if isinstance(args[0], str) and len(args[0]) != 1:
                    return args[0] in recv
                pr = _pred(args[0])
                return any(pr(ch) for ch in recv)
            if name == "chars":
                return list(recv)
            if name == "len":
                return float(len(recv))
            if name == "split_once" and len(args) == 1 and isinstance(args[0], str):
                ix = recv.find(args[0])
                return some(("tup", [recv[:ix], recv[ix + len(args[0]):]])) if ix >= 0 else NONE
            if name == "rsplit_once" and len(args) == 1 and isinstance(args[0], str):
                ix = recv.rfind(args[0])
                return some(("tup", [recv[:ix], recv[ix + len(args[0]):]])) if ix >= 0 else NONE
            if name == "split" and len(args) == 1 and isinstance(args[0], str):
                return recv.split(args[0])
            if name == "splitn" and len(args) == 2 and isinstance(args[1], str):
                return recv.split(args[1], int(args[0]) - 1)
            if name in ("strip_prefix", "strip_suffix") and isinstance(args[0], str):
                if name == "strip_prefix":
                    return some(recv[len(args[0]):]) if recv.startswith(args[0]) else NONE
                return some(recv[:-len(args[0])]) if args[0] and recv.endswith(args[0]) else NONE
            if name == "trim":
                return recv.strip()
            if name == "replace" and len(args) == 2 and all(isinstance(a_, str) for a_ in args):
                return recv.replace(args[0], args[1])
            if name == "replacen" and len(args) == 3 and all(isinstance(a_, str) for a_ in args[:2]):
                return recv.replace(args[0], args[1], int(args[2]))
            if name in ("to_lowercase", "to_ascii_lowercase"):
                return recv.lower()
            if name in ("to_uppercase", "to_ascii_uppercase"):
                return recv.upper()
            if name == "starts_with":
                return recv.startswith(args[0])
            if name == "ends_with":
                return recv.endswith(args[0])
            if name == "is_empty":
                return not recv
            if name in ("eq", "ne"):
                return (recv == args[0]) == (name == "eq")
        if name in self.hooks:
            return self.hooks[name](self, recv, *args)
        raise Unknown("method .%s on %r" % (name, recv if not isinstance(recv, list) else "[..]"))
