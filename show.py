#!/usr/bin/env python3
"""debug: pretty-print the HIR dump of a fn"""
import sys
sys.path.insert(0,'/verif/rules')
import lib
f=lib.Facts()
crate=sys.argv[3] if len(sys.argv)>3 else 'typify_impl'
c=f[crate]
maxd=int(sys.argv[2]) if len(sys.argv)>2 else 40
def show(n,ind=0):
    if ind>maxd: return
    if isinstance(n,dict):
        head={kk:vv for kk,vv in n.items() if not isinstance(vv,(dict,list))}
        for t in ('ty','bty','scty'):
            if t in head and isinstance(head[t],int): head[t]=c.types[head[t]][:60]
        print(' '*ind+str(head)[:220])
        for kk,vv in n.items():
            if isinstance(vv,(dict,list)) and vv:
                print(' '*ind+' .'+kk)
                show(vv,ind+2)
    elif isinstance(n,list):
        for x in n: show(x,ind)
    else:
        print(' '*ind+repr(n)[:100])
for h in c.fn_named(sys.argv[1]):
    show(h)
