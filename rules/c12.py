"""C12 — generated output is a deterministic function of settings and schema.

Static clauses decided (necessary conditions; DESIGN.md §6/C12):
  W1  no hash-order iteration in the workspace's own code
  W2  no ambient inputs (time, randomness, env, pids, addresses)
  W3  ordered containers by type; schemars::Map resolves to BTreeMap
  W4  rendering is a pure read (&self, no interior mutability, no statics)
"""
import re
from lib import walk, ends

EXPLANATION = (
    "Decides structural necessary conditions of determinism, not the behaviour: (W1) no MIR local of any non-derived body in "
    "typify-impl, typify-macro, typify, cargo-typify has a hash-collection iterator type and no hash collection is handed to an "
    "order-exposing operation; (W2) no call to time/randomness/env/pid/address sources outside the tabled schema-location lookup; "
    "(W3) every collection-typed field of the IR, the type space, the settings and the output space is BTreeMap/BTreeSet/Vec and "
    "schemars::Map does not resolve to an insertion-ordered map; (W4) every render entry point takes &self, TypeSpace's reachable "
    "field types contain no interior mutability, and the crates define no mutable/thread-local static; (W5) in the two front ends "
    "the *location* of the schema document (the CLI's input path, the macro's schema literal and the directory it is resolved "
    "against) reaches only the call that reads the file, diagnostics and the macro's include_str! anchor - never the document, "
    "the settings or the type space."
)
ASSUMPTIONS = [
    "dependencies (heck, quote, serde_json, regress, prettyplease/rustfmt) are deterministic",
    "rustc's MIR local types expose every iterator a body creates (an iteration must create an iterator-typed local)",
]

HASH_ITER = re.compile(
    r"(hash_map::(Iter|IterMut|IntoIter|Keys|Values|ValuesMut|IntoKeys|IntoValues|Drain|ExtractIf)\b"
    r"|hash_set::(Iter|IntoIter|Drain|Difference|Intersection|SymmetricDifference|Union|ExtractIf)\b"
    r"|hashbrown::)"
)
HASH_COLL = re.compile(r"\b(HashMap|HashSet)<")
# order-insensitive operations on / producing a hash collection
ALLOWED_METHODS = {
    "new", "with_capacity", "default", "insert", "contains", "contains_key", "get", "get_mut", "entry", "len", "is_empty",
    "is_subset", "is_superset", "is_disjoint", "remove", "clear", "reserve", "clone", "eq", "ne", "from_iter", "collect",
    "extend", "and_modify", "or_insert", "or_insert_with", "or_default", "deserialize", "from", "into", "drop", "unwrap",
    "expect", "map", "ok", "fmt", "deref", "borrow", "as_ref", "unwrap_or_default", "from_tokenstream", "clone_from",
    "get_or_insert_with", "take", "replace", "branch", "from_residual", "unwrap_or", "new_debug", "is_some", "is_none",
    "as_mut", "copied", "cloned", "ok_or", "ok_or_else", "map_err", "and_then", "unwrap_or_else", "from_output",
    "drop_in_place", "next_value", "next_element", "missing_field", "visit_map", "visit_seq", "deserialize_struct",
    "next_value_seed", "next_element_seed", "ne", "hash",
}
ORDER_EXPOSING = {
    "iter", "iter_mut", "into_iter", "keys", "values", "values_mut", "into_keys", "into_values", "drain", "retain",
    "extract_if", "union", "intersection", "difference", "symmetric_difference", "serialize", "to_tokens", "for_each",
    "fold", "next",
}

# Reviewed exceptions: hash iteration whose sink is order-insensitive. One symbol each.
# (crate, enclosing fn suffix, substring of the iterator's element type) -> reason
W1_EXCEPTIONS = [
    ("typify_macro", "do_import_types", "MacroPatch",
     "keys of one HashMap are distinct idents; each is inserted once into TypeSpaceSettings.patch (a BTreeMap) by with_patch"),
    ("typify_macro", "do_import_types", "TypeAndImpls",
     "keys of one HashMap are distinct idents; each is inserted once into TypeSpaceSettings.replace (a BTreeMap) by with_replacement"),
    ("typify_macro", "TypeAndImpls::into_name_and_impls", "TypeSpaceImpl",
     "the impl set is only ever membership-tested downstream (Vec::contains in has_impl); natives are not emitted"),
    ("typify_macro", "do_import_types", "TypeSpaceImpl",
     "same set, passed through with_replacement/with_conversion's generic Iterator parameter"),
    ("typify_impl", "with_replacement", "TypeSpaceImpl",
     "generic Iterator parameter instantiated by the macro with the impl set (membership-tested only)"),
    ("typify_impl", "with_conversion", "TypeSpaceImpl",
     "generic Iterator parameter instantiated by the macro with the impl set (membership-tested only)"),
]

AMBIENT = [
    (re.compile(r"^std::time::|::SystemTime::now|::Instant::now|^chrono::.*::now"), "time"),
    (re.compile(r"^rand::|^getrandom::|RandomState::new|^fastrand::"), "randomness"),
    (re.compile(r"^std::process::id|^std::thread::current|ThreadId"), "process/thread id"),
    (re.compile(r"^std::env::"), "environment"),
    (re.compile(r"as std::fmt::Pointer>::fmt"), "pointer formatting"),
]
# (crate, fn suffix, callee) tabled ambient reads
AMBIENT_EXCEPTIONS = {
    ("typify_macro", "do_import_types", "std::env::var"): "locates the schema file relative to CARGO_MANIFEST_DIR (documented)",
    ("typify_macro", "do_import_types", "std::env::current_dir"): "fallback for the schema file location (documented)",
    ("cargo_typify-bin", "main", "std::env::args_os"): "CLI arguments are the front end's input",
    ("cargo_typify-bin", "main", "std::env::args"): "CLI arguments are the front end's input",
}

ORDERED_FIELD_OWNERS = [
    # (crate, adt suffix, [fields that must be ordered collections])
    ("typify_impl", "output::OutputSpace", ["items"]),
    ("typify_impl", "TypeSpace", ["definitions", "id_to_entry", "type_to_id", "name_to_id", "ref_to_id", "defaults"]),
    ("typify_impl", "TypeSpaceSettings", ["crates", "patch", "replace", "convert", "extra_derives"]),
]
INTERIOR = re.compile(r"\b(Cell|RefCell|UnsafeCell|Mutex|RwLock|OnceCell|OnceLock|LazyLock|LazyCell|Atomic[A-Z][A-Za-z0-9]*)\b")


def top_fn(q):
    return q.split("::{closure")[0]


def method_name(callee):
    return callee.rsplit("::", 1)[-1]


def run(facts, rep, tier):
    # ---------------------------------------------------------------- W1
    bodies = 0
    hash_locals = 0
    for ckey, c in facts.crates.items():
        for q, m in c.mir.items():
            top = top_fn(q)
            frec = c.fns.get(top)
            if frec is not None and frec.get("derived"):
                continue
            bodies += 1
            seen = set()
            for tix in m["locals"]:
                t = c.types[tix]
                if not HASH_ITER.search(t):
                    continue
                mm = HASH_ITER.search(t)
                # element description: the generic args following the iterator type
                elem = t[mm.start():][:160]
                key = "%s/%s/%s" % (ckey, top, re.sub(r"\s+", "", elem)[:90])
                if key in seen:
                    continue
                seen.add(key)
                hash_locals += 1
                exc = None
                for (ec, ef, esub, reason) in W1_EXCEPTIONS:
                    if ec == ckey and ends(top, ef) and esub in t:
                        exc = reason
                if exc:
                    rep.ob("C12.W1", "tabled:" + key, True, "tabled order-insensitive sink: " + exc)
                    continue
                where = (frec or {}).get("sp")
                rep.ob("C12.W1", "hash-iter:" + key, False,
                       "a local of type `%s` in %s iterates a hash collection in hash order" % (t[:140], q), where)
            # operations on hash collections
            for b in m["blocks"]:
                t = b["term"]
                if t["k"] != "call":
                    continue
                callee = t["fn"]
                blob = callee + " " + t.get("gargs", "")
                if not HASH_COLL.search(blob):
                    continue
                meth = method_name(callee)
                recv_is_hash = bool(re.match(r"^<?std::collections::Hash(Map|Set)<", callee))
                if meth in ORDER_EXPOSING and (recv_is_hash or HASH_COLL.search(t.get("gargs", "").split(",")[0] if t.get("gargs") else "")):
                    key = "%s/%s/%s" % (ckey, top, meth)
                    exc = None
                    for (ec, ef, esub, reason) in W1_EXCEPTIONS:
                        if ec == ckey and ends(top, ef) and esub in blob:
                            exc = reason
                    if exc:
                        rep.ob("C12.W1", "tabled-op:" + key + ":" + [e[2] for e in W1_EXCEPTIONS if e[3] == exc][0], True, exc)
                    else:
                        rep.ob("C12.W1", "hash-op:" + key, False,
                               "order-exposing operation `%s` on a hash collection in %s" % (callee[:120], q), t.get("sp"))
                elif meth in ALLOWED_METHODS or not recv_is_hash:
                    rep.ob("C12.W1", "op-ok:%s/%s/%s" % (ckey, top, meth), True, "order-insensitive use: " + callee[:100])
                else:
                    rep.ob("C12.W1", "hash-op-unreviewed:%s/%s/%s" % (ckey, top, meth), False,
                           "hash collection operation `%s` is not in the reviewed order-insensitive list" % callee[:140], t.get("sp"))
    rep.floor("C12.W1", "MIR bodies analysed", bodies, 500)
    rep.sample({"rule": "C12.W1", "bodies": bodies, "hash_iterator_locals": hash_locals})

    # ---------------------------------------------------------------- W2
    amb = 0
    ncalls = 0
    for ckey, c in facts.crates.items():
        for q, m in c.mir.items():
            top = top_fn(q)
            frec = c.fns.get(top)
            if frec is not None and frec.get("derived"):
                continue
            for b in m["blocks"]:
                t = b["term"]
                if t["k"] != "call":
                    continue
                ncalls += 1
                for rx, what in AMBIENT:
                    if rx.search(t["fn"]):
                        amb += 1
                        ok = False
                        reason = ""
                        for (ec, ef, ecallee), r in AMBIENT_EXCEPTIONS.items():
                            if ec == ckey and ends(top, ef) and t["fn"].startswith(ecallee):
                                ok = True
                                reason = r
                        rep.ob("C12.W2", "%s/%s/%s" % (ckey, top, t["fn"][:60]), ok,
                               ("tabled: " + reason) if ok else "ambient input (%s): %s called in %s" % (what, t["fn"], q), t.get("sp"))
                # address-to-integer casts
            for b in m["blocks"]:
                for st in b["stmts"]:
                    if st.get("k") == "cast" and "PointerExposeProvenance" in str(st.get("ck", "")):
                        rep.ob("C12.W2", "%s/%s/ptr-cast" % (ckey, top), False, "address exposed as integer in %s" % q)
    rep.floor("C12.W2", "resolved call sites scanned", ncalls, 3000)
    rep.ob("C12.W2", "positive-control", AMBIENT[3][0].search("std::env::var") is not None and amb >= 1,
           "the ambient matcher fires on the macro's tabled std::env::var call (%d ambient sites seen)" % amb, nontrivial=False)

    # ---------------------------------------------------------------- W3
    impl = facts.impl
    nfields = 0
    for ckey, c in facts.crates.items():
        for path, adt in c.adts.items():
            for v in adt["variants"]:
                for f in v["fields"]:
                    nfields += 1
                    t = f["ty"]
                    bad = HASH_COLL.search(t) or "indexmap::" in t or "IndexMap<" in t
                    if not bad:
                        continue
                    key = "%s/%s.%s" % (ckey, path.split("::")[-1], f["name"])
                    # the macro's option struct: consumption sites are covered by W1
                    if ckey == "typify_macro" and path.endswith("MacroSettings"):
                        rep.ob("C12.W3", "tabled:" + key, True, "front-end option map; every consumption site is decided by W1")
                    else:
                        rep.ob("C12.W3", "field:" + key, False, "field %s.%s has unordered collection type %s" % (path, f["name"], t[:100]), adt.get("sp"))
    for (ckey, suffix, fields) in ORDERED_FIELD_OWNERS:
        adt = facts[ckey].adt(suffix)
        if adt is None:
            rep.floor("C12.W3", "adt " + suffix, 0, 1)
            continue
        fmap = {f["name"]: f["ty"] for v in adt["variants"] for f in v["fields"]}
        for fn in fields:
            t = fmap.get(fn)
            if t is None:
                # the field may have been renamed/removed: then the generic scan above is what decides
                rep.info("W3: field %s.%s not present (generic scan still applies)" % (suffix, fn))
                continue
            ok = bool(re.match(r"^(std|alloc)::(collections::(btree_map::|btree_set::)?BTree(Map|Set)|vec::Vec)<", t)) or t.startswith("std::collections::BTree")
            rep.ob("C12.W3", "ordered:%s.%s" % (suffix, fn), ok, "type is %s" % t[:100], adt.get("sp"))
    # schemars::Map / Set resolve to ordered std collections in this build
    idx = [t for t in impl.types if "indexmap::" in t]
    rep.ob("C12.W3", "schemars-map-is-btree", not idx,
           "no type in typify-impl mentions indexmap (schemars::Map = BTreeMap, preserve_order off)" if not idx else "insertion-ordered map type in use: %s" % idx[0][:100])
    obj = [t for t in impl.types if "ObjectValidation" in t]
    rep.floor("C12.W3", "ADT fields scanned", nfields, 120)

    # ---------------------------------------------------------------- W4
    render_entries = []
    for q, f in impl.fns.items():
        if f.get("derived"):
            continue
        if ends(q, "TypeSpace::to_stream") or q.endswith("as quote::ToTokens>::to_tokens") and "TypeSpace" in q:
            render_entries.append(f)
        elif re.match(r"^Type(Enum|Struct|Newtype)?<'a>::", q) and f.get("pub"):
            render_entries.append(f)
    for f in render_entries:
        first = f["inputs"][0] if f["inputs"] else ""
        ok = first.startswith("&") and not first.startswith("&mut") and "&mut" not in first.split(" ")[0]
        ok = ok and not re.match(r"^&('[a-z_]+ )?mut ", first)
        rep.ob("C12.W4", "self-by-shared-ref:" + f["fn"], ok, "first parameter type `%s`" % first, f.get("sp"))
    rep.floor("C12.W4", "render entry points", len(render_entries), 12)
    # interior mutability reachable from TypeSpace through local ADT fields
    seen = set()
    todo = ["TypeSpace"]
    local_names = {p.split("::")[-1]: p for p in impl.adts}
    bad = []
    while todo:
        n = todo.pop()
        if n in seen:
            continue
        seen.add(n)
        adt = impl.adt(n) or impl.adts.get(local_names.get(n, ""), None)
        if adt is None:
            continue
        for v in adt["variants"]:
            for f in v["fields"]:
                if INTERIOR.search(f["ty"]):
                    bad.append("%s.%s: %s" % (n, f["name"], f["ty"][:80]))
                for name in re.findall(r"[A-Za-z_][A-Za-z0-9_]*", f["ty"]):
                    if name in local_names and name not in seen:
                        todo.append(name)
    rep.ob("C12.W4", "no-interior-mutability", not bad,
           "%d local ADTs reachable from TypeSpace, none holds Cell/RefCell/Mutex/Atomic/Once*" % len(seen) if not bad else "interior mutability reachable from TypeSpace: " + "; ".join(bad[:3]))
    rep.floor("C12.W4", "ADTs reachable from TypeSpace", len(seen), 15)
    fr = dict((a, b) for a, b in impl.d["freeze"])
    ts = [k for k in fr if k.endswith("::TypeSpace")]
    rep.ob("C12.W4", "TypeSpace:Freeze", bool(ts) and all(fr[k] for k in ts), "rustc: TypeSpace is Freeze" if ts else "TypeSpace not found")
    nst = 0
    for ckey, c in facts.crates.items():
        for st in c.d["statics"]:
            nst += 1
            ok = st["freeze"] and not st["mutable"] and not st["thread_local"]
            rep.ob("C12.W4", "static:%s/%s" % (ckey, st["path"]), ok, "static of type %s (freeze=%s mutable=%s thread_local=%s)" % (st["ty"][:60], st["freeze"], st["mutable"], st["thread_local"]), st.get("sp"))
        for t in c.types:
            if "std::thread::LocalKey<" in t:
                rep.ob("C12.W4", "thread-local:%s" % ckey, False, "thread_local! in use: %s" % t[:100])
                break
    check_location_taint(facts, rep)
    rep.sample({"rule": "C12.W4", "render_entries": [f["fn"] for f in render_entries][:8], "statics": nst, "reachable_adts": sorted(seen)[:12]})


# ---------------------------------------------------------------- W5 the document's location is not an input of the generator
READ_SINKS = ("fs::read_to_string", "fs::File::open", "fs::read", "File::open")
DIAG_SINKS = ("syn::Error::new", "into_syn_err", "wrap_err", "wrap_err_with", "eyre", "context", "with_context")
DIAG_MACROS = ("format", "panic", "eprintln", "eprint", "bail", "eyre")


def check_location_taint(facts, rep):
    from lib import Canon, nodes, src, binding_let, uses_of_let, strip_refs
    RULE = "C12.W5"
    routes = []
    for ckey in ("cargo_typify", "typify_macro"):
        c = facts[ckey]
        for h in c.user_fns():
            if any(x.get("k") == "mcall" and x["name"] == "add_root_schema" for x, _ in walk(h["body"])):
                routes.append((ckey, c, h))
    if not rep.floor(RULE, "front-end routes (fns calling add_root_schema)", len(routes), 2):
        return
    nseeds = 0
    for ckey, c, h in routes:
        def is_seed(n):
            if n.get("k") == "field" and n.get("name") == "input" and "CliArgs" in c.ty(n.get("bty")):
                return "the input path"
            if n.get("k") == "call" and (n.get("fn", "").endswith("env::var") or n.get("fn", "").endswith("env::current_dir") or n.get("fn", "").endswith("env::var_os")):
                return "the build directory"
            if n.get("k") == "mcall" and n["name"] in ("value", "span") and "LitStr" in c.ty((strip_refs(n["recv"]) or {}).get("ty")):
                return "the schema literal"
            return None
        tainted = []  # let statements holding a location

        def occurrences():
            for n, anc in walk(h["body"]):
                what = is_seed(n)
                if what:
                    yield n, anc, what
                elif n.get("k") == "path" and n.get("res") == "local":
                    b = binding_let(h, n)
                    if b is not None and any(b is t for t in tainted):
                        yield n, anc, "`%s` (derived from the document's location)" % n["path"]

        def sink(n, anc):
            """the innermost enclosing construct that consumes the location legitimately, or None"""
            for a in reversed(anc):
                k = a.get("k")
                if k in ("call", "mcall"):
                    fn = a.get("fn", "") if k == "call" else a.get("fn", a.get("name", ""))
                    nm = a.get("name", "") if k == "mcall" else fn
                    if any(fn.endswith(s_) for s_ in READ_SINKS):
                        return "read"
                    if any(fn.endswith(s_) or nm == s_ for s_ in DIAG_SINKS):
                        return "diagnostic"
                if k == "macro" and a.get("name") in DIAG_MACROS:
                    return "diagnostic"
                if k == "macro" and a.get("name") == "quote":
                    t = facts.template_at(a.get("sp"))
                    # the hole this value fills must be the whole argument of include_str!
                    for x in a.get("args", []):
                        if x.get("hole") and (x is n or any(y is n for y, _ in walk(x))):
                            ln, col = (x.get("sp", "::0:0").rsplit(":", 2) + ["0", "0"])[1:3]

                            def find(tt):
                                for i_, tk in enumerate(tt):
                                    if tk.get("t") == "group":
                                        body = tk.get("body", [])
                                        if (i_ >= 2 and tt[i_ - 1].get("s") == "!" and tt[i_ - 2].get("s") == "include_str" and len(body) == 1
                                                and body[0].get("t") == "hole" and str(body[0].get("line")) == ln and str(body[0].get("col")) == col):
                                            return True
                                        if find(body):
                                            return True
                                return False
                            if t and find(t.get("tt", [])):
                                return "anchor"
                    return None
            return None

        # pass 1: propagate through lets in source order
        for n, anc in walk(h["body"]):
            if n.get("k") == "let" and n.get("init") is not None:
                inner_ids = {id(x) for x, _ in walk(n["init"])}
                for o, oanc, what in list(occurrences()):
                    if id(o) in inner_ids and sink(o, oanc) is None:
                        if not any(n is t for t in tainted):
                            tainted.append(n)
                        break
        # pass 2: every occurrence is consumed by a sink or only computes another location
        let_inits = [(t, {id(x) for x, _ in walk(t["init"])}) for t in tainted]
        per = {}
        for o, oanc, what in occurrences():
            nseeds += 1
            sk = sink(o, oanc)
            in_loc_let = any(id(o) in ids for t, ids in let_inits)
            ok = sk is not None or in_loc_let
            holder = next((a for a in reversed(oanc) if a.get("k") in ("call", "mcall", "assign", "letx", "macro")), None)
            htxt = (holder.get("fn") or holder.get("name") or holder.get("k")) if holder else "?"
            kbase = "%s:%s" % (h["fn"].split("::")[-1], "derived location" if what.startswith("`") else what)
            i = per.get(kbase, 0)
            per[kbase] = i + 1
            rep.ob(RULE, "location-consumed:%s#%d" % (kbase, i), ok,
                   ("%s: %s" % (what, sk or "computes another location")) if ok else
                   "%s reaches `%s` in %s, which is neither the file read, a diagnostic nor the include_str! anchor: the generated code depends on where the document is stored, not only on its content and the settings" % (what, str(htxt)[-60:], h["fn"]), o.get("sp"))
        # the tainted lets must not be the document / settings / type space themselves
        for t in tainted:
            ty = c.ty((t.get("init") or {}).get("ty"))
            bad = any(w in ty for w in ("RootSchema", "TypeSpaceSettings", "TypeSpace", "Schema"))
            names = [b["name"] for b, _ in walk(t["pat"]) if b.get("k") == "bind"]
            rep.ob(RULE, "location-holder:%s#%d" % (h["fn"].split("::")[-1], [id(x) for x in tainted].index(id(t))), not bad,
                   "`%s` holds a location (%s)" % (",".join(names), ty[:50]) if not bad else "`%s` (%s) is computed from the document's location" % (",".join(names), ty[:60]), t.get("sp"))
    rep.floor(RULE, "uses of the document's location in the front ends", nseeds, 8)
