#!/usr/bin/env python3
"""Self-test of the checker: every case applies one patch to a scratch copy of /repo (outside /repo and
/verif), runs one property's check against the copy and requires a VIOLATION that names the expected
rule instance. Reverse-applied `fix` patches re-introduce the genuine defects that were repaired.
Exit 0 iff every case is detected (and the clean copy stays silent)."""
import json
import os
import shutil
import subprocess
import sys
import tempfile

HERE = os.path.dirname(os.path.abspath(__file__))
VERIF = os.path.dirname(HERE)


def run_case(case, scratch_root):
    repo = os.path.join(scratch_root, "repo")
    if os.path.exists(repo):
        shutil.rmtree(repo)
    subprocess.check_call(["rsync", "-a", "--exclude", "target", "--exclude", ".git", "/repo/", repo + "/"])
    patch = os.path.join(HERE, case["patch"])
    cmd = ["patch", "-p1", "-s", "-d", repo, "-i", patch]
    if case.get("reverse"):
        cmd.insert(1, "-R")
    r = subprocess.run(cmd, stdout=subprocess.PIPE, stderr=subprocess.STDOUT, text=True)
    if r.returncode != 0:
        return False, "patch does not apply: " + r.stdout[-300:]
    env = dict(os.environ, REPO=repo)
    out = subprocess.run([os.path.join(VERIF, "check"), case["property"], "quick"], cwd=VERIF, env=env, stdout=subprocess.PIPE, stderr=subprocess.STDOUT, text=True)
    text = out.stdout
    hit = [l for l in text.splitlines() if l.strip().startswith("violation") and case["expect"] in l]
    ok = out.returncode == 1 and "VIOLATION property=%s" % case["property"] in text and bool(hit)
    return ok, (hit[0].strip()[:200] if hit else "exit=%d; %s" % (out.returncode, " | ".join(l.strip()[:120] for l in text.splitlines() if "violation" in l or "INFRA" in l)[:400]))


def main():
    cases = json.load(open(os.path.join(HERE, "cases.json")))
    only = sys.argv[1:] 
    scratch = tempfile.mkdtemp(prefix="verif-selftest-")
    failed = 0
    try:
        for case in cases:
            if only and not any(o in case["name"] for o in only):
                continue
            ok, detail = run_case(case, scratch)
            print("%s %-44s %s %s" % ("DETECTED" if ok else "MISSED  ", case["name"], case["property"], detail))
            if not ok:
                failed += 1
    finally:
        shutil.rmtree(scratch, ignore_errors=True)
        # drop the facts extracted from scratch copies
        cache = os.path.join(VERIF, ".cache")
        for d in os.listdir(cache):
            if d.startswith("facts-") or d.startswith("evidence-"):
                shutil.rmtree(os.path.join(cache, d), ignore_errors=True)
    print("%d case(s) missed" % failed)
    return 1 if failed else 0


if __name__ == "__main__":
    sys.exit(main())
