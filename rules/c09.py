"""C09 — allOf means intersection: an unsatisfiable conjunction never becomes permissive (one clause)."""
import re
from lib import (Canon, norm_arm, walk, nodes, ends, src, psrc, outcome, contains_node, pat_top_variants, short, calls_in, block_last,
                 strip_refs, guards, gtext, top_stmts)

EXPLANATION = (
    "Decides structural clauses of the binary merges (mirror cases, directions, strictness, index spaces) and, by evaluation, the instance-type test that filters enum values; not that every satisfiable conjunction accepts the right instances nor order independence in general: (W1) every value "
    "of the merge machinery that can signal 'no instance' — a Result<_, ()> from the try_merge family, Schema::Bool(false) from "
    "merge_all — is, at each site where it is consumed, propagated with `?`, mapped to Schema::Bool(false), matched with an Err "
    "arm that builds the uninhabited type, tested, or is one of the tabled drops (a branch of anyOf/oneOf that cannot be merged "
    "is removed); at the converter's call sites the unsatisfiable outcome reaches the empty-enum constructor, directly or "
    "through convert_schema's `false` arm; the empty-enum constructor builds an enum with no variants; (D1) in the merge "
    "machinery a comparison of a count with a min*/max* bound that answers 'unsatisfiable' is strict — JSON Schema bounds are "
    "inclusive, so equality must merge; (D2) where a binary merge sorts members into 'only in the first operand' / 'only in the "
    "second operand' cases, the two cases are handled by mirror-image code (swapping the operands maps one arm onto the other): "
    "a necessary condition for the result not to depend on subschema order; (D3) every case analysis `match (f(a), f(b))` over "
    "the two operands of a binary function on schemas (merges, the rough-equality and mutual-exclusion predicates) has a set of "
    "pattern alternatives that is closed under swapping the operands — `(None, x)` is never handled without `(x, None)`; (D4) where such a "
    "function compares two collections element by element (`.all(..)` over one operand's iterator), the same conjunction "
    "compares their lengths — otherwise 'equal' silently means 'subset', and the merge keeps a reference whose constraints "
    "the merged schema no longer implies; (D5) the instance-type test used to filter enum values after a merge admits, for each "
    "JSON Schema type, every JSON kind of that type (number = unsigned, negative and fractional numbers; integer = the first "
    "two), evaluated abstractly over the eight JSON kinds: a test that is too narrow drops valid enum values from the merged "
    "type; (D6) each keyword is combined in the direction of an intersection: upper bounds (`max*`) by min, lower bounds "
    "(`min*`) by max, `uniqueItems` by or, `required` by union, type lists by intersection, and both operands of each "
    "combination are the *same* member of the two schemas; (D7) a call inside a binary merge that is handed members of both "
    "operands is handed the same members of each (`f(a.x, a.y, b.x, b.y)`, never `f(a.x, a.y, b.x, a.y)`); (D8) two `let`s of a binary merge that compute the same thing for the two "
    "operands (same shape once the operand is abstracted) are mirror images of each other — `chain(pad(a.additional))` for a, "
    "`chain(pad(b.additional))` for b."
    " (D9) two closure parameters that are compared as positions come from `enumerate()` over the same sequence; D5 also reads a table of (type, predicate) rows, D2 also the `(Some, None)`/`(None, Some)` arms of paired options."
    " D5 is decided by evaluating the fn that takes the schema's `type` and a JSON value for every JSON Schema type x every kind of JSON value, alone and inside a type array (whatever its shape: a match on the type, a classifier of the value, a table of predicates); the shape-based forms apply only when that evaluation is not possible."
)
ASSUMPTIONS = ["the pairwise merge functions compute intersections (not decided)"]

# tabled drops: (fn suffix, reason)
TABLED_DROPS = {
    "merge::try_merge_with_subschemas_not": "`not` of an unsatisfiable conjunction excludes nothing: the outer schema is kept unchanged",
    "merge::try_merge_with_each_subschema": "a branch of anyOf/oneOf that cannot be merged with the outer schema admits no instance and is removed; zero remaining branches is reported as Err by the caller",
}


def is_unit_result(t):
    return bool(re.search(r"Result<.*, \(\)>$", t))


def run(facts, rep, tier):
    c = facts.impl
    run_d(facts, rep, tier)
    run_d3(facts, rep, tier)
    run_d4(facts, rep, tier)
    run_d5(facts, rep, tier)
    run_d6(facts, rep, tier)
    run_d7(facts, rep, tier)
    run_d8(facts, rep, tier)
    run_d9(facts, rep, tier)
    # ------------------------------------------------------------ consumption of Result<_, ()>
    n = 0
    for h in c.user_fns():
        for x, anc in walk(h["body"]):
            if x.get("k") not in ("call", "mcall"):
                continue
            if not is_unit_result(c.ty(x.get("ty"))):
                continue
            if x.get("k") == "call" and x.get("res") == "ctor":
                continue  # Ok(..)/Err(()) constructors
            if x.get("fn", "").endswith("FromResidual::from_residual") or x.get("fn", "").endswith("Try::branch"):
                continue  # desugaring of `?`
            if x.get("k") == "mcall" and x["name"] in ("map", "map_err", "and_then", "or_else", "ok_or", "transpose", "collect", "try_fold", "cloned", "copied"):
                # adaptor producing the Result: its own consumer is what matters; treat this node as the producer
                pass
            par = anc[-1] if anc else {}
            gp = anc[-2] if len(anc) > 1 else {}
            callee = x.get("fn") or x.get("name")
            n += 1
            key = "%s/%s#%d" % (h["fn"], short(callee or "?"), sum(1 for o in rep.obligations if o["key"].startswith("C09.W1/consumed:%s/%s#" % (h["fn"], short(callee or "?")))))
            how = None
            ok = False
            if par.get("k") == "call" and par.get("fn", "").endswith("Try::branch"):
                how, ok = "propagated with `?`", True
            elif par.get("k") == "mcall" and par.get("recv") is x and par["name"] in ("unwrap_or", "unwrap_or_else"):
                a = src(par["args"])
                ok = "Schema::Bool(false)" in a
                how = "mapped to %s" % a[:40]
            elif par.get("k") == "mcall" and par.get("recv") is x and par["name"] == "ok":
                fnkey = [k for k in TABLED_DROPS if h["fn"].endswith(k)]
                in_filter = any(a.get("k") == "mcall" and a["name"] in ("filter_map", "flat_map") for a in anc)
                ok = bool(fnkey) and in_filter
                how = "tabled drop: " + TABLED_DROPS[fnkey[0]] if ok else "`.ok()` discards the unsatisfiable outcome"
            elif par.get("k") == "mcall" and par.get("recv") is x and par["name"] in ("is_ok", "is_err"):
                how, ok = "tested with %s()" % par["name"], True
            elif par.get("k") == "mcall" and par.get("recv") is x and par["name"] in ("map", "map_err", "and_then", "or_else"):
                continue  # consumer is the adaptor's own consumer (visited as its own node)
            elif par.get("k") == "match" and par.get("scrut") is x:
                errs = [a for a in par["arms"] if psrc(a["pat"]).startswith("Err(")]
                s = src(errs[0]["body"]) if errs else ""
                ok = bool(errs) and ("convert_never(" in s or "Err(())" in s or "Schema::Bool(false)" in s)
                how = "matched: Err => %s" % s[:50]
                fnkey = [k for k in TABLED_DROPS if h["fn"].endswith(k)]
                if not ok and fnkey and errs:
                    ok, how = True, "tabled drop: " + TABLED_DROPS[fnkey[0]]
            elif par.get("k") == "let":
                # bound to a name: find a match on that name
                nm = par["pat"].get("name")
                from lib import uses_of_let
                us_ = uses_of_let(h, par)
                ms = [m for m, _ in nodes(h["body"], "match") if any(strip_refs(m["scrut"]) is u_ for u_ in us_)]
                if ms:
                    errs = [a for a in ms[0]["arms"] if psrc(a["pat"]).startswith("Err(")]
                    s = src(errs[0]["body"]) if errs else ""
                    ok = bool(errs) and ("convert_never(" in s or "Err(())" in s or "Schema::Bool(false)" in s)
                    how = "bound to `%s` and matched: Err => %s" % (nm, s[:50])
                else:
                    how = "bound to `%s` and not matched" % nm
            elif par.get("k") in ("block",) and (par.get("tail") is x):
                how, ok = "returned to the caller", True
            elif par.get("k") is None and par.get("body") is x:
                how, ok = "arm value returned to the caller", True
            elif par.get("k") == "closure" and par.get("body") is x:
                how, ok = "closure result (consumed by its adaptor)", True
            elif par.get("k") == "ret":
                how, ok = "returned", True
            elif par.get("k") == "if" and (par.get("then") is x or par.get("else") is x):
                how, ok = "branch value returned to the caller", True
            else:
                how = "consumed by `%s`" % src(par)[:60]
            rep.ob("C09.W1", "consumed:" + key, ok, how if ok else "an unsatisfiable merge result of %s is %s: the conjunction can become permissive" % (short(callee or "?"), how), x.get("sp"))
    rep.floor("C09.W1", "sites consuming a Result<_, ()> of the merge machinery", n, 25)

    # ------------------------------------------------------------ merge_all results at the converter
    ma = [q for q in c.hir if q.endswith("merge::merge_all")]
    if rep.floor("C09.W1", "merge_all", len(ma), 1):
        s = src(c.hir[ma[0]]["body"])
        rep.ob("C09.W1", "merge_all-maps-err-to-false", "unwrap_or(Schema::Bool(false))" in s, "merge_all = try_merge_all(..).unwrap_or(Schema::Bool(false))")
        sites = [(h, x, anc) for h in c.user_fns() for x, anc in walk(h["body"]) if x.get("k") == "call" and x.get("fn") == ma[0]]
        rep.floor("C09.W1", "call sites of merge_all", len(sites), 2)
        never = [q for q in c.hir if q.endswith("TypeSpace::convert_never")]
        for h, x, anc in sites:
            par = anc[-1]
            nm = par["pat"].get("name") if par.get("k") == "let" else (src(par["l"]) if par.get("k") == "assign" else None)
            key = "%s#%d" % (h["fn"], sum(1 for o in rep.obligations if o["key"].startswith("C09.W1/false-reaches-never:%s#" % h["fn"])))
            ok = False
            how = "result is not bound"
            if nm:
                from lib import uses_of_let
                us_ = uses_of_let(h, par) if par.get("k") == "let" else [u_ for u_, _ in walk(h["body"]) if u_.get("k") == "path" and u_.get("res") == "local" and u_.get("path") == nm]
                tests = [i for i, _ in nodes(h["body"], "if") if i["cond"].get("k") == "letx" and "Schema::Bool(false)" in psrc(i["cond"]["pat"]) and any(contains_node(i["cond"]["init"], u_) or strip_refs(i["cond"]["init"]) is u_ for u_ in us_)]
                if tests and any(q in calls_in(tests[0]["then"]) for q in never):
                    ok, how = True, "`if let Schema::Bool(false) = &%s { convert_never }`" % nm
                else:
                    conv = [y for y, _ in walk(h["body"]) if y.get("k") in ("call", "mcall") and y.get("fn", "").endswith("TypeSpace::convert_schema") and any(contains_node(a_, u_) or strip_refs(a_) is u_ for a_ in y.get("args", []) for u_ in us_)]
                    if conv:
                        ok, how = True, "`%s` is converted by convert_schema, whose `false` arm builds the uninhabited type" % nm
            rep.ob("C09.W1", "false-reaches-never:" + key, ok, how if ok else "Schema::Bool(false) from merge_all in %s does not reach the uninhabited type (%s)" % (h["fn"], how), x.get("sp"))
    cs = [h for h in c.user_fns() if ends(h["fn"], "TypeSpace::convert_schema")]
    if cs:
        m = [n_ for n_, _ in nodes(cs[0]["body"], "match") if n_.get("src") == "normal" and "schemars::schema::Schema" in c.ty(n_.get("scty"))]
        got = {}
        if m:
            from lib import table_is_plain
            table_is_plain(rep, "C09.W1", "convert_schema-dispatch", m[0])
            for a in m[0]["arms"]:
                got[psrc(a["pat"])] = src(a["body"])
        rep.ob("C09.W1", "false-schema-is-never", "convert_never(" in got.get("Schema::Bool(false)", ""), "convert_schema: Schema::Bool(false) => convert_never")
        rep.ob("C09.W1", "true-schema-is-permissive", "convert_permissive(" in got.get("Schema::Bool(true)", ""), "convert_schema: Schema::Bool(true) => convert_permissive")
    nv = [h for h in c.user_fns() if h["fn"].endswith("TypeSpace::convert_never")]
    if rep.floor("C09.W1", "uninhabited-type constructor", len(nv), 1):
        call = [x for x, _ in nodes(nv[0]["body"], "call") if x.get("fn", "").endswith("TypeEntryEnum::from_metadata")]
        args = [src(a) for a in call[0]["args"]] if call else []
        ok = bool(call) and "vec!()" in args and "EnumTagType::External" in args
        rep.ob("C09.W1", "never-is-an-empty-enum", ok, "convert_never = enum with no variants" if ok else "convert_never builds %s" % args)
    # try_merge_schema: false is absorbing, true is neutral
    tms = [h for h in c.user_fns() if h["fn"].endswith("merge::try_merge_schema")]
    if rep.floor("C09.W1", "try_merge_schema", len(tms), 1):
        m = [n_ for n_, _ in nodes(tms[0]["body"], "match") if n_.get("src") == "normal" and n_["scrut"].get("k") == "tup"]
        got = {}
        if m:
            for a in m[0]["arms"][:2]:
                pk, g, b = norm_arm(a)
                got[pk] = b
        rep.ob("C09.W1", "false-is-absorbing", got.get("(Schema::Bool(false),_)|(_,Schema::Bool(false))") == "Err(())", "(false, _) | (_, false) => Err(())")
        rep.ob("C09.W1", "true-is-neutral", got.get("(Schema::Bool(true),$0)|($0,Schema::Bool(true))") == "Ok($0.clone())", "(true, other) | (other, true) => Ok(other)")
    tma = [h for h in c.user_fns() if h["fn"].endswith("merge::try_merge_all")]
    if tma:
        body = tma[0]["body"]
        loops = [n_ for n_, _ in nodes(body, "match") if n_.get("src") == "for" and any(x.endswith("merge::try_merge_schema") for x in calls_in(n_))]
        from lib import Canon
        cnm = Canon(c, tma[0], 3)
        first = [x for x, _ in nodes(body, "call") if x.get("fn", "").endswith("merge::try_merge_schema") and [cnm.r(a) for a in x["args"][:2]] == ["$&[Schema].0", "$&[Schema].1"]]
        rep.ob("C09.W1", "merge_all-folds-every-subschema", bool(loops) and bool(first), "first two subschemas are merged, then every remaining one is folded in")


from lib import PCanon  # noqa: E402
from lib import cpat as cpat_  # noqa: E402


def swap_sides(text, v0, v1):
    text = text.replace("$P0", "$P\0").replace("$P1", "$P0").replace("$P\0", "$P1")
    a, b = "~" + v0, "~" + v1
    text = re.sub(re.escape(a) + r"\b", "~\0", text)
    text = re.sub(re.escape(b) + r"\b", a, text)
    return text.replace("~\0", b)


def run_d(facts, rep, tier):
    c = facts.impl
    merge_fns = [h for h in c.user_fns() if re.search(r"Result<.*, \(\)>$", c.fns.get(h["fn"], {}).get("output", ""))]
    # ------------------------------------------------------------ D1 strict bound tests
    n1 = 0
    for h in merge_fns:
        cn = None
        for n, anc in walk(h["body"]):
            if n.get("k") == "if" and outcome(n["then"]) == "ret-err":
                for x, _ in walk(n["cond"]):
                    if x.get("k") == "bin" and x["op"] in ("Lt", "Le", "Gt", "Ge"):
                        cn = cn or PCanon(c, h, 4)
                        n1 += 1
                        key = "%s#%d" % (h["fn"], sum(1 for o in rep.obligations if o["key"].startswith("C09.D1/bound-test-is-strict:%s#" % h["fn"])))
                        ok = x["op"] in ("Lt", "Gt")
                        rep.ob("C09.D1", "bound-test-is-strict:" + key, ok, "`%s` is strict" % src(x)[:60] if ok else
                               "`%s` answers unsatisfiable when the count equals the bound: minItems/maxItems/min-/maxProperties are inclusive, so a satisfiable conjunction (exactly that many members) becomes the uninhabited type" % src(x)[:80], x.get("sp") or n.get("sp"))
    rep.floor("C09.D1", "bound comparisons that answer unsatisfiable", n1, 3)

    # ------------------------------------------------------------ D2 mirror arms
    n2 = 0
    for h in merge_fns:
        ins = c.fns[h["fn"]].get("inputs", [])
        if len(ins) < 2 or ins[0] != ins[1]:
            continue
        cn = PCanon(c, h, 4)
        # which variants of a local enum are built from one operand only
        side = {}
        for n, _ in nodes(h["body"], "call"):
            if n.get("res") == "ctor" and n.get("fn") and n.get("args"):
                t = " ".join(cn.r(a) for a in n["args"])
                has0, has1 = "$P0" in t, "$P1" in t
                if has0 != has1:
                    side.setdefault(n["fn"], set()).add(0 if has0 else 1)
        one_sided = {k: list(v)[0] for k, v in side.items() if len(v) == 1 and not k.split("::")[-1] in ("Some", "Ok", "Err", "Box")}
        for m, manc in walk(h["body"]):
            if m.get("k") != "match" or m.get("src") != "normal":
                continue
            # the members being sorted are the parameters of the enclosing closure: keep them opaque so that only
            # the treatment of the two sides is compared, not the (ordered) iteration that produced the member
            env = {}
            cl = [a for a in manc if a.get("k") == "closure"]
            if cl:
                k = 0
                for pp in cl[-1].get("params", []):
                    for b, _ in walk(pp):
                        if b.get("k") == "bind":
                            env[b["name"]] = "@%d" % k
                            k += 1
            arms = {}
            for a in m["arms"]:
                vs = pat_top_variants(a["pat"])
                if len(vs) == 1 and vs[0] in one_sided:
                    arms[vs[0]] = a
            by_enum = {}
            for v, a in arms.items():
                by_enum.setdefault(v.rsplit("::", 1)[0], []).append((v, a))
            for en, lst in by_enum.items():
                s0 = [(v, a) for v, a in lst if one_sided[v] == 0]
                s1 = [(v, a) for v, a in lst if one_sided[v] == 1]
                if len(s0) == 1 and len(s1) == 1:
                    n2 += 1
                    (v0, a0), (v1, a1) = s0[0], s1[0]
                    t0, t1 = cn.r(a0["body"], 0, env), cn.r(a1["body"], 0, env)
                    g0 = cn.r(a0["guard"], 0, env) if a0.get("guard") else ""
                    g1 = cn.r(a1["guard"], 0, env) if a1.get("guard") else ""
                    sv0, sv1 = v0.split("::")[-1], v1.split("::")[-1]
                    ok = swap_sides(t0, sv0, sv1) == t1 and swap_sides(g0, sv0, sv1) == g1
                    rep.ob("C09.D2", "mirror-arms:%s/%s" % (h["fn"], en.split("::")[-1]), ok,
                           "the arm for members only in the first operand and the arm for members only in the second are mirror images" if ok else
                           "members that occur only in the first operand are handled by `%s` but those only in the second by `%s`: the merge depends on the order of the subschemas (and one side escapes the other side's constraints)" % (src(a0["body"])[:70], src(a1["body"])[:70]), a1.get("sp"))
    # second form: the members of the two operands are paired up first (`(Option<&T>, Option<&T>)`), then
    # `(Some(a), None)` and `(None, Some(b))` are the one-sided cases
    if not n2:
        for h in merge_fns:
            ins = c.fns[h["fn"]].get("inputs", [])
            if len(ins) < 2 or ins[0] != ins[1]:
                continue
            cn = PCanon(c, h, 4)
            for m, manc in walk(h["body"]):
                if m.get("k") != "match" or m.get("src") != "normal":
                    continue
                t = c.ty(m.get("scty")) or ""
                mm = re.fullmatch(r"\((std::option::Option<.+>), \1\)", t)
                if not mm:
                    continue
                only0 = [a for a in m["arms"] if re.fullmatch(r"\(Some\(.*\), None\)", cpat_(a["pat"]))]
                only1 = [a for a in m["arms"] if re.fullmatch(r"\(None, Some\(.*\)\)", cpat_(a["pat"]))]
                if len(only0) != 1 or len(only1) != 1:
                    continue
                S = cn.r(m["scrut"])
                t0, t1 = cn.r(only0[0]["body"]), cn.r(only1[0]["body"])
                if "$P0" not in t0 + t1 and "$P1" not in t0 + t1:
                    continue
                n2 += 1
                sw = t0.replace("$P0", "$P\0").replace("$P1", "$P0").replace("$P\0", "$P1")
                sw = sw.replace(S + ".0~Some", "\0").replace(S + ".1~Some", S + ".0~Some").replace("\0", S + ".1~Some")
                ok = sw == t1 and only0[0].get("guard") is None and only1[0].get("guard") is None
                rep.ob("C09.D2", "mirror-arms:%s/pair" % h["fn"], ok,
                       "the arm for members only in the first operand and the arm for members only in the second are mirror images" if ok else
                       "members that occur only in the first operand are handled by `%s` but those only in the second by `%s`: the merge depends on the order of the subschemas (and one side escapes the other side's constraints)" % (src(only0[0]["body"])[:70], src(only1[0]["body"])[:70]), only1[0].get("sp"))
    rep.floor("C09.D2", "one-sided case pairs in binary merges", n2, 1)


def anon_pat(p, binders=False):
    """pattern text with binder names anonymised (binders=True: keep the fact that a sub-pattern is bound, as `@`)"""
    k = p.get("k")
    if binders:
        if k == "bind":
            return "@" + ("_" if not p.get("sub") else anon_pat(p["sub"], True))
        if k == "tuple":
            return "(" + ",".join(anon_pat(x, True) for x in p["pats"]) + ")"
        if k == "or":
            return "|".join(sorted(anon_pat(x, True) for x in p["pats"]))
        if k == "tstruct":
            return p["path"].split("::")[-1] + "(" + ",".join(anon_pat(x, True) for x in p["pats"]) + ")"
        if k == "struct":
            return p["path"].split("::")[-1] + "{" + ",".join("%s:%s" % (n, anon_pat(x, True)) for n, x in sorted(p["fields"], key=lambda z: z[0])) + "}"
    if k == "bind":
        return "_" if not p.get("sub") else anon_pat(p["sub"])
    if k == "wild":
        return "_"
    if k == "tuple":
        return "(" + ",".join(anon_pat(x) for x in p["pats"]) + ")"
    if k == "or":
        return "|".join(sorted(anon_pat(x) for x in p["pats"]))
    if k == "tstruct":
        return p["path"].split("::")[-1] + "(" + ",".join(anon_pat(x) for x in p["pats"]) + ")"
    if k == "struct":
        return p["path"].split("::")[-1] + "{" + ",".join("%s:%s" % (n, anon_pat(x)) for n, x in sorted(p["fields"], key=lambda z: z[0])) + "}"
    if k == "path":
        return p["path"].split("::")[-1]
    if k == "lit":
        return str(p.get("v"))
    return psrc(p)


def run_d3(facts, rep, tier):
    c = facts.impl
    n3 = 0
    for h in c.user_fns():
        ins = c.fns.get(h["fn"], {}).get("inputs", [])
        if len(ins) < 2 or ins[0] != ins[1]:
            continue
        cn = PCanon(c, h, 3)
        k_in = 0
        for m, _ in nodes(h["body"], "match"):
            if m.get("src") != "normal" or m["scrut"].get("k") != "tup" or len(m["scrut"]["es"]) != 2:
                continue
            e0, e1 = cn.r(m["scrut"]["es"][0]), cn.r(m["scrut"]["es"][1])
            if swap_sides(e0, "#", "#") != e1 or "$P" not in e0:
                continue
            alts = set()
            for a in m["arms"]:
                p = a["pat"]
                for q in (p["pats"] if p.get("k") == "or" else [p]):
                    if q.get("k") == "tuple" and len(q["pats"]) == 2:
                        alts.add((anon_pat(q["pats"][0]), anon_pat(q["pats"][1])))
            missing = sorted((x, y) for x, y in alts if (y, x) not in alts)
            # binders: alternatives of one arm that are mirror images must bind the same names to mirrored sub-patterns
            for a in m["arms"]:
                p = a["pat"]
                if p.get("k") != "or":
                    continue
                prs = [(q["pats"][0], q["pats"][1]) for q in p["pats"] if q.get("k") == "tuple" and len(q["pats"]) == 2]
                for (a0, a1) in prs:
                    for (b0, b1) in prs:
                        if (anon_pat(b0), anon_pat(b1)) == (anon_pat(a1), anon_pat(a0)) and (a0 is not b0):
                            if (anon_pat(b0, True), anon_pat(b1, True)) != (anon_pat(a1, True), anon_pat(a0, True)):
                                missing.append(("binding of (%s, %s)" % (anon_pat(a0, True), anon_pat(a1, True)), "its mirror binds (%s, %s)" % (anon_pat(b0, True), anon_pat(b1, True))))
            n3 += 1
            rep.ob("C09.D3", "cases-closed-under-swap:%s#%d" % (h["fn"], k_in), not missing,
                   "%d pattern alternatives, closed under operand swap" % len(alts) if not missing else
                   ("the two mirror-image alternatives of one arm bind their variable to different sides (%s; %s): the value used depends on which subschema comes first" % missing[0]) if missing[0][0].startswith("binding of") else
                   "the case (%s, %s) is handled but its mirror image (%s, %s) is not: the result depends on which subschema comes first" % (missing[0][0], missing[0][1], missing[0][1], missing[0][0]), m.get("sp"))
            k_in += 1
    rep.floor("C09.D3", "symmetric case analyses over two operands", n3, 18)


def run_d4(facts, rep, tier):
    c = facts.impl
    n4 = 0
    for h in c.user_fns():
        f = c.fns.get(h["fn"], {})
        ins = f.get("inputs", [])
        if len(ins) < 2 or ins[0] != ins[1] or f.get("output") != "bool":
            continue
        cn = PCanon(c, h, 3)
        k_in = 0
        for n, anc in walk(h["body"]):
            if not (n.get("k") == "mcall" and n["name"] == "all"):
                continue
            t = cn.r(n["recv"])
            if "$P0" not in t and "$P1" not in t:
                continue
            # element-wise pairing: the iterator zips both operands, or the closure looks each element up in the other operand
            clo = cn.r(n["args"][0]) if n.get("args") else ""
            other = "$P1" if "$P0" in t else "$P0"
            pairing = (".zip(" in t and "$P0" in t and "$P1" in t) or re.search(re.escape(other) + r"[^ ,()]*\.(get|contains_key)\(", clo) is not None
            if not pairing:
                continue
            n4 += 1
            # the maximal conjunction this `.all(..)` is an operand of
            top = n
            for a in reversed(anc):
                if a.get("k") == "bin" and a.get("op") == "And":
                    top = a
                else:
                    break
            lens_ok = re.search(r"\(\$P([01])[^ ()]*\.len\(\) Eq \$P(?!\1)[01][^ ()]*\.len\(\)\)", cn.r(top)) is not None
            for x, _ in walk(top):
                if x.get("k") == "bin" and x.get("op") == "Eq":
                    l, r = strip_refs(x["l"]), strip_refs(x["r"])
                    if l.get("k") == "mcall" and r.get("k") == "mcall" and l["name"] == "len" and r["name"] == "len":
                        tl, tr = cn.r(l["recv"]), cn.r(r["recv"])
                        if ("$P0" in tl and "$P1" in tr and swap_sides(tl, "#", "#") == tr) or ("$P1" in tl and "$P0" in tr and swap_sides(tl, "#", "#") == tr):
                            lens_ok = True
            rep.ob("C09.D4", "elementwise-comparison-checks-length:%s#%d" % (h["fn"], k_in), lens_ok,
                   "`a.len() == b.len() && a.iter()..all(..)`" if lens_ok else
                   "two collections are compared element by element without comparing their lengths: every member of one operand is looked up in the other, so a strict subset counts as equal (and the answer depends on which operand comes first)", n.get("sp"))
            k_in += 1
    rep.floor("C09.D4", "element-wise comparisons in binary predicates on schemas", n4, 2)


TYPE_KINDS = {"Null": {"null"}, "Boolean": {"bool"}, "Object": {"object"}, "Array": {"array"}, "String": {"string"},
              "Number": {"u64", "big", "neg", "float"}, "Integer": {"u64", "big", "neg"}}


def d5_by_evaluation(facts, rep):
    """The instance-type test, whatever its shape: the fn that takes the schema's `type` and a JSON value is evaluated
    (rules/minirust.py) for every JSON Schema type x every kind of JSON value, alone and inside a type array. A value of a
    kind the type admits must be accepted (an integer is a number). -> True if evaluable."""
    import minirust as mr
    c = facts.impl
    cands = []
    for h in c.user_fns():
        ins = c.fns.get(h["fn"], {}).get("inputs", [])
        if len(ins) == 2 and "SingleOrVec<schemars::schema::InstanceType>" in ins[0] and ins[0].startswith("std::option::Option<") and "Value" in ins[1]:
            cands.append(h)
    if len(cands) != 1:
        return False
    h = cands[0]

    def jv(kind):
        if kind == "null":
            return ("ctor", "Null", [])
        if kind == "bool":
            return ("ctor", "Bool", [True])
        if kind in ("u64", "big", "neg", "float"):
            return ("ctor", "Number", [("num", kind)])
        if kind == "string":
            return ("ctor", "String", ["s"])
        if kind == "array":
            return ("ctor", "Array", [[]])
        return ("ctor", "Object", [("map", {})])

    def kind_of(v):
        if isinstance(v, tuple) and v and v[0] == "ctor":
            return {"Null": "null", "Bool": "bool", "String": "string", "Array": "array", "Object": "object"}.get(v[1]) or (v[2][0][1] if v[1] == "Number" else None)
        if isinstance(v, tuple) and v and v[0] == "num":
            return v[1]
        return None
    import kinds as K_

    def is_hook(name):
        def f_(mach, recv, *a_):
            k_ = kind_of(recv)
            if k_ is None:
                raise mr.Unknown("%s on %r" % (name, recv))
            return k_ in K_.IS[name]
        return f_
    hooks = {n_: is_hook(n_) for n_ in K_.IS}
    hooks["from_ref"] = lambda mach, x_: [x_]
    hooks["to_string"] = lambda mach, *a_: "s"

    def as_hook(name):
        def f_(mach, recv, *a_):
            k_ = kind_of(recv)
            return mr.some(("v", k_)) if k_ in K_.AS[name] else mr.NONE
        return f_
    for n_ in K_.AS:
        hooks[n_] = as_hook(n_)
    m = mr.Machine(c, hooks=hooks)
    ALLK = ["null", "bool", "u64", "big", "neg", "float", "string", "array", "object"]
    miss = {}
    n = 0
    try:
        for T, need in TYPE_KINDS.items():
            for k_ in ALLK:
                for shape in ("single", "vec"):
                    it = ("ctor", "Single", [("ctor", T, [])]) if shape == "single" else ("ctor", "Vec", [[("ctor", "Object" if T != "Object" else "Array", []), ("ctor", T, [])]])
                    m.fuel = 50000
                    r_ = m.run_fn(h, [mr.some(it), jv(k_)])
                    n += 1
                    acc = isinstance(r_, tuple) and r_ and r_[0] == "Ok" or r_ is True
                    if k_ in need and not acc:
                        miss.setdefault(T, set()).add(k_)
    except mr.Unknown as e_:
        rep.info("C09.D5 not evaluable (%s): the shape-based forms decide" % e_)
        return False
    rep.floor("C09.D5", "instance-type test over a JSON value", 1, 1)
    for T, need in TYPE_KINDS.items():
        bad = sorted(miss.get(T, ()))
        rep.ob("C09.D5", "type-admits-its-kinds:%s" % T, not bad, "%s admits %s (evaluated alone and inside a type array)" % (T, sorted(need)) if not bad else
               "the test for JSON Schema type `%s` rejects %s values: valid enum values of that kind are filtered out of a merged schema, so the generated type rejects valid instances" % (T.lower(), "/".join(bad)), c.fns[h["fn"]].get("sp"))
    rep.floor("C09.D5", "JSON Schema types with an arm", len(TYPE_KINDS), 7)
    return True


def run_d5(facts, rep, tier):
    import kinds
    if d5_by_evaluation(facts, rep):
        return
    c = facts.impl
    sites = []
    for h in c.user_fns():
        f = c.fns.get(h["fn"], {})
        ins = f.get("inputs", [])
        if not (any(t.replace("&", "").strip().endswith("schema::InstanceType") for t in ins) and any(kinds.is_value_ty(t) for t in ins)):
            continue
        for m, _ in nodes(h["body"], "match"):
            if m.get("src") == "normal" and "InstanceType" in c.ty(m.get("scty")):
                sites.append((h, m))
    if not sites:
        # second shape: the value is classified once (`match value { Value::X => InstanceType::Y, .. }`) and compared with the type
        if classify_form(facts, rep, kinds):
            return
        # third shape: a table of (InstanceType, .., predicate over the value) rows looked up by the type
        if table_form(facts, rep, kinds):
            return
    if not rep.floor("C09.D5", "instance-type test over a JSON value", len(sites), 1):
        return
    h, m = sites[0]
    # the value parameter
    vname = None
    for i, t in enumerate(c.fns[h["fn"]]["inputs"]):
        if kinds.is_value_ty(t) and i < len(h.get("params", [])) and h["params"][i].get("k") == "bind":
            vname = h["params"][i]["name"]
    ev = kinds.Eval(c)
    from lib import table_is_plain
    table_is_plain(rep, "C09.D5", "instance-type", m)
    seen = set()
    for a in m["arms"]:
        for v in pat_top_variants(a["pat"]):
            name = v.split("::")[-1]
            if name not in TYPE_KINDS:
                continue
            seen.add(name)
            rets = set()
            ok_k = ev.succ(a["body"], kinds.ALL, vname, rets) | frozenset(rets)
            miss = sorted(TYPE_KINDS[name] - set(ok_k))
            rep.ob("C09.D5", "type-admits-its-kinds:%s" % name, not miss, "%s admits %s" % (name, sorted(ok_k)) if not miss else
                   "the test for JSON Schema type `%s` rejects %s values: valid enum values of that kind are filtered out of a merged schema, so the generated type rejects valid instances" % (name.lower(), "/".join(miss)), a.get("sp"))
    rep.floor("C09.D5", "JSON Schema types with an arm", len(seen), 7)


COMBINE = [(r"(^|_)max", ("Ord::min", "f64::min", "f32::min", "cmp::min", "min"), "an upper bound of an intersection is the smaller of the two"),
           (r"(^|_)min", ("Ord::max", "f64::max", "f32::max", "cmp::max", "max"), "a lower bound of an intersection is the larger of the two"),
           (r"^unique_items$", ("BitOr::bitor",), "uniqueItems holds in the intersection if either side demands it")]
SETOPS = {"required": ("union", "a member required by either side is required by the intersection"),
          "~Vec": ("intersection", "an instance must have a type both sides allow")}


def run_d6(facts, rep, tier):
    c = facts.impl
    n6 = 0
    for h in c.user_fns():
        ins = c.fns.get(h["fn"], {}).get("inputs", [])
        if len(ins) < 2 or ins[0] != ins[1]:
            continue
        cn = None
        for n, _ in walk(h["body"]):
            if n.get("k") == "call" and len(n.get("args", [])) == 3:
                g = c.fns.get(n.get("fn", ""), {})
                gi = g.get("inputs", [])
                if not (len(gi) == 3 and gi[0] == gi[1] and gi[0].startswith("std::option::Option<")):
                    continue
                cn = cn or PCanon(c, h, 3)
                a0, a1, comb = [cn.r(a) for a in n["args"]]
                if "$" in comb or not re.fullmatch(r"[A-Za-z_:<>]+", comb):
                    continue  # the third argument is not a combining function
                OPND = r"(~Some|\.cloned\(\)|\.unwrap_or_default\(\)|\.as_ref\(\)|\.unwrap\(\))*\.(\w+)"
                m0 = re.fullmatch(r"\$P0" + OPND, a0)
                m1 = re.fullmatch(r"\$P1" + OPND, a1)
                if not (m0 and m1):
                    m0, m1 = re.fullmatch(r"\$P1" + OPND, a0), re.fullmatch(r"\$P0" + OPND, a1)
                if not (m0 and m1) and not ("$P0" in a0 + a1 and "$P1" in a0 + a1):
                    continue  # not a combination of the two operands (e.g. two members of the merged result)
                n6 += 1
                field = m0.group(2) if m0 else "?"
                key = "%s/%s" % (h["fn"], field)
                if not (m0 and m1 and m0.group(2) == m1.group(2)):
                    rep.ob("C09.D6", "combines-same-member:" + key, False, "`%s` is combined with `%s`: the two operands are not the same member of the two schemas" % (a0, a1), n.get("sp"))
                    continue
                want = [(w, why) for (pat, w, why) in COMBINE if re.search(pat, field)]
                if not want:
                    rep.ob("C09.D6", "direction:" + key, False, "no reviewed combination for member `%s` (combined with `%s`)" % (field, comb), n.get("sp"))
                    continue
                ok = comb in want[0][0]
                rep.ob("C09.D6", "direction:" + key, ok, "%s by %s (%s)" % (field, comb, want[0][1]) if ok else
                       "`%s` of the two schemas is combined with `%s`; %s (`%s`): the merged type admits instances one side rejects, or rejects instances both admit" % (field, comb, want[0][1], want[0][0][0]), n.get("sp"))
            if n.get("k") == "mcall" and n["name"] in ("union", "intersection", "difference", "symmetric_difference") and n.get("args"):
                cn = cn or PCanon(c, h, 3)
                r0, r1 = cn.r(n["recv"]), cn.r(n["args"][0])
                if not (("$P0" in r0 and "$P1" in r1) or ("$P1" in r0 and "$P0" in r1)):
                    continue
                for tag, (want, why) in SETOPS.items():
                    if tag in r0 and tag in r1:
                        n6 += 1
                        ok = n["name"] == want and swap_sides(r0, "#", "#") == r1
                        rep.ob("C09.D6", "set-direction:%s/%s" % (h["fn"], tag.strip("~")), ok, "%s of the two sides (%s)" % (n["name"], why) if ok else
                               "`%s` of `%s` and `%s`: %s (`%s`)" % (n["name"], r0[:40], r1[:40], why, want), n.get("sp"))
    rep.floor("C09.D6", "keyword combinations in binary merges", n6, 7)


def run_d7(facts, rep, tier):
    c = facts.impl
    n7 = 0
    for h in c.user_fns():
        ins = c.fns.get(h["fn"], {}).get("inputs", [])
        if len(ins) < 2 or ins[0] != ins[1] or "schema" not in ins[0].lower():
            continue
        cn = None
        k_in = 0
        for n, _ in walk(h["body"]):
            if n.get("k") not in ("call", "mcall") or len(n.get("args", [])) < 2:
                continue
            cn = cn or PCanon(c, h, 3)
            args = [cn.r(a) for a in (([n["recv"]] if n.get("k") == "mcall" else []) + list(n["args"]))]
            s0 = sorted(a.replace("$P0", "$X") for a in args if "$P0" in a and "$P1" not in a)
            s1 = sorted(a.replace("$P1", "$X") for a in args if "$P1" in a and "$P0" not in a)
            if not s0 or not s1:
                continue
            simple = re.compile(r"\$X(~Some)?\.\w+(\.(as_ref|as_deref|as_deref_mut|as_mut|clone|cloned|copied|iter)\(\))*")
            if not all(simple.fullmatch(x) for x in s0 + s1):
                continue  # not a member-by-member call (e.g. a recursion over one operand's parts)
            n7 += 1
            ok = s0 == s1
            rep.ob("C09.D7", "operands-balanced:%s#%d" % (h["fn"], k_in), ok, "%s(..): the same members of both operands" % (n.get("fn") or n.get("name") or "?").split("::")[-1] if ok else
                   "`%s` is handed %s of the first operand but %s of the second: one operand's member is ignored (or used twice), so the result depends on which subschema comes first and a constraint of one side is lost" % (
                       (n.get("fn") or n.get("name") or "?").split("::")[-1], [x.replace("$X", "a") for x in s0], [x.replace("$X", "b") for x in s1]), n.get("sp"))
            k_in += 1
    rep.floor("C09.D7", "calls handed members of both operands", n7, 8)


def table_form(facts, rep, kinds):
    """`const T: &[(InstanceType, &str, fn(&Value) -> bool)] = &[(InstanceType::Null, "null", Value::is_null), ..]`: each row's
    predicate is evaluated over the JSON kinds (a `Value::is_*` method by its documented meaning, a fn of this crate or a
    closure by abstract evaluation of its body)."""
    c = facts.impl
    for q, h in c.hir.items():
        if h.get("derived"):
            continue
        for arr, _ in walk(h.get("body") or {}):
            if arr.get("k") != "array" or len(arr.get("es", [])) < 5:
                continue
            rows = {}
            usable = True
            for row in arr["es"]:
                if row.get("k") != "tup":
                    usable = False
                    break
                tys = [x["path"].split("::")[-1] for x in row["es"] if x.get("k") == "path" and x.get("res") == "ctor" and "InstanceType::" in x.get("path", "")]
                preds = [x for x in row["es"] if (x.get("k") == "path" and x.get("res") in ("assocfn", "fn")) or x.get("k") == "closure"]
                if len(tys) != 1 or len(preds) != 1:
                    usable = False
                    break
                pr = preds[0]
                got = None
                if pr.get("k") == "path":
                    last = pr["path"].split("::")[-1]
                    if "serde_json" in pr["path"] and last in kinds.IS:
                        got = set(kinds.IS[last])
                    elif pr["path"] in c.hir:
                        ph = c.hir[pr["path"]]
                        pn = [b_["name"] for b_, _ in walk(ph.get("params", [])) if b_.get("k") == "bind"]
                        if pn:
                            t_, f_ = kinds.Eval(c).cond(block_last(ph["body"]), kinds.ALL, pn[0])
                            got = set(t_)
                else:
                    pn = [b_["name"] for b_, _ in walk(pr.get("params", [])) if b_.get("k") == "bind"]
                    if pn:
                        t_, f_ = kinds.Eval(c).cond(block_last(pr["body"]), kinds.ALL, pn[0])
                        got = set(t_)
                if got is None:
                    usable = False
                    break
                rows.setdefault(tys[0], (set(), row))[0].update(got)
            if not usable or len(rows) < 5:
                continue
            rep.floor("C09.D5", "instance-type test over a JSON value", 1, 1)
            for name, need in TYPE_KINDS.items():
                got, row = rows.get(name, (set(), arr))
                miss = sorted(need - got)
                rep.ob("C09.D5", "type-admits-its-kinds:%s" % name, not miss, "%s admits %s" % (name, sorted(got)) if not miss else
                       "the table row for JSON Schema type `%s` tests the value with a predicate that rejects %s values: valid enum values of that kind are filtered out of a merged schema, so the generated type rejects valid instances" % (name.lower(), "/".join(miss)), row.get("sp") or arr.get("sp"))
            rep.floor("C09.D5", "JSON Schema types with an arm", len(rows), 7)
            return True
    return False


def classify_form(facts, rep, kinds):
    """`let actual = match value { Value::Null => InstanceType::Null, Value::Number(n) if n.is_f64() => .., .. }; actual == *it`:
    evaluate the classifier over the JSON kinds; a type T then admits exactly the kinds classified as T."""
    c = facts.impl
    for h in c.user_fns():
        f = c.fns.get(h["fn"], {})
        ins = f.get("inputs", [])
        if not (any("schema::InstanceType" in t for t in ins) and any(kinds.is_value_ty(t) for t in ins)):
            continue
        vname = None
        for i, t in enumerate(ins):
            if kinds.is_value_ty(t) and i < len(h.get("params", [])) and h["params"][i].get("k") == "bind":
                vname = h["params"][i]["name"]
        ev = kinds.Eval(c)
        for m, _ in nodes(h["body"], "match"):
            if m.get("src") != "normal" or not kinds.is_value_ty(c.ty(m.get("scty")) or ""):
                continue
            cls = {}
            remaining = frozenset(kinds.ALL)
            usable = True
            for a in m["arms"]:
                ty = [x.get("path", x.get("fn", "")).split("::")[-1] for x, _ in walk(a["body"]) if (x.get("k") == "path" and "InstanceType::" in x.get("path", ""))]
                may, maynot = ev.test(m["scrut"], a["pat"], remaining, vname)
                if a.get("guard") is not None:
                    binds = [b_["name"] for b_, _ in walk(a["pat"]) if b_.get("k") == "bind"]
                    t_, f_ = ev.cond(a["guard"], may, binds[0] if binds else vname)
                    maynot = frozenset(maynot | f_)
                    may = t_
                if len(ty) != 1:
                    usable = False
                    break
                cls.setdefault(ty[0], set()).update(may)
                remaining = frozenset(remaining & maynot)
            if not usable or not cls:
                continue
            eqs = [x for x, _ in walk(h["body"]) if (x.get("k") == "bin" and x.get("op") == "Eq") or (x.get("k") == "mcall" and x.get("name") in ("contains", "eq"))]
            if not eqs:
                continue
            rep.floor("C09.D5", "instance-type test over a JSON value", 1, 1)
            for name, need in TYPE_KINDS.items():
                got = cls.get(name, set())
                miss = sorted(need - got)
                rep.ob("C09.D5", "type-admits-its-kinds:%s" % name, not miss, "%s admits %s" % (name, sorted(got)) if not miss else
                       "the value is classified before it is compared with the schema's type, and %s values are never classified as `%s`: valid enum values of that kind are filtered out of a merged schema, so the generated type rejects valid instances" % ("/".join(miss), name.lower()), m.get("sp"))
            return True
    return False


def run_d8(facts, rep, tier):
    c = facts.impl
    n8 = 0
    for h in c.user_fns():
        ins = c.fns.get(h["fn"], {}).get("inputs", [])
        if len(ins) < 2 or ins[0] != ins[1] or "schema" not in ins[0].lower():
            continue
        cn = PCanon(c, h, 5)
        k_in = 0
        for blk, _ in walk(h["body"]):
            if blk.get("k") != "block":
                continue
            lets = [st for st in blk.get("stmts", []) if st.get("k") == "let" and st.get("init") is not None]
            texts = [(st, cn.r(st["init"])) for st in lets]
            for i in range(len(texts) - 1):
                (s1, t1), (s2, t2) = texts[i], texts[i + 1]
                if ("$P0" not in t1 and "$P1" not in t1) or ("$P0" not in t2 and "$P1" not in t2):
                    continue
                shape = lambda t: t.replace("$P0", "$X").replace("$P1", "$X")
                if shape(t1) != shape(t2) or t1 == t2:
                    continue
                n8 += 1
                single = not (("$P0" in t1 and "$P1" in t1) or ("$P0" in t2 and "$P1" in t2))
                if not single:
                    rep.ob("C09.D8", "paired-lets-single-sided:%s#%d" % (h["fn"], k_in), False,
                           "`%s` / `%s` are the per-operand halves of one computation, but `%s` draws on both operands: what belongs to one subschema (e.g. its additionalItems as padding for *its* shorter item list) is applied to the other's explicitly listed positions" % (psrc(s1["pat"]), psrc(s2["pat"]), (t1 if ("$P0" in t1 and "$P1" in t1) else t2)[-110:]), s1.get("sp"))
                ok = swap_sides(t1, "#", "#") == t2
                rep.ob("C09.D8", "paired-lets-mirror:%s#%d" % (h["fn"], k_in), ok, "`%s` and `%s` are mirror images" % (psrc(s1["pat"]), psrc(s2["pat"])) if ok else
                       "`%s` and `%s` compute the same thing for the two operands but are not mirror images (`%s` vs `%s`): one operand's member is used for both, so a constraint of the other side is lost and the result depends on subschema order" % (psrc(s1["pat"]), psrc(s2["pat"]), t1[-80:], t2[-80:]), s2.get("sp") or s1.get("sp"))
                k_in += 1
    # the same for the two halves of a `||` / `&&`: `f(a, b) || f(b, a)`, never the same half twice
    for h in c.user_fns():
        ins = c.fns.get(h["fn"], {}).get("inputs", [])
        if len(ins) < 2 or ins[0] != ins[1] or "schema" not in ins[0].lower():
            continue
        cn = PCanon(c, h, 3)
        k_in = 0
        for n, _ in walk(h["body"]):
            if n.get("k") == "bin" and n.get("op") in ("Or", "And"):
                t1, t2 = cn.r(n["l"]), cn.r(n["r"])
                if "$P0" in t1 and "$P1" in t1 and t1.replace("$P0", "$X").replace("$P1", "$X") == t2.replace("$P0", "$X").replace("$P1", "$X"):
                    n8 += 1
                    ok = swap_sides(t1, "#", "#") == t2
                    rep.ob("C09.D8", "two-sided-test-mirrors:%s#%d" % (h["fn"], k_in), ok, "`x(a, b) %s x(b, a)`" % ("||" if n["op"] == "Or" else "&&") if ok else
                           "the two halves of `%s` are %s: the test is made in one direction only, so the answer depends on which subschema comes first" % (src(n)[:80], "the same expression" if t1 == t2 else "not mirror images"), n.get("sp"))
                    k_in += 1
    rep.floor("C09.D8", "pairs of lets computed per operand", n8, 1)


# ---------------------------------------------------------------- D9 two positions that are compared index the same sequence
def run_d9(facts, rep, tier):
    """`xs.iter().enumerate()` hands out positions in `xs`. Where two such positions are compared (`i != j`, "every other
    alternative"), both must come from enumerations of the same sequence: a position in a filtered copy compared with a
    position in the original excludes the wrong element (e.g. an alternative ends up conjoined with its own negation)."""
    from lib import scope_binding, _anc_index
    c = facts.impl
    n9 = 0
    n_half = 0
    for h in c.user_fns():
        cn = None
        for n, anc in walk(h["body"]):
            if not (n.get("k") == "bin" and n.get("op") in ("Eq", "Ne")):
                continue
            sides = []
            for e in (n["l"], n["r"]):
                e0 = strip_refs(e)
                while isinstance(e0, dict) and e0.get("k") == "un" and e0.get("op") == "Deref":
                    e0 = strip_refs(e0["e"])
                if not (isinstance(e0, dict) and e0.get("k") == "path" and e0.get("res") == "local"):
                    break
                b = scope_binding(h, _anc_index(h).get(id(e0), ()), e0["path"], e0)
                if not b or b[0] != "closure":
                    break
                clo, par, pi = b[1], b[2], b[3]
                pat = clo["params"][pi]
                # first component of the tuple parameter of an adaptor applied to `<recv>.enumerate()`
                first = None
                pp = pat
                while pp.get("k") == "ref" and isinstance(pp.get("pat"), dict):
                    pp = pp["pat"]
                if pp.get("k") == "tuple" and pp["pats"]:
                    f0 = pp["pats"][0]
                    while f0.get("k") == "ref" and isinstance(f0.get("pat"), dict):
                        f0 = f0["pat"]
                    if f0.get("k") == "bind" and f0["name"] == e0["path"]:
                        first = True
                if not first or par.get("k") != "mcall":
                    break
                # walk the receiver chain down to the enumerate()
                r = par.get("recv")
                enum_recv = None
                hops = 0
                while isinstance(r, dict) and r.get("k") == "mcall" and hops < 6:
                    if r["name"] == "enumerate":
                        enum_recv = r["recv"]
                        break
                    if r["name"] in ("filter", "filter_map", "skip", "skip_while", "rev", "take", "step_by", "chain", "zip", "flat_map"):
                        break  # positions no longer line up with the enumerate below
                    r = r.get("recv")
                    hops += 1
                if enum_recv is None:
                    break
                cn = cn or Canon(c, h, 4)
                sides.append(cn.r(enum_recv))
            if len(sides) != 2:
                n_half += 1 if sides else 0   # one side is a position carried along in a tuple: nothing to compare, but the site exists
                continue
            n9 += 1
            n_half += 1
            ok = sides[0] == sides[1]
            key = "%s#%d" % (h["fn"], sum(1 for o in rep.obligations if o["key"].startswith("C09.D9/index-spaces-agree:%s#" % h["fn"])))
            rep.ob("C09.D9", "index-spaces-agree:" + key, ok, "both positions enumerate `%s`" % sides[0][:60] if ok else
                   "`%s` compares a position in `%s` with a position in `%s`: the two sequences differ (one is a filtered / rebuilt copy of the other), so 'every other element' excludes the wrong one" % (src(n)[:40], sides[0][-70:], sides[1][-70:]), n.get("sp"))
    rep.floor("C09.D9", "comparisons involving an enumeration position", n_half, 1)
