"""C02 — every schema-valid JSON instance deserializes into the generated type (shape clauses)."""
import re
from lib import (Canon, cguards, norm_arm, walk, nodes, ends, src, psrc, outcome, contains_node, pat_top_variants, short, calls_in, block_last,
                 strip_refs, guards, gtext, top_stmts, templates_in)

EXPLANATION = (
    "Decides shape clauses that are necessary for 'generation never makes a type narrower', not serde's acceptance "
    "behaviour: (W1) StructPropertyState::Required reaches a named property only on the branch where `required` contains its "
    "name; the Required answered by the default classifier is turned into Optional + Option<T>; flattened members are the tabled "
    "exception; (W2) every source of deny_unknown_fields = true is the `additionalProperties: false` arm, a value propagated "
    "from one such struct, or the uninhabited enum — a flag OR-ed across the variants of one enum closes its open siblings and "
    "is reported; (W3) code that compares a string with minLength/maxLength counts chars (shared with C05.T4); (W4) when the "
    "allocator returns an existing id because a type of that name is already registered, the two entries were compared; "
    "(D1) each tagged-enum recogniser demands what serde's representation demands of every instance: the single member of an "
    "externally tagged object variant is required, an internal tag is looked for among required members only, and every member "
    "(tag and content) of an adjacently tagged branch is required; (W5) where one schema's sibling subschemas (tuple items, "
    "variants, flattened members) are converted in a loop, the type-name hint handed to the converter depends on the element "
    "(its index or name) or is Name::Unknown — a loop-constant hint makes the siblings collide on one registered name; (D2) the test that the "
    "alternatives of an anyOf are mutually exclusive (which lets it be treated as a oneOf / untagged enum where the first "
    "matching variant wins) applies the pairwise predicate to *all* pairs — two nested iterations over the alternatives — not "
    "to neighbours only; (W5b) a per-variant helper that names the variant's payload type derives the hint from something "
    "that differs per variant."
    " (D3) in maybe_option an alternative is dropped as `the null` only when its type is exactly null (a single Null, or a type array all of whose members are Null); (D1, constants) constant_string_value reads an element of an `enum` list only under `len() == 1`."
)
ASSUMPTIONS = ["serde tag inference, untagged ordering and shadowing are not decided"]


def closed_flag_joins(c, h):
    """Assignments to the local bool that `h` hands to TypeEntryEnum::from_metadata as deny_unknown_fields.
    -> [(node, text, 'or' | 'overwrite')]; `x |= e` and `x = true` can only close, anything else can re-open."""
    from lib import scope_binding
    anc_of = {}
    for n, a in walk(h["body"]):
        anc_of[id(n)] = a
    flags = []
    for n, _ in nodes(h["body"], "call"):
        if re.search(r"TypeEntryEnum::from_metadata$", n.get("fn", "")):
            for a in n["args"]:
                if a.get("k") == "path" and a.get("res") == "local" and c.ty(a.get("ty")) == "bool":
                    b = scope_binding(h, anc_of[id(a)], a["path"], a)
                    if b and b[0] == "let":
                        flags.append(b[1])
    out = []
    for n, anc in walk(h["body"]):
        if n.get("k") in ("assign", "assignop"):
            l = strip_refs(n["l"])
            if l.get("k") == "path" and l.get("res") == "local":
                b = scope_binding(h, anc, l["path"], n)
                if b and b[0] == "let" and any(b[1] is f for f in flags):
                    if n.get("k") == "assignop":
                        out.append((n, "%s |= %s" % (src(n["l"]), src(n["r"])), "or" if n.get("op") in ("BitOrAssign", "BitOr") else "overwrite"))
                    else:
                        out.append((n, "%s = %s" % (src(n["l"]), src(n["r"])), "or" if src(n["r"]) == "true" else "overwrite"))
    return out


def join_sources(c, h, n, anc):
    """what is OR-ed into the flag, by provenance: 'payload' = the closedness a variant-payload converter returned,
    'variant-closed' = literal true under this variant's `additionalProperties: false`, anything else by its Canon text"""
    from lib import Canon
    cn = Canon(c, h, 3)
    if n.get("k") == "assign":
        g = [x for x in guards(anc, n) if x[0] == "arm"]
        return ["variant-closed"] if src(n["r"]) == "true" and any("Schema::Bool(false)" in x[1] for x in g) else ["other:" + cn.r(n["r"])[:60]]
    parts = []

    def split(e):
        e = strip_refs(e)
        if e.get("k") == "bin" and e.get("op") in ("Or", "BitOr"):
            split(e["l"])
            split(e["r"])
        else:
            parts.append(e)
    split(n["r"])
    out = []
    for e in parts:
        t = cn.r(e)
        if re.fullmatch(r"self\.\w*variant\(.*\)\S*\.1", t) or re.fullmatch(r"self\.\w+\(.*\)(\.ok\(\))?\?\.1", t):
            out.append("payload")
        else:
            out.append("other:" + t[:60])
    return sorted(set(out))


def run(facts, rep, tier):
    c = facts.impl
    # ------------------------------------------------------------ W1
    sites = []
    for h in c.user_fns():
        for n, anc in walk(h["body"]):
            if n.get("k") == "path" and n.get("res") == "ctor" and n.get("path", "").endswith("StructPropertyState::Required") and n.get("ty") is not None:
                sites.append((h, n, anc))
    rep.floor("C02.W1", "constructions of StructPropertyState::Required", len(sites), 4)
    classifier = [q for q, f in c.fns.items() if not f.get("derived") and f["output"].endswith("StructPropertyState") and any("serde_json::Value" in t for t in f["inputs"])]
    REQ_TEST = r"\$&BTreeSet<String>\.contains\(\$&str\)"
    for h, n, anc in sites:
        key = "%s#%d" % (h["fn"], sum(1 for o in rep.obligations if o["key"].startswith("C02.W1/required-justified:%s#" % h["fn"])))
        cn = Canon(c, h, 4)
        gs = cguards(cn, anc, n)
        conds = [g for g in gs if g[0] == "if"]
        st = [a for a in anc if a.get("k") == "struct" and a["path"].endswith("StructProperty") and "rest" not in a]
        flatten = bool(st) and dict((k, src(v)) for k, v in st[-1]["fields"]).get("rename") == "StructPropertyRename::Flatten"
        if h["fn"] in classifier:
            callers = [(hh, x, xa) for hh in c.user_fns() for x, xa in walk(hh["body"]) if x.get("k") in ("call", "mcall") and x.get("fn") == h["fn"]]
            ok = bool(callers)
            for hh, x, xa in callers:
                m = [a for a in xa if a.get("k") == "match" and contains_node(a["scrut"], x)]
                good = False
                if m:
                    for arm in m[-1]["arms"]:
                        if "StructPropertyState::Required" in psrc(arm["pat"]):
                            wraps = any(y.get("k") == "assign" and any(z.endswith("TypeSpace::id_to_option") for z in calls_in(y["r"])) for y, _ in walk(arm["body"]))
                            good = wraps and src(block_last(arm["body"])) == "StructPropertyState::Optional"
                ok = ok and good
            rep.ob("C02.W1", "required-justified:" + key, ok, "classifier result: its caller maps Required to Optional + Option<T>" if ok else "the classifier's Required is used as is: a property that is not in `required` becomes mandatory", n.get("sp"))
        elif flatten:
            rep.ob("C02.W1", "required-justified:" + key, True, "tabled exception: flattened member (no name of its own on the wire)")
        elif any(re.fullmatch(REQ_TEST, g[1]) for g in conds):
            rep.ob("C02.W1", "required-justified:" + key, True, "on the branch `required.contains(prop_name)`")
        else:
            rep.ob("C02.W1", "required-justified:" + key, False, "a named property is marked Required without a test that the schema's `required` lists it (guards: %s)" % (gtext(gs) or "none"), n.get("sp"))
    # the branch test itself
    sp = [h for h in c.user_fns() if h["fn"].endswith("TypeSpace::struct_property")]
    if sp:
        cnp = Canon(c, sp[0], 4)
        ifs = [n for n, _ in nodes(sp[0]["body"], "if") if re.fullmatch(REQ_TEST, cnp.r(n["cond"]))]
        rep.ob("C02.W1", "required-iff-listed", bool(ifs) and src(block_last(ifs[0]["then"])) == "StructPropertyState::Required", "state = if required.contains(prop_name) { Required } else { classify(default) }" if ifs else "struct_property does not branch on required.contains(prop_name)")
        okc = False
        for hh in c.user_fns():
            for x, _ in walk(hh["body"]):
                if x.get("k") in ("call", "mcall") and x.get("fn") == sp[0]["fn"]:
                    a = [Canon(c, hh, 3).r(y) for y in x["args"]]
                    okc = len(a) == 4 and a[1] == "$&ObjectValidation.required" and re.match(r"elem<\$&ObjectValidation\.properties\.iter\(\)\.chain\(.*>\.0$", a[2]) is not None and re.match(r"elem<\$&ObjectValidation\.properties\.iter\(\)\.chain\(.*>\.1$", a[3]) is not None
        rep.ob("C02.W1", "required-set-is-the-schemas", okc, "struct_property(.., &validation.required, <property name>, <its schema>) over validation.properties")

    # ------------------------------------------------------------ W2
    n_src = 0
    for h in c.user_fns():
        # (a) the arm in the struct-member converter
        for n, _ in nodes(h["body"], "let"):
            # the bool computed by a case analysis of the schema's `additionalProperties`
            if n["pat"].get("k") == "bind" and (n.get("init") or {}).get("k") == "match" and n["init"].get("src") == "normal" and any(src(block_last(a_["body"])) in ("true", "false") for a_ in n["init"]["arms"]) and \
                    any(x.get("k") == "field" and x["name"] == "additional_properties" for x, _ in walk(n["init"]["scrut"])):
                for arm in n["init"]["arms"]:
                    val = src(block_last(arm["body"]))
                    if val == "true":
                        n_src += 1
                        g = src(arm.get("guard")) if arm.get("guard") else ""
                        ok = "Schema::Bool(false)" in g and " Eq " in g
                        rep.ob("C02.W2", "closed-source:%s/additionalProperties-false" % h["fn"], ok, "closed under `%s`" % g if ok else "deny_unknown_fields becomes true in arm `%s` guard `%s`: not the additionalProperties:false case" % (psrc(arm["pat"]), g), arm.get("sp"))
                    elif val != "false":
                        rep.ob("C02.W2", "closed-source:%s/other" % h["fn"], False, "deny_unknown_fields computed as `%s`" % val, arm.get("sp"))
        # (b) joins across variants: assignments to the mutable flag that is handed to the enum constructor
        for n, how, kind in closed_flag_joins(c, h):
            n_src += 1
            if kind == "or":
                anc_ = [a_ for x_, a_ in walk(h["body"]) if x_ is n][0]
                srcs_ = join_sources(c, h, n, anc_)
                rep.ob("C02.W2", "closed-source:%s/or-join[%s]" % (h["fn"], ",".join(srcs_)), False,
                       "`%s` inside the loop over the variants: one closed variant closes every variant of the enum (the attribute is on the container), so valid instances of the open variants are rejected" % how, n.get("sp"))
            else:
                rep.ob("C02.W2", "closed-source:%s/last-wins" % h["fn"], False,
                       "`%s` inside the loop over the variants: the container attribute follows whichever variant is converted last" % how, n.get("sp"))
        # (c) literal true handed to an enum/struct constructor
        for n, _ in nodes(h["body"], "call"):
            if re.search(r"TypeEntry(Enum|Struct)::from_metadata$", n.get("fn", "")):
                args = [src(a) for a in n["args"]]
                if "true" in args:
                    n_src += 1
                    empty = any(a in ("vec!()", "Vec::new()") for a in args)
                    rep.ob("C02.W2", "closed-source:%s/literal" % h["fn"], empty, "literal `true` only for the uninhabited enum (no variants)" if empty else "deny_unknown_fields = true is hard-wired for a type with members", n.get("sp"))
    rep.floor("C02.W2", "sources of deny_unknown_fields", n_src, 6)
    # propagation from a destructured struct is by the field itself
    ev = [h for h in c.user_fns() if h["fn"].endswith("TypeSpace::external_variant")]
    if ev:
        cne = Canon(c, ev[0], 4)
        rets = sorted(set(re.sub(r"self\.convert_schema\(\$Name, \$&Schema\)\?\.0", "ty", cne.r(n)) for n, _ in walk(ev[0]["body"]) if n.get("k") == "tup" and len(n.get("es", [])) == 2 and "VariantDetails::" in cne.r(n["es"][0])))
        want = sorted(["(VariantDetails::Tuple(ty~TypeEntry.details~Tuple), false)", "(VariantDetails::Simple, false)", "(VariantDetails::Struct(ty~TypeEntry.details~Struct~TypeEntryStruct.properties), ty~TypeEntry.details~Struct~TypeEntryStruct.deny_unknown_fields)", "(VariantDetails::Item(self.assign_type(ty)), false)"])
        rep.ob("C02.W2", "variant-inherits-struct-flag", rets == want, "struct variant: the struct's own flag; tuple/unit/item: false" if rets == want else "external_variant returns %s" % rets)

    # ------------------------------------------------------------ W3 (shared with C05.T4)
    sv = [h for h in c.user_fns() if h["fn"].endswith("StringValidator::is_valid")]
    if rep.floor("C02.W3", "generator-side string filter", len(sv), 1):
        lens = [n for n, _ in nodes(sv[0]["body"], "mcall") if n["name"] in ("len", "count")]
        for i, n in enumerate(lens):
            ok = n["name"] == "count" and n["recv"].get("k") == "mcall" and n["recv"]["name"] == "chars"
            rep.ob("C02.W3", "length-in-chars:generator#%d" % i, ok, "`%s`" % src(n) if ok else "enum values are filtered by byte length `%s`: a valid non-ASCII value is unrepresentable in the generated enum" % src(n), n.get("sp"))
        rep.floor("C02.W3", "length measurements", len(lens), 1)

    # ------------------------------------------------------------ W4
    alloc = []
    for h in c.user_fns():
        for n, _ in nodes(h["body"], "if"):
            cond = n["cond"]
            if cond.get("k") == "letx" and re.search(r"name_to_id\.get\(", src(cond["init"])):
                alloc.append((h, n))
    if rep.floor("C02.W4", "name lookup in the allocator", len(alloc), 1):
        h, n = alloc[0]
        then = n["then"]
        compared = any(x.get("k") == "bin" and x["op"] in ("Eq", "Ne") for x, _ in walk(then)) or any(x.get("k") == "mcall" and x["name"] in ("eq", "ne") for x, _ in walk(then)) or "Err(" in src(then)
        rep.ob("C02.W4", "reused-name-is-same-type:%s" % h["fn"], compared,
               "the registered entry is compared with the new one before its id is reused" if compared else
               "a type whose derived name is already registered silently reuses the registered type without comparing structure: two different inline schemas that derive the same name share one type, and valid instances of the second are rejected", n.get("sp"))

    # ------------------------------------------------------------ D1 recogniser preconditions
    recog = {}
    for h in c.user_fns():
        for n, _ in walk(h["body"]):
            if n.get("k") in ("path", "struct") and n.get("res", "ctor") == "ctor" and "rest" not in n:
                m = re.search(r"EnumTagType::(External|Internal|Adjacent)$", n.get("path", ""))
                # a recogniser takes the subschemas of a oneOf/anyOf and builds the tagged enum
                if m and any("[schemars::schema::Schema]" in t for t in c.fns.get(h["fn"], {}).get("inputs", [])):
                    recog.setdefault(m.group(1), h)
    rep.floor("C02.D1", "tagged-enum recognisers (constructors of EnumTagType::External/Internal/Adjacent)", len(recog), 3)
    for kind, h in sorted(recog.items()):
        cn1 = Canon(c, h, 1)
        arm_guards = [cn1.r(a["guard"]) for n, _ in nodes(h["body"], "match") if n.get("src") == "normal" for a in n["arms"] if a.get("guard")]
        filters = [cn1.r(n["args"][0]) for n, _ in nodes(h["body"], "mcall") if n["name"] in ("filter", "filter_map", "take_while") and n.get("args")]
        ifs = [cn1.r(n["cond"]) for n, _ in nodes(h["body"], "if")]
        if kind == "External":
            ok = any(re.search(r"\.required\.len\(\) Eq 1\)", g) and re.search(r"\.properties\.len\(\) Eq 1\)", g) for g in arm_guards)
            why = "object variant: exactly one property and it is required (`required.len() == 1 && properties.len() == 1`)"
            bad = "an object subschema is taken as an externally tagged variant without demanding that its single member is required: `{}` is valid under the schema but not a variant"
        elif kind == "Internal":
            ok = any(re.search(r"\.required\.contains\(elem<\S*\.properties\.iter\(\)>\.0\)", g) for g in filters)
            why = "tag candidates are filtered by `required.contains(name)`"
            bad = "the internal tag is chosen among members that need not be required: an instance without it is valid but cannot be deserialized"
        else:
            ok = any(re.search(r"\.properties\.len\(\) Eq \S*\.required\.len\(\)\)", g) or re.search(r"\.required\.len\(\) Eq \S*\.properties\.len\(\)\)", g) for g in arm_guards + ifs)
            why = "a branch qualifies only if all of its members are required (`properties.len() == required.len()`)"
            bad = "a branch whose content member is optional is taken as adjacently tagged: serde demands the content member of a newtype/struct variant, so a valid instance without it is rejected"
        rep.ob("C02.D1", "recogniser-precondition:%s" % kind, ok, why if ok else bad, h.get("sp"))

    # internally / adjacently tagged: a variant is data-less only when the tag is its one and only member
    n_u = 0
    for hh in c.user_fns():
        ins = c.fns.get(hh["fn"], {}).get("inputs", [])
        if not (any("ObjectValidation" in t for t in ins) and c.fns[hh["fn"]].get("output", "").startswith("std::result::Result<") and "Variant" in c.fns[hh["fn"]].get("output", "")):
            continue
        cnu = Canon(c, hh, 1)
        for n, anc in walk(hh["body"]):
            if n.get("k") == "path" and n.get("res") == "ctor" and n.get("path", "").endswith("VariantDetails::Simple") and n.get("ty") is not None:
                conds = [g for g in cguards(cnu, anc, n) if g[0] in ("if", "else")]
                n_u += 1
                ok = len(conds) == 1 and conds[0][0] == "if" and re.fullmatch(r"\(\$&ObjectValidation\.properties\.len\(\) Eq 1\)", conds[0][1]) is not None
                rep.ob("C02.D1", "unit-variant-iff-tag-only:%s" % hh["fn"], ok, "Simple only under `validation.properties.len() == 1`" if ok else
                       "a tagged variant is made data-less under `%s`, not exactly when the tag is its only member: members the schema declares (and may require) are dropped from the variant, so they are lost on a round trip and not written back" % (gtext(conds) or "no condition")[:120], n.get("sp"))
    rep.floor("C02.D1", "data-less variants built by the tagged-variant helpers", n_u, 2)

    # ------------------------------------------------------------ W5 sibling name hints are distinct
    n_sites = 0
    for h in c.user_fns():
        cn5 = None
        for n, anc in walk(h["body"]):
            if n.get("k") not in ("call", "mcall") or not n.get("fn"):
                continue
            f = c.fns.get(n["fn"])
            if not f or f.get("derived"):
                continue
            ins = f.get("inputs", [])
            if not (any(t.endswith("Name") for t in ins) and any(t.replace("&", "").strip().endswith("schema::Schema") for t in ins)):
                continue
            if not any(a.get("k") == "closure" or (a.get("k") == "match" and a.get("src") == "for") for a in anc):
                continue
            cn5 = cn5 or Canon(c, h, 4)
            args = list(n["args"])
            name_args = [a for a in args if (c.ty(a.get("ty")) or "").endswith("Name")]
            schema_args = [a for a in args if (c.ty(a.get("ty")) or "").replace("&", "").strip().endswith("schema::Schema")]
            if not name_args or not schema_args:
                continue
            FOR_ELEM = "Iterator::next(IntoIterator::into_iter("  # the element of a `for` loop, as Canon renders it
            sch_ = cn5.r(schema_args[0])
            if "elem<" not in sch_ and FOR_ELEM not in sch_:
                continue  # not a per-element conversion
            n_sites += 1
            nm = cn5.r(name_args[0])
            ok = "elem<" in nm or FOR_ELEM in nm or nm == "Name::Unknown"
            key = "%s->%s#%d" % (h["fn"], n["fn"].split("::")[-1], sum(1 for o in rep.obligations if o["key"].startswith("C02.W5/sibling-hint-distinct:%s->%s#" % (h["fn"], n["fn"].split("::")[-1]))))
            rep.ob("C02.W5", "sibling-hint-distinct:" + key, ok,
                   "the name hint depends on the element" if "elem<" in nm else "no name hint (Name::Unknown)" if ok else
                   "every element of the loop is converted under the same name hint `%s`: two different sibling schemas derive one type name and the second silently reuses the first one's type, so its valid instances are rejected or rewritten" % nm[:80], n.get("sp"))
    rep.floor("C02.W5", "per-element conversions with a name hint", n_sites, 5)

    # ------------------------------------------------------------ D2 all pairs
    n_pair = 0
    for h in c.user_fns():
        f = c.fns.get(h["fn"], {})
        if f.get("output") != "bool" or not any("[schemars::schema::Schema]" in t for t in f.get("inputs", [])):
            continue
        cnd = Canon(c, h, 4)
        for n, anc in walk(h["body"]):
            if n.get("k") != "call" or not n.get("fn"):
                continue
            g = c.fns.get(n["fn"], {})
            gi = g.get("inputs", [])
            if not (g.get("output") == "bool" and len(gi) >= 2 and gi[0] == gi[1] and gi[0].replace("&", "").strip().endswith("schema::Schema")):
                continue
            n_pair += 1
            # the iteration that produces the pair
            outer = [a for a in anc if a.get("k") == "mcall" and a["name"] in ("all", "any", "for_each", "try_for_each", "map", "filter", "find")]
            chain = cnd.r(outer[0]["recv"]) if outer else ""
            fors = [a for a in anc if a.get("k") == "match" and a.get("src") == "for"]
            nested = ("flat_map(" in chain and ".map(" in chain) or len(fors) >= 2 or "combinations" in chain
            adjacent = any(w in chain for w in (".windows(", ".chunks(", ".array_windows(", ".zip(")) or any(re.search(r"\.(windows|chunks)\(", cnd.r(a["scrut"])) for a in fors)
            ok = nested and not adjacent
            rep.ob("C02.D2", "exclusive-for-all-pairs:%s" % h["fn"], ok,
                   "the pairwise predicate is applied under two nested iterations over the alternatives" if ok else
                   "alternatives are tested for mutual exclusion only as %s: a non-adjacent overlapping pair lets an anyOf be treated as a oneOf, and in the untagged enum the first matching variant shadows the other (valid instances are rejected or lose members)" % ("neighbours (`%s`)" % chain[-40:] if adjacent else "produced by `%s`" % chain[-60:]), n.get("sp"))
    rep.floor("C02.D2", "applications of a binary schema predicate to elements of one slice", n_pair, 1)

    # ------------------------------------------------------------ D1 a constant is one value
    # `constant_string_value` answers "this schema admits exactly this string": it is what tags and variant names are read
    # from. An `enum` is a constant only if it lists exactly one value.
    n_c = 0
    for h in c.user_fns():
        if not h["fn"].endswith("constant_string_value"):
            continue
        cnc_ = Canon(c, h, 4)
        for n, anc in walk(h["body"]):
            if n.get("k") == "mcall" and n["name"] in ("first", "last", "get", "next", "pop", "into_iter", "iter") and "enum_values" in cnc_.r(n["recv"]) and n["name"] in ("first", "last", "get", "pop") or \
                    (n.get("k") == "index" and "enum_values" in cnc_.r(n["e"])):
                n_c += 1
                gs = guards(anc, n)
                conds = [g_[2] for g_ in gs if g_[0] == "arm" and g_[2]] + [g_[1] for g_ in gs if g_[0] == "if"]
                ok = any(re.search(r"\.len\(\) Eq 1\b", x) for x in conds)
                rep.ob("C02.D1", "constant-needs-single-value#%d" % n_c, ok, "an element of `enum` is read only under `len() == 1`" if ok else
                       "`%s` reads an element of the schema's `enum` list without requiring the list to have exactly one value: a multi-valued enum is taken for a constant (its first value), so a tag / variant name is recognised where there is none and the other values are rejected" % src(n)[:50], n.get("sp"))
    rep.floor("C02.D1", "reads of an enum list in the constant recogniser", n_c, 1)

    # ------------------------------------------------------------ D3 the alternative dropped as "the null" admits only null
    # `maybe_option` turns `oneOf/anyOf [T, null]` into Option<T> by removing the null alternative; an alternative that
    # admits anything besides null (a `type: [string, null]` array) must not be removed, or its other values are rejected
    n_null = 0
    for h in c.user_fns():
        if not h["fn"].endswith("maybe_option"):
            continue
        cn3 = Canon(c, h, 5)
        for n, anc in walk(h["body"]):
            if not (n.get("k") == "mcall" and n["name"] in ("filter", "partition", "position", "find", "any", "retain") and n.get("args")):
                continue
            for cl in n["args"]:
                if cl.get("k") != "closure" or "InstanceType::Null" not in cn3.r(cl["body"]):
                    continue
                for m, _ in nodes(cl["body"], "match"):
                    if m.get("src") != "normal":
                        continue
                    for a in m["arms"]:
                        verdict = cn3.r(a["body"])
                        if verdict in ("false",):
                            continue
                        test = " && ".join(x for x in ((cn3.r(a["guard"]) if a.get("guard") else ""), verdict if verdict != "true" else "") if x)
                        pat = psrc(a["pat"])
                        n_null += 1
                        if "SingleOrVec::Single(" in pat and "SingleOrVec::Vec(" not in pat:
                            ok = re.fullmatch(r"\(\S+~Single Eq InstanceType::Null\)", test) is not None
                        elif "SingleOrVec::Vec(" in pat and "SingleOrVec::Single(" not in pat:
                            ok = re.search(r"\.all\(\|\.\.\| \(elem<[^|]*> Eq InstanceType::Null\)\)", test) is not None and ".contains(" not in test and ".any(" not in test
                        else:
                            ok = False
                        rep.ob("C02.D3", "null-alternative-is-exactly-null#%d" % n_null, ok, "an alternative is taken for `null` only under `%s`" % test[:90] if ok else
                               "an alternative matching `%s` is taken for the `null` member of the union under `%s`: a subschema that admits other values as well (e.g. `type: [string, null]`) is dropped, the type collapses to Option<other>, and those values are rejected" % (pat[:70], test[:110]), a.get("sp") or m.get("sp"))
    rep.floor("C02.D3", "tests for the null alternative of a union", n_null, 1)

    # ------------------------------------------------------------ W5b per-variant helpers
    from lib import PCanon, depends_on
    n_b = 0
    # one pass: call sites of local fns that sit inside an iteration
    loop_calls = {}
    local_fns = {hh["fn"] for hh in c.user_fns()}
    for hh in c.user_fns():
        for x, xa in walk(hh["body"]):
            if x.get("k") in ("call", "mcall") and x.get("fn") in local_fns and x.get("fn") != hh["fn"]:
                if any(a.get("k") == "closure" or (a.get("k") == "match" and a.get("src") == "for") for a in xa):
                    loop_calls.setdefault(x["fn"], []).append((hh, x, xa))
    canon_cache = {}
    for h in c.user_fns():
        # callers that invoke h per element: which parameters vary with the element
        varying = set()
        called_in_loop = False
        for (hh, x, xa) in loop_calls.get(h["fn"], []):
            cnc = canon_cache.get(hh["fn"])
            for _once in (1,):
                if True:
                    if True:
                        if cnc is None:
                            cnc = canon_cache[hh["fn"]] = Canon(c, hh, 4)
                        args = ([x["recv"]] if x.get("k") == "mcall" else []) + list(x["args"])
                        # the element of the innermost enclosing iteration, as Canon renders it
                        elem_txt = []
                        for j in range(len(xa) - 1, -1, -1):
                            a2 = xa[j]
                            if a2.get("k") == "closure" and j > 0 and xa[j - 1].get("k") == "mcall":
                                elem_txt.append("elem<%s>" % cnc.r(xa[j - 1]["recv"]))
                                break
                            if a2.get("k") == "match" and a2.get("src") == "for":
                                elem_txt.append(cnc.r(a2["scrut"]))
                                break
                        srcs_ = []
                        for j in range(len(xa) - 1, -1, -1):
                            a2 = xa[j]
                            if a2.get("k") == "closure" and j > 0 and xa[j - 1].get("k") == "mcall":
                                srcs_.append(a2)
                                break
                            if a2.get("k") == "match" and a2.get("src") == "for":
                                srcs_.append(a2["scrut"])
                                break
                        vs = [i for i, a_ in enumerate(args) if any(t_ and t_ in cnc.r(a_) for t_ in elem_txt) or any(depends_on(hh, a_, s_) for s_ in srcs_)]
                        if vs:
                            called_in_loop = True
                            varying |= set(vs)
        if not called_in_loop:
            continue
        ins = c.fns.get(h["fn"], {}).get("inputs", [])
        if any(t.replace("&", "").strip().endswith("schema::Schema") for t in ins):
            continue  # its own (Name, &Schema) call sites are W5 sites
        pc = None
        for n, anc in walk(h["body"]):
            if n.get("k") not in ("call", "mcall") or not n.get("fn"):
                continue
            g = c.fns.get(n["fn"])
            if not g or g.get("derived"):
                continue
            gi = g.get("inputs", [])
            if not (any(t.endswith("Name") for t in gi) and any(t.replace("&", "").strip().endswith("schema::Schema") for t in gi)):
                continue
            if any(a.get("k") == "closure" or (a.get("k") == "match" and a.get("src") == "for") for a in anc):
                continue
            pc = pc or PCanon(c, h, 5)
            name_args = [a for a in n["args"] if (c.ty(a.get("ty")) or "").endswith("Name")]
            if not name_args:
                continue
            nm = pc.r(name_args[0])
            n_b += 1
            dep = any(("$P%d" % i) in nm for i in varying)
            # the hint must involve a varying parameter in at least one of its cases
            rep.ob("C02.W5", "variant-payload-hint-varies:%s->%s" % (h["fn"], n["fn"].split("::")[-1]), dep or nm == "Name::Unknown",
                   "the payload type's name hint depends on a per-variant argument" if dep else
                   "`%s` is called once per variant, but the name hint it gives the variant's payload type (`%s`) is built from arguments that are the same for every variant: same-named nested types of different variants collide and the later variant silently gets the first one's type" % (h["fn"].split("::")[-1], nm[:80]), n.get("sp"))
    rep.floor("C02.W5", "per-variant helpers that name a payload type", n_b, 1)
