#!/usr/bin/env python3
"""Silent-on-holding-code battery: every patch under selftest/benign is a behaviour-preserving edit (rename, reorder,
if-let <-> match, extract/move a helper). Applied to a scratch copy of /repo, every property's check must still exit 0.
Exit 0 iff no check raises an alarm.   usage: benign.py [substring of patch name ...]"""
import os
import sys
import harness


def run_benign(bat, patches, props):
    alarms = []
    for patch in patches:
        name = os.path.basename(patch)
        repo, err = bat.scratch(patch)
        if err:
            print("SKIP     %-44s %s" % (name, err))
            alarms.append((name, "-", err))
            continue
        bad = []
        for pid in props:
            code, keys, text = bat.run(repo, pid)
            if code != 0:
                extra = [l.strip()[:160] for l in text.splitlines() if "INFRA" in l or "Error" in l][:2]
                bad.append("%s: %s" % (pid, "; ".join(k[:120] for k in keys[:3]) or "; ".join(extra) or "exit=%d" % code))
        print("%s %-44s %s" % ("ALARM   " if bad else "silent  ", name, ""))
        for b in bad:
            print("           " + b)
            alarms.append((name, b.split(":")[0], b))
    return alarms


def main():
    only = sys.argv[1:]
    patches = [p for p in harness.benign_patches() if not only or any(o in os.path.basename(p) for o in only)]
    with harness.Battery() as bat:
        alarms = run_benign(bat, patches, harness.PROPS)
    print("%d benign edit(s) raised an alarm" % len({a[0] for a in alarms}))
    return 1 if alarms else 0


if __name__ == "__main__":
    sys.exit(main())
