"""JSON-kind abstract evaluation of HIR bodies.

For a function that receives a `&serde_json::Value` and returns Option/Result (or builds
a value with `?` on the way), compute the set of JSON kinds of that value on which the
function (or one match arm of it) can succeed. Kinds are atoms; tests on the value
(`as_str()?`, `if let Value::Null = v`, `match v { Value::Bool(..) => .. }`,
`if !v.is_number() { return None }`) refine the set along each path. Anything that is not a
recognised test on *the* tracked value refines nothing (over-approximation).
"""
from lib import walk, strip_refs, block_last

# numbers: "u64" = non-negative integer that fits i64, "big" = integer above i64::MAX (u64 only), "neg" = negative integer,
# "float" = number with a fractional part / exponent (serde_json keeps the three representations apart)
ALL = frozenset(["null", "bool", "u64", "big", "neg", "float", "string", "array", "object"])
NUM = frozenset(["u64", "big", "neg", "float"])
AS = {
    "as_str": {"string"}, "as_array": {"array"}, "as_object": {"object"}, "as_null": {"null"}, "as_bool": {"bool"},
    "as_u64": {"u64", "big"}, "as_i64": {"u64", "neg"}, "as_f64": set(NUM), "as_number": set(NUM),
    "as_array_mut": {"array"}, "as_object_mut": {"object"},
}
IS = {
    "is_number": set(NUM), "is_string": {"string"}, "is_null": {"null"}, "is_boolean": {"bool"}, "is_array": {"array"},
    "is_object": {"object"}, "is_u64": {"u64", "big"}, "is_i64": {"u64", "neg"}, "is_f64": {"float"},
}
VARIANT = {"Null": {"null"}, "Bool": {"bool"}, "Number": set(NUM), "String": {"string"}, "Array": {"array"}, "Object": {"object"}}
PASS_THROUGH = {"ok_or_else", "ok_or", "ok", "map_err", "copied", "cloned", "as_ref", "as_deref", "map", "inspect", "as_mut", "filter"}


def is_value_ty(t):
    return t.replace("&", "").replace("'a ", "").strip() in ("serde_json::Value", "serde_json::value::Value")


class Eval:
    def __init__(self, crate, roots=(), depth=0, memo=None):
        self.c = crate
        self.roots = set(roots)  # fns treated as delegation to a child type (result: unconstrained)
        self.depth = depth
        self.memo = memo if memo is not None else {}

    # ------------------------------------------------------------------ helpers
    def is_val(self, e, v):
        e = strip_refs(e)
        while isinstance(e, dict) and e.get("k") == "un" and e.get("op") == "Deref":
            e = strip_refs(e["e"])
        return isinstance(e, dict) and e.get("k") == "path" and e.get("res") == "local" and (e.get("path") == v or e.get("path") in getattr(self, "aliases", ()))

    def irrefutable(self, p):
        k = p.get("k")
        if k in ("wild",):
            return True
        if k == "bind":
            return p.get("sub") is None or self.irrefutable(p["sub"])
        if k == "tuple":
            return all(self.irrefutable(x) for x in p["pats"])
        return False

    def opt_kinds(self, e, v):
        """If `e` is Option-valued and derived from a test on the value: kinds on which it is Some. Else None."""
        e0 = e
        while isinstance(e0, dict) and e0.get("k") == "mcall" and e0["name"] in PASS_THROUGH:
            e0 = e0["recv"]
        if isinstance(e0, dict) and e0.get("k") == "mcall" and e0["name"] in AS and self.is_val(e0["recv"], v):
            return frozenset(AS[e0["name"]])
        return None

    def test(self, e, pat, K, v):
        """(kinds where `e` may match `pat`, kinds where it may not)."""
        pk = pat.get("k")
        if pk == "or":
            kt = set()
            kf = set(K)
            for p in pat["pats"]:
                t, f = self.test(e, p, K, v)
                kt |= t
                kf &= f
            return frozenset(kt), frozenset(kf)
        if pk == "bind" and pat.get("sub"):
            return self.test(e, pat["sub"], K, v)
        if self.irrefutable(pat):
            return K, frozenset()
        # tuple scrutinee with tuple pattern
        es = strip_refs(e)
        if pk == "tuple" and isinstance(es, dict) and es.get("k") == "tup" and len(es["es"]) == len(pat["pats"]):
            kt = set(K)
            exact = True
            for ee, pp in zip(es["es"], pat["pats"]):
                t, f = self.test(ee, pp, K, v)
                kt &= t
                if (t | f) != K or (t & f):
                    exact = False
            kf = (K - kt) if exact else K
            return frozenset(kt), frozenset(kf)
        # the value itself against Value::X
        if self.is_val(e, v) and pk in ("tstruct", "struct", "path"):
            name = pat["path"].split("::")[-1]
            if "serde_json" in pat["path"] and name in VARIANT:
                s = frozenset(VARIANT[name]) & K
                sub = pat.get("pats") or [f[1] for f in pat.get("fields", [])]
                if all(self.irrefutable(x) for x in sub):
                    return s, K - s
                return s, K
        # Option-valued test on the value
        ok = self.opt_kinds(e, v)
        if ok is not None and pk in ("tstruct", "path"):
            name = pat["path"].split("::")[-1]
            if name == "Some":
                s = ok & K
                if all(self.irrefutable(x) for x in pat.get("pats", [])):
                    return s, K - s
                return s, K
            if name == "None":
                s = K - ok
                return s, K - s
        return K, K

    def cond(self, e, K, v):
        k = e.get("k")
        if k == "un" and e.get("op") == "Not":
            t, f = self.cond(e["e"], K, v)
            return f, t
        if k == "letx":
            return self.test(e["init"], e["pat"], K, v)
        if k == "mcall" and e["name"] in IS and self.is_val(e["recv"], v):
            s = frozenset(IS[e["name"]]) & K
            return s, K - s
        if k == "mcall" and e["name"] in ("is_some", "is_none"):
            ok = self.opt_kinds(e["recv"], v)
            if ok is not None:
                s = ok & K
                return (s, K - s) if e["name"] == "is_some" else (K - s, s)
        if k == "bin" and e.get("op") == "And":
            t1, f1 = self.cond(e["l"], K, v)
            t2, f2 = self.cond(e["r"], t1, v)
            return t2, frozenset(f1 | f2)
        if k == "bin" and e.get("op") == "Or":
            t1, f1 = self.cond(e["l"], K, v)
            t2, f2 = self.cond(e["r"], f1, v)
            return frozenset(t1 | t2), f2
        if k == "match" and e.get("mac") == "matches":
            # matches!(E, PAT)
            arms = e["arms"]
            if len(arms) == 2:
                return self.test(e["scrut"], arms[0]["pat"], K, v)
        return K, K

    # ------------------------------------------------------------------ evaluation
    def succ(self, e, K, v, rets):
        """Kinds (⊆K) on which evaluating `e` may produce a success value (Ok/Some/plain value).
        `rets` accumulates kinds on which an enclosed `return <success>` may happen."""
        if e is None or not K:
            return frozenset() if not K else K
        if not isinstance(e, dict):
            return K
        k = e.get("k")
        if k == "block":
            for st in e.get("stmts", []):
                K = self.stmt(st, K, v, rets)
                if not K:
                    return frozenset()
            if e.get("tail") is None:
                return K
            return self.succ(e["tail"], K, v, rets)
        if k == "path":
            if e.get("path", "").endswith("::None"):
                return frozenset()
            return K
        if k == "call":
            fn = e.get("fn", "")
            if e.get("res") == "ctor" and fn.endswith("::Err"):
                self.passk(e.get("args", []), K, v, rets)
                return frozenset()
            K2 = self.passk(e.get("args", []), K, v, rets)
            if e.get("res") == "ctor":
                return K2
            return self.call(e, fn, list(e.get("args", [])), K2, v, rets)
        if k == "mcall":
            name = e["name"]
            if name in AS and self.is_val(e["recv"], v):
                return frozenset(AS[name]) & K
            clos = [a for a in e.get("args", []) if isinstance(a, dict) and a.get("k") == "closure"]
            if name in ("then_some", "then"):
                t, _ = self.cond(e["recv"], K, v)
                if clos:
                    t = self.closure(clos[0], t, v)
                return t
            if name in PASS_THROUGH or name in ("unwrap_or_else", "expect", "unwrap"):
                r = self.succ(e["recv"], K, v, rets)
                return r
            if name in ("find_map", "and_then", "try_for_each", "filter_map") and clos:
                r = self.succ(e["recv"], K, v, rets) if name == "and_then" else K
                return self.closure(clos[0], r, v)
            fn = e.get("fn", "")
            K2 = self.passk([e["recv"]] + list(e.get("args", [])), K, v, rets)
            return self.call(e, fn, [e["recv"]] + list(e.get("args", [])), K2, v, rets)
        if k == "macro":
            if e["name"] in ("panic", "unreachable", "todo", "unimplemented"):
                return frozenset()
            return self.passk(e.get("args", []), K, v, rets)
        if k == "ret":
            r = self.succ(e.get("e"), K, v, rets)
            rets.update(r)
            return frozenset()
        if k == "if":
            t, f = self.cond(e["cond"], K, v)
            a = self.succ(e["then"], t, v, rets)
            if e.get("else") is None:
                return frozenset(a | f)
            b = self.succ(e["else"], f, v, rets)
            return frozenset(a | b)
        if k == "match":
            if e.get("src") == "try":
                inner = e["scrut"]["args"][0] if e["scrut"].get("k") == "call" and e["scrut"].get("args") else e["scrut"]
                return self.succ(inner, K, v, rets)
            if e.get("src") == "for":
                # loop body may run zero times: evaluate for returns only
                self.succ_loop(e, K, v, rets)
                return K
            K0 = self.passk([e["scrut"]], K, v, rets)
            rem = K0
            out = set()
            for arm in e["arms"]:
                t, f = self.test(e["scrut"], arm["pat"], rem, v)
                if arm.get("guard") is not None:
                    gt, _ = self.cond(arm["guard"], t, v)
                    out |= self.succ(arm["body"], gt, v, rets)
                    # a guarded arm does not remove kinds from the remainder
                else:
                    out |= self.succ(arm["body"], t, v, rets)
                    rem = f
            return frozenset(out)
        if k in ("ref", "cast", "un", "field"):
            return self.succ(e.get("e"), K, v, rets)
        if k == "closure":
            return K
        if k == "loop":
            r2 = set()
            self.succ(e["body"], K, v, r2)
            rets.update(r2)
            return K
        if k in ("tup", "array"):
            return self.passk(e.get("es", []), K, v, rets)
        if k == "struct":
            return self.passk([f[1] for f in e.get("fields", [])], K, v, rets)
        return K

    def succ_loop(self, e, K, v, rets):
        for n, anc in walk(e):
            if n.get("k") == "ret":
                self.succ(n, K, v, rets)

    def closure(self, clo, K, v):
        r = set()
        s = self.succ(clo["body"], K, v, r)
        return frozenset(s | r)

    def passk(self, es, K, v, rets):
        """Kinds on which evaluating these sub-expressions continues (every `?` inside passes)."""
        for e in es:
            if not isinstance(e, dict):
                continue
            k = e.get("k")
            if k == "closure":
                continue
            if k == "match" and e.get("src") == "try":
                K = self.succ(e, K, v, rets)
            elif k in ("if", "match", "block", "ret", "macro"):
                K = self.succ(e, K, v, rets) if k != "macro" else self.passk(e.get("args", []), K, v, rets)
            elif k in ("call", "mcall"):
                sub = ([e["recv"]] if k == "mcall" else []) + list(e.get("args", []))
                if k == "mcall" and e["name"] in ("find_map", "and_then", "map", "filter_map", "then", "then_some", "try_for_each"):
                    # Option/iterator adaptor: does not diverge by itself
                    K = self.passk([e["recv"]], K, v, rets)
                else:
                    K = self.passk(sub, K, v, rets)
            else:
                sub = [x for kk, x in e.items() if isinstance(x, dict)] + [y for kk, x in e.items() if isinstance(x, list) for y in x if isinstance(y, dict)]
                K = self.passk(sub, K, v, rets)
            if not K:
                return frozenset()
        return K

    def stmt(self, st, K, v, rets):
        k = st.get("k")
        if k == "let":
            init = st.get("init")
            if init is None:
                return K
            if st.get("else") is None and isinstance(st.get("pat"), dict) and st["pat"].get("k") == "bind" and st["pat"].get("sub") is None and self.is_val(init, v):
                # `let x = value;` — another name for the tracked value
                if not hasattr(self, "aliases"):
                    self.aliases = set()
                self.aliases.add(st["pat"]["name"])
                return K
            if st.get("else") is not None:
                K0 = self.passk([init], K, v, rets)
                t, f = self.test(init, st["pat"], K0, v)
                self.succ(st["else"], f, v, rets)
                return t
            if init.get("k") in ("if", "match", "block") and not (init.get("k") == "match" and init.get("src") == "try"):
                return self.succ(init, K, v, rets) if self.diverges_somewhere(init) else K
            return self.passk([init], K, v, rets)
        if k in ("if", "match", "block", "ret", "loop"):
            if k == "if" and st.get("else") is None:
                t, f = self.cond(st["cond"], K, v)
                a = self.succ(st["then"], t, v, rets)
                return frozenset(a | f)
            return self.succ(st, K, v, rets)
        return self.passk([st], K, v, rets)

    def diverges_somewhere(self, e):
        for n, anc in walk(e):
            if any(a.get("k") == "closure" for a in anc):
                continue
            if n.get("k") == "ret" or (n.get("k") == "match" and n.get("src") == "try") or (n.get("k") == "macro" and n["name"] in ("panic", "unreachable", "todo")):
                return True
        return False

    # ------------------------------------------------------------------ calls
    def call(self, node, fn, args, K, v, rets):
        """Interprocedural: a helper in this crate that receives *the* value is evaluated on K."""
        if self.depth > 6 or not fn:
            return K
        if fn in self.roots:
            return K
        h = self.c.hir.get(fn)
        if h is None or h.get("derived"):
            return K
        # which parameter receives the tracked value?
        idx = None
        for i, a in enumerate(args):
            if self.is_val(a, v):
                idx = i
        if idx is None:
            return K
        params = h.get("params", [])
        if idx >= len(params):
            return K
        p = params[idx]
        pname = None
        for x, _ in walk(p):
            if x.get("k") == "bind":
                pname = x["name"]
                break
        if pname is None:
            return K
        key = (fn, pname, K)
        if key in self.memo:
            return self.memo[key]
        self.memo[key] = K  # recursion guard
        sub = Eval(self.c, self.roots, self.depth + 1, self.memo)
        r = set()
        s = sub.succ(h["body"], K, pname, r)
        res = frozenset(s | r)
        self.memo[key] = res
        return res
