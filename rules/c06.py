"""C06 — schema defaults are reproduced exactly, or rejected when the schema is added.

Decision-table and discipline clauses (DESIGN.md §6/C06):
  D1  the validator of defaults accepts no JSON kind the renderer cannot render (per IR variant / tag type / variant kind)
  D2  every (kind, value) cell the renderer of property defaults cannot render is classified Optional
  D3  the two sites that attach a type-level default treat "no metadata returned" alike (never overwrite with None)
  D4  converters hand back the metadata they were given (their caller reads `default` from it)
  W1  finalisation (default validation) covers every id of the batch on every path to Ok
"""
from lib import (walk, nodes, ends, src, psrc, outcome, top_stmts, contains_node, pat_top_variants, short, calls_in,
                 block_last, strip_refs)
import re
import kinds
from kinds import ALL

EXPLANATION = (
    "Decides agreement of sibling decision tables, not numeric equality of rendered literals: (D1) for each TypeEntryDetails "
    "variant, each enum tag type and each variant kind, the set of JSON kinds on which the default validator can succeed "
    "(computed by abstract evaluation of its arm over the 8 JSON kinds, tests on the value refine the set, helpers are "
    "evaluated interprocedurally, delegation to a child type is unconstrained on both sides) is a subset of the kinds on which "
    "the renderer's arm can succeed; (D2) each IR variant whose property-default renderer arm panics is classified Optional by "
    "the property classifier for every kind its validator accepts; (D3) assignments to a named entry's `default` outside its "
    "constructor never store a possibly-None value unguarded; (D4) a converter returning an unnamed entry returns the metadata "
    "it was handed; (W1) every public ingestion entry finalises (validates defaults of) each id in [base_id, next_id) with "
    "base_id read before any allocation, and finalisation reaches the type-level and property-level default checks; (D5) the "
    "functions that take a JSON default value apart by struct property look members up by the property's wire name: a "
    "StructProperty's `name` (the Rust identifier) is used there only inside formatting macros or as the value of the "
    "`StructPropertyRename::None` arm of a match on that property's `rename`; (D6) the property classifier answers Required "
    "only on a path where the `default` it was handed is known to be None; (W2) wherever a schema default (an entry's "
    "`default`, a property's `Default(v)`) is handed to the validator outside the validator family itself, the answer is "
    "matched for `DefaultKind::Generic(f)` and f is inserted into the space's set of shared default functions — the "
    "renderer only names those functions, this set is what defines them; (W3) the generator never writes to a schema's "
    "annotations (`schemars::schema::Metadata`, where `default` lives): they are only read; (D7) the default validators look for repeated "
    "elements (a `uniqueItems` default) among all pairs: a neighbour-only comparison (`windows(2)`) is complete only on sorted "
    "data, and JSON values have no order; (D8) where a nullable type array `[T, null]` is rewritten into Option<T>, the schema "
    "handed to the conversion of T carries the annotations with a `null` default removed (and only a null one): `default: null` "
    "is the Option's default, and T's range check would reject it — schemars emits exactly this for `Option<u32>` with "
    "`#[serde(default)]`; (D9) for integer defaults the shared helper the renderer *names* (`defaults::default_u64` / "
    "`default_nzu64` / `default_i64`) is, for each kind of number (unsigned, above i64::MAX, negative), among the helpers the "
    "validator *registers* for that kind (`DefaultImpl::U64|NZU64|I64`, whose emitted function names are read from the "
    "DefaultImpl -> tokens table) — the name is only a string in an attribute, the registration is what defines the function."
    " (D10) no floating-point number is cast to an integer type without an enclosing range comparison; (D11) every accepting exit of the validator's fixed-length-array arm is dominated by a condition that mentions the declared length; (W3) the one allowed write of an annotation is `default = None` under a test that the default is `null`, wherever it sits."
)
ASSUMPTIONS = ["serde_json::Value::as_* / is_* semantics as documented", "the rendered literal's numeric value is not decided (see DESIGN.md)"]


def sig_has(f, inp=None, out=None):
    ok = True
    if inp:
        ok = ok and any(inp in t for t in f["inputs"])
    if out:
        ok = ok and out in f["output"]
    return ok


def find_mirror(c):
    val = ren = None
    for q, f in c.fns.items():
        if f.get("derived") or not f["inputs"]:
            continue
        if "TypeEntry" in f["inputs"][0] and any(kinds.is_value_ty(t) for t in f["inputs"]):
            if "DefaultKind" in f["output"] and "Result" in f["output"]:
                val = q
            elif f["output"].startswith("std::option::Option<proc_macro2::TokenStream>"):
                ren = q
    return val, ren


def value_param(c, q):
    f = c.fns[q]
    h = c.hir[q]
    for i, t in enumerate(f["inputs"]):
        if kinds.is_value_ty(t):
            for x, _ in walk(h["params"][i]):
                if x.get("k") == "bind":
                    return x["name"]
    return None


def details_match(c, h):
    for n, _ in nodes(h["body"], "match"):
        if n.get("src") == "normal" and "TypeEntryDetails" in c.ty(n.get("scty")) and "details" in src(n["scrut"]):
            return n
    return None


def cells(c, q, roots):
    """{cell key: (kinds, arm)} for the fn's match on self.details; Enum arms are split by tag type."""
    h = c.hir[q]
    v = value_param(c, q)
    m = details_match(c, h)
    out = {}
    if m is None or v is None:
        return out, None
    ev = kinds.Eval(c, roots)
    for arm in m["arms"]:
        tops = [t.split("::")[-1] for t in pat_top_variants(arm["pat"])]
        body = arm["body"]
        inner = block_last(body)
        sub = None
        if isinstance(inner, dict) and inner.get("k") == "match" and inner.get("src") == "normal" and "EnumTagType" in c.ty(inner.get("scty")):
            sub = inner
        for t in tops:
            if sub is not None and body is inner or (sub is not None and not body.get("stmts")):
                for a2 in sub["arms"]:
                    for t2 in pat_top_variants(a2["pat"]):
                        r = set()
                        s = ev.succ(a2["body"], ALL, v, r)
                        out["%s/%s" % (t, t2.split("::")[-1])] = (frozenset(s | r), a2)
            else:
                r = set()
                s = ev.succ(body, ALL, v, r)
                out[t] = (frozenset(s | r), arm)
    return out, m


def helper_in_arm(c, arm, roots):
    """The crate-local helper called in this arm with the value (for per-variant-kind comparison)."""
    for x, _ in walk(arm["body"]):
        if x.get("k") in ("call", "mcall") and x.get("fn") in c.hir and x["fn"] not in roots:
            return x["fn"]
    return None


def variant_cells(c, fn, roots, v=None):
    """Inside an enum helper: kinds per VariantDetails arm (relative to the kinds that reach the match).
    `fn` is the helper's name, or (when the helper was written / inlined in place) a {"body": arm body} record with the
    name `v` of the value it analyses."""
    if isinstance(fn, dict):
        h = fn
    else:
        h = c.hir[fn]
        f = c.fns[fn]
        for i, t in enumerate(f["inputs"]):
            if kinds.is_value_ty(t) and i < len(h["params"]):
                for x, _ in walk(h["params"][i]):
                    if x.get("k") == "bind":
                        v = x["name"]
    m = None
    for n, _ in nodes(h["body"], "match"):
        if n.get("src") == "normal" and "VariantDetails" in c.ty(n.get("scty")):
            m = n
    if m is None or v is None:
        return {}
    ev = kinds.Eval(c, roots)
    out = {}
    # variant kinds turned away before the table: `if matches!(details, VariantDetails::X(..)) { return None }`
    from lib import outcome
    refused = set()
    for n, _ in walk(h["body"]):
        if n is m:
            break
        if n.get("k") == "if" and n.get("else") is None and isinstance(n.get("cond"), dict) and n["cond"].get("k") == "match" and n["cond"].get("mac") == "matches" \
                and "VariantDetails" in c.ty(n["cond"].get("scty")) and outcome(n["then"]) in ("ret-none", "ret-err"):
            refused |= {x.split("::")[-1] for x in pat_top_variants(n["cond"]["arms"][0]["pat"])}
    for arm in m["arms"]:
        names = [x.split("::")[-1] for x in pat_top_variants(arm["pat"])]
        if names == ["tuple"]:
            names = [p.split("::")[-1] for p in [pp for pp in [x.get("path") for x, _ in walk(arm["pat"]) if x.get("path")] if "VariantDetails" in pp]] or ["_"]
        r = set()
        s = ev.succ(arm["body"], ALL, v, r)
        for nme in names:
            if nme in refused:
                out.setdefault(nme, frozenset())
                continue
            out[nme] = out.get(nme, frozenset()) | frozenset(s | r)
    return out


def run(facts, rep, tier):
    c = facts.impl
    run_w2(facts, rep)
    run_w3(facts, rep)
    run_d7(facts, rep)
    run_d8(facts, rep)
    run_d9(facts, rep)
    run_d10(facts, rep)
    run_d11(facts, rep)
    val, ren = find_mirror(c)
    if not rep.floor("C06.D1", "default validator / renderer pair", (1 if val else 0) + (1 if ren else 0), 2):
        return
    roots = {val, ren}
    # helpers that only forward to the mirror fns on a child type are delegation too
    for q, h in c.hir.items():
        if h.get("derived") or q in roots:
            continue
        body = h["body"]
        cs = [x for x in calls_in(body) if x in (val, ren)]
        if cs and len([1 for _ in walk(body)]) < 40:
            roots.add(q)
    vc, vm = cells(c, val, roots)
    rc, rm = cells(c, ren, roots)
    rep.floor("C06.D1", "validator cells", len(vc), 20)
    rep.floor("C06.D1", "renderer cells", len(rc), 20)
    adt = c.adt("TypeEntryDetails")
    variants = [v["name"] for v in adt["variants"]] if adt else []
    rep.floor("C06.D1", "TypeEntryDetails variants", len(variants), 17)

    def lookup(table, key):
        if key in table:
            return table[key]
        base = key.split("/")[0]
        if base in table:
            return table[base]
        if "_" in table:
            return table["_"]
        return None

    keys = sorted(set(vc) | set(rc))
    for key in keys:
        if key == "_":
            continue
        a = lookup(vc, key)
        b = lookup(rc, key)
        if a is None or b is None:
            rep.ob("C06.D1", "cell:%s" % key, False, "IR cell %s has an arm on only one side (validator: %s, renderer: %s)" % (key, a is not None, b is not None), ((a or b)[1]).get("sp"))
            continue
        extra = sorted(a[0] - b[0])
        rep.ob("C06.D1", "cell:%s" % key, not extra,
               "validator succeeds on {%s} ⊆ renderer {%s}" % (",".join(sorted(a[0])), ",".join(sorted(b[0]))) if not extra else
               "the validator accepts a default of JSON kind {%s} for %s that the renderer cannot render (renderer: {%s}) — deferred to a render-time panic" % (",".join(extra), key, ",".join(sorted(b[0]))),
               a[1].get("sp"))
    for vname in variants:
        has_v = any(k == vname or k.startswith(vname + "/") for k in vc) or "_" in vc
        has_r = any(k == vname or k.startswith(vname + "/") for k in rc) or "_" in rc
        rep.ob("C06.D1", "covered:%s" % vname, has_v and has_r, "arm present on both sides" if has_v and has_r else "IR variant %s lacks an arm (validator %s, renderer %s)" % (vname, has_v, has_r))
    rep.sample({"rule": "C06.D1", "validator": val, "renderer": ren,
                "table": {k: {"validator": sorted(lookup(vc, k)[0]) if lookup(vc, k) else None, "renderer": sorted(lookup(rc, k)[0]) if lookup(rc, k) else None} for k in keys if k != "_"}})

    # per tag type: the helper pair agrees per variant kind
    npairs = 0
    for key in keys:
        if not key.startswith("Enum/"):
            continue
        a = vc.get(key)
        b = rc.get(key)
        if not a or not b:
            continue
        def has_variant_table(arm):
            return any(n_.get("k") == "match" and n_.get("src") == "normal" and "VariantDetails" in c.ty(n_.get("scty")) for n_, _ in walk(arm["body"]))
        hv = {"body": a[1]["body"]} if has_variant_table(a[1]) else helper_in_arm(c, a[1], roots)
        hr = {"body": b[1]["body"]} if has_variant_table(b[1]) else helper_in_arm(c, b[1], roots)
        if not hv or not hr:
            continue
        npairs += 1
        va = variant_cells(c, hv, roots, value_param(c, val))
        vb = variant_cells(c, hr, roots, value_param(c, ren))
        if isinstance(hv, dict):
            hv = val
        if isinstance(hr, dict):
            hr = ren
        for vk in sorted(set(va) | set(vb)):
            if vk == "_":
                continue
            if key == "Enum/Internal" and vk in ("Item", "Tuple"):
                continue  # internally tagged variants are only ever built Simple or Struct (C01.W1/I11 decides that)
            x = va.get(vk, va.get("_"))
            y = vb.get(vk, vb.get("_"))
            if x is None or y is None:
                continue
            extra = sorted(x - y)
            rep.ob("C06.D1", "variant-cell:%s/%s" % (key, vk), not extra,
                   "%s ⊑ %s on %s: {%s} ⊆ {%s}" % (short(hv), short(hr), vk, ",".join(sorted(x)), ",".join(sorted(y))) if not extra else
                   "%s accepts {%s} for a %s variant that %s cannot render" % (short(hv), ",".join(extra), vk, short(hr)), c.fns[hv].get("sp"))
    rep.floor("C06.D1", "enum helper pairs", npairs, 4)

    # T-rule: run-time unwrap in rendered defaults
    for key, (ks, arm) in rc.items():
        for x, _ in walk(arm["body"]):
            if x.get("k") == "macro" and x["name"] == "quote":
                t = facts.template_at(x["sp"])
                if t and ". unwrap ()" in t["text"] and "from_str" in t["text"]:
                    vks = lookup(vc, key)
                    unchecked = vks is not None and vks[0] == ALL
                    if key == "JsonValue":
                        rep.ob("C06.D1", "runtime-unwrap:%s" % key, True, "from_str of the JSON text it was printed from cannot fail")
                    else:
                        rep.ob("C06.D1", "runtime-unwrap:%s" % key, not unchecked,
                               "the rendered default for %s is `from_str(..).unwrap()` and the validator accepts every value for it: an invalid default panics when the generated code runs" % key, x.get("sp"))

    # ------------------------------------------------------------ D2
    dfn = None
    for q, f in c.fns.items():
        if not f.get("derived") and f["inputs"] and "TypeEntry" in f["inputs"][0] and f["output"].startswith("(std::string::String, std::option::Option<proc_macro2::TokenStream>)"):
            dfn = q
    classifier = None
    for q, f in c.fns.items():
        if not f.get("derived") and f["output"].endswith("StructPropertyState") and any("serde_json::Value" in t for t in f["inputs"]):
            classifier = q
    if rep.floor("C06.D2", "property-default renderer and classifier", (1 if dfn else 0) + (1 if classifier else 0), 2):
        dm = details_match(c, c.hir[dfn])
        panicking = []
        if dm:
            for arm in dm["arms"]:
                if outcome(arm["body"]) == "panic":
                    panicking += [t.split("::")[-1] for t in pat_top_variants(arm["pat"])]
        rep.floor("C06.D2", "panicking arms of the property-default renderer", len(panicking), 1)
        # classifier table: (Some(TypeEntryDetails::V), Some(Value::K..)) => Optional
        cm = None
        for n, _ in nodes(c.hir[classifier]["body"], "match"):
            if n.get("src") == "normal" and n["scrut"].get("k") == "tup":
                cm = n
        optional = set()
        if cm:
            for arm in cm["arms"]:
                if arm["pat"].get("k") != "tuple" or len(arm["pat"]["pats"]) != 2:
                    continue
                p0, p1 = arm["pat"]["pats"]
                vnames = [x["path"].split("::")[-1] for x, _ in walk(p0) if x.get("path") and "TypeEntryDetails" in x["path"]]
                knames = [x["path"].split("::")[-1] for x, _ in walk(p1) if x.get("path") and "serde_json" in x["path"]]
                res = src(block_last(arm["body"]))
                if "Optional" in res and arm.get("guard") is None:
                    for vn in vnames:
                        for kn in knames:
                            optional.add((vn, kn))
        # an arm that answers Optional for a *present* default claims "this default is the type's intrinsic one": its test of
        # the value must be exact (a literal pattern, `is_empty()`, `as_x() == Some(0)`), never a lossy conversion
        if cm:
            from lib import Canon
            cnc = Canon(c, c.hir[classifier], 0)
            n_int = 0
            for arm in cm["arms"]:
                if arm["pat"].get("k") != "tuple" or len(arm["pat"]["pats"]) != 2:
                    continue
                p0, p1 = arm["pat"]["pats"]
                if "Optional" not in src(block_last(arm["body"])) or psrc(p1).endswith("None"):
                    continue
                n_int += 1
                cell = "%s/%s" % ("|".join(x["path"].split("::")[-1] for x, _ in walk(p0) if x.get("path") and "TypeEntryDetails" in x["path"]),
                                  "|".join(x["path"].split("::")[-1] for x, _ in walk(p1) if x.get("path") and "serde_json" in x["path"]))
                g = arm.get("guard")
                binds = [b_ for b_, _ in walk(p1) if b_.get("k") == "bind"]
                if g is None:
                    ok = not binds  # literal pattern (Null, Bool(false)): exact by construction
                    why = "literal pattern" if ok else "binds the value and answers Optional without testing it"
                else:
                    t = cnc.r(g)
                    exact = (re.fullmatch(r"\$[^()]+\.is_empty\(\)", t) or re.fullmatch(r"\(\$[^()]+\.as_(u64|i64|f64)\(\) Eq Some\((0|0\.0)\)\)", t)) and " And " not in t and " Or " not in t
                    lossy = re.search(r"unwrap_or|unwrap_or_default|unwrap_or_else| as |round\(|floor\(|trunc\(", t)
                    ok = bool(exact) and not lossy
                    why = "`%s`" % src(g)[:60] if ok else "`%s` is not an exact test of the value against the intrinsic default%s" % (src(g)[:80], " (a failed conversion is read as the default)" if lossy else "")
                rep.ob("C06.D2", "intrinsic-test-is-exact:%s#%d" % (cell, sum(1 for o in rep.obligations if o["key"].startswith("C06.D2/intrinsic-test-is-exact:%s#" % cell))), ok,
                       "Optional only when the default is exactly the intrinsic one: %s" % why if ok else
                       "the classifier answers Optional (serde's bare `default`, i.e. the intrinsic value) for a default it has not shown to be the intrinsic one: %s — the schema's default is silently replaced and never validated" % why, arm.get("sp"))
            rep.floor("C06.D2", "classifier arms answering Optional for a present default", n_int, 6)
        kind_to_variant = {"null": "Null", "bool": "Bool", "string": "String", "array": "Array", "object": "Object", "u64": "Number", "big": "Number", "neg": "Number", "float": "Number"}
        for vn in panicking:
            ks = lookup(vc, vn)
            ks = ks[0] if ks else ALL
            for kk in sorted(ks):
                ok = (vn, kind_to_variant[kk]) in optional
                rep.ob("C06.D2", "unrenderable-is-optional:%s/%s" % (vn, kk), ok,
                       "(%s, %s) is classified Optional" % (vn, kk) if ok else
                       "a %s default on a %s property is accepted as intrinsic by the validator, is not classified Optional, and the property-default renderer's %s arm panics" % (kk, vn, vn),
                       c.fns[classifier].get("sp"))
        rep.sample({"rule": "C06.D2", "panicking": panicking, "optional_cells": sorted(optional)[:12]})

        # ------------------------------------------------------------ D6 a present default is never answered with Required
        ch = c.hir[classifier]
        from lib import scope_binding
        dflt_ix = [i for i, t in enumerate(c.fns[classifier]["inputs"]) if "Option<&serde_json::Value>" in t.replace("std::option::", "")]
        anc_of = {id(n): a for n, a in walk(ch["body"])}
        n_req = 0
        for n, anc in walk(ch["body"]):
            if not (n.get("k") == "path" and n.get("res") == "ctor" and n.get("path", "").endswith("StructPropertyState::Required") and n.get("ty") is not None):
                continue
            n_req += 1
            none_known = False
            for i, a in enumerate(anc):
                # an arm of a match over (.., <default param>, ..) whose pattern at that position is `None`
                if a.get("k") is None and "pat" in a and i > 0 and anc[i - 1].get("k") == "match":
                    m = anc[i - 1]
                    es = m["scrut"]["es"] if m["scrut"].get("k") == "tup" else [m["scrut"]]
                    ps = a["pat"]["pats"] if a["pat"].get("k") == "tuple" else [a["pat"]]
                    for e, pt in zip(es, ps):
                        e = strip_refs(e)
                        if e.get("k") == "path" and e.get("res") == "local":
                            b = scope_binding(ch, anc_of[id(e)], e["path"], e)
                            if b and b[0] == "param" and b[1] in dflt_ix and pt.get("k") == "path" and pt["path"].endswith("::None"):
                                none_known = True
                if a.get("k") == "if" and contains_node(a["then"], n):
                    cnd = a["cond"]
                    if cnd.get("k") == "mcall" and cnd["name"] == "is_none":
                        e = strip_refs(cnd["recv"])
                        if e.get("k") == "path" and e.get("res") == "local":
                            b = scope_binding(ch, anc_of[id(e)], e["path"], e)
                            none_known = none_known or bool(b and b[0] == "param" and b[1] in dflt_ix)
            rep.ob("C06.D6", "required-only-without-default#%d" % (n_req - 1), none_known,
                   "Required is answered where the schema default is known to be absent" if none_known else
                   "the classifier can answer Required without having established that no `default` is present: a schema default on that path is neither honoured nor validated (the property silently becomes mandatory/Option)", n.get("sp") or c.fns[classifier].get("sp"))
        rep.floor("C06.D6", "Required answers in the property classifier", n_req, 1)

    # ------------------------------------------------------------ D3
    nassign = 0
    for h in c.user_fns():
        if "from_metadata" in h["fn"]:
            continue
        for n, anc in nodes(h["body"], "assign"):
            l = n["l"]
            if l.get("k") == "field" and l["name"] == "default" and any(s in c.ty(l.get("bty")) for s in ("TypeEntryEnum", "TypeEntryStruct", "TypeEntryNewtype")):
                nassign += 1
                rhs = strip_refs(n["r"])
                rty = c.ty(n["r"].get("ty")) if isinstance(n["r"], dict) else ""
                guarded = False
                why = ""
                rname = rhs.get("path") if rhs.get("k") == "path" else None
                for a in anc:
                    if a.get("k") == "if":
                        cs = src(a["cond"])
                        in_then = contains_node(a["then"], n)
                        if in_then and rname and ("%s.is_some()" % rname) in cs:
                            guarded, why = True, "guarded by %s.is_some()" % rname
                        if in_then and a["cond"].get("k") == "letx" and psrc(a["cond"]["pat"]).startswith("Some("):
                            from lib import Canon
                            cnd = Canon(c, h, 4)
                            x_ = cnd.r(a["cond"]["init"])
                            # the value assigned is read out of the very Option that was just matched as Some
                            if cnd.r(n["r"]).startswith(x_ + "~Some"):
                                guarded, why = True, "inside `if let Some(m) = <metadata>` and the value is read from that m: the very metadata the constructor saw"
                if rhs.get("k") == "call" and rhs.get("fn", "").endswith("::Some"):
                    guarded, why = True, "assigns Some(..)"
                key = "%s#%d" % (h["fn"], sum(1 for o in rep.obligations if o["key"].startswith("C06.D3/no-none-overwrite:%s#" % h["fn"])))
                rep.ob("C06.D3", "no-none-overwrite:" + key, guarded,
                       why if guarded else "`%s = %s` may overwrite the default the constructor attached with None when no metadata is returned (struct-level default lost on this ingestion route only)" % (src(l), src(n["r"])), n.get("sp"))
    rep.floor("C06.D3", "assignments to a named entry's default outside constructors", nassign, 3)  # one per named kind; today 2 routes x 3 kinds

    # ------------------------------------------------------------ D4
    nret = 0
    for h in c.user_fns():
        f = c.fns.get(h["fn"])
        if not f or "schemars::schema::Metadata" not in f["output"] or "TypeEntry" not in f["output"]:
            continue
        md_params = [i for i, t in enumerate(f["inputs"]) if "schemars::schema::Metadata" in t]
        counter = 0
        for n, anc in walk(h["body"]):
            if n.get("k") != "tup" or len(n.get("es", [])) != 2:
                continue
            e0, e1 = n["es"]
            par = anc[-1] if anc else {}
            if not (par.get("k") == "call" and par.get("fn", "").endswith("::Ok")):
                continue
            nret += 1
            s1 = src(e1)
            if s1 != "&None":
                continue
            if any(a.get("k") == "closure" for a in anc):
                continue
            counter += 1
            key = "%s#%d" % (h["fn"], counter)
            s0 = src(e0)
            e0s = strip_refs(e0)
            direct_unnamed = ("TypeEntry::new_" in s0) or (".into()" in s0 and "TypeEntryDetails::" in s0)
            from_named_ctor = False
            via_convert = False
            if e0s.get("k") == "path" and e0s.get("res") == "local":
                for ln, _ in nodes(h["body"], "let"):
                    binds = [b["name"] for b, _ in walk(ln["pat"]) if b.get("k") == "bind"]
                    if e0s["path"] in binds and ln.get("init") is not None:
                        si = src(ln["init"])
                        if "from_metadata" in si:
                            from_named_ctor = True
                        if "convert_schema" in si or "convert_" in si:
                            via_convert = True
            if "from_metadata" in s0:
                from_named_ctor = True
            if direct_unnamed and md_params:
                rep.ob("C06.D4", "metadata-dropped:" + key, False,
                       "%s is handed metadata and returns the unnamed entry `%s` with `&None`: a `default` on this schema silently disappears" % (h["fn"], s0), n.get("sp") or h.get("sp"))
            elif from_named_ctor:
                rep.ob("C06.D4", "metadata-consumed:" + key, True, "named entry built by a constructor that consumed the metadata")
            elif via_convert:
                rep.ob("C06.D4", "merged-drop:" + key, False,
                       "%s converts a merged schema and discards the metadata that conversion returned (`(%s, &None)`): a `default` next to allOf/merged subschemas is dropped when the merged type is unnamed" % (h["fn"], s0), h.get("sp"))
            else:
                rep.ob("C06.D4", "unclassified:" + key, True, "returns (%s, &None)" % s0, nontrivial=False)
    rep.floor("C06.D4", "converter return sites", nret, 24)

    # ------------------------------------------------------------ W1
    finalize = [q for q in c.hir if ends(q, "TypeEntry::finalize")]
    checkd = [q for q in c.hir if ends(q, "TypeEntry::check_defaults")]
    if rep.floor("C06.W1", "finalize / check_defaults", len(finalize) + len(checkd), 2):
        fz, cd = finalize[0], checkd[0]
        lastfz = block_last(c.hir[fz]["body"])
        rep.ob("C06.W1", "finalize-validates-defaults", cd in calls_in(c.hir[fz]["body"]) and outcome(c.hir[fz]["body"]) == "value" and lastfz.get("k") == "mcall" and lastfz.get("fn") == cd,
               "finalize ends in self.check_defaults(type_space) (its Result is the fn's result)", c.fns[fz].get("sp"))
        # check_defaults: type-level default of each named kind, property defaults of structs and struct variants
        body = c.hir[cd]["body"]
        pats = " ".join(psrc(a["pat"]) for m, _ in nodes(body, "match") for a in m["arms"])
        for kind in ("TypeEntryEnum", "TypeEntryStruct", "TypeEntryNewtype"):
            rep.ob("C06.W1", "type-level-default-checked:%s" % kind, ("%s{default: Some(" % kind) in pats, "check_defaults matches %s{default: Some(..)}" % kind, c.fns[cd].get("sp"))
        s = src(body)
        tried = [n for n, _ in nodes(body, "match") if n.get("src") == "try" and any(x.get("k") == "mcall" and x.get("fn") == val for x, _ in walk(n["scrut"]))]
        rep.ob("C06.W1", "validator-result-propagated", bool(tried), "the type-level validation result is propagated with `?`")
        propcheck = [x for x in set(calls_in(body)) if x in c.hir and x != val and "TypeEntry" in x]
        rep.ob("C06.W1", "property-defaults:struct", "TypeEntryStruct{properties" in pats and bool(propcheck), "struct properties are checked via %s" % [short(x) for x in propcheck])
        rep.ob("C06.W1", "property-defaults:struct-variants", "VariantDetails::Struct(" in src(body) or "VariantDetails::Struct" in " ".join(psrc(x) for x, _ in walk(body) if x.get("k") == "letx" for x in [x["pat"]]),
               "struct-variant properties are checked")
        for pq in propcheck:
            sb = src(c.hir[pq]["body"])
            tried2 = [n for n, _ in nodes(c.hir[pq]["body"], "match") if n.get("src") == "try" and any(x.get("k") == "mcall" and x.get("fn") == val for x, _ in walk(n["scrut"]))]
            rep.ob("C06.W1", "property-validator-propagates:%s" % short(pq), bool(tried2), "%s propagates the validator's error" % short(pq), c.fns[pq].get("sp"))
        # every public ingestion entry finalises the whole batch
        entries = []
        for h in c.user_fns():
            cs = set(calls_in(h["body"]))
            if any(ends(x, "TypeSpace::convert_ref_type") or ends(x, "TypeSpace::id_for_schema") for x in cs) and (c.fns[h["fn"]].get("pub") or any(h["fn"] in calls_in(o["body"]) and c.fns[o["fn"]].get("pub") for o in c.user_fns())):
                if h["fn"].startswith("TypeSpace::") and "convert" not in h["fn"].split("::")[-1] and "id_for" not in h["fn"]:
                    entries.append(h)
        rep.floor("C06.W1", "ingestion entries that convert schemas", len(entries), 2)
        for h in entries:
            stmts = top_stmts(h)
            # base_id read from next_id before any call on self
            base = None
            first_call_ix = None
            for i, st in enumerate(stmts):
                if st.get("k") == "let" and st["pat"].get("k") == "bind" and src(st.get("init")) == "self.next_id" and base is None:
                    base = (i, st["pat"]["name"])
                if first_call_ix is None and any(x.get("k") == "mcall" and src(x["recv"]) == "self" for x, _ in walk(st)):
                    first_call_ix = i
            ok_base = base is not None and (first_call_ix is None or base[0] < first_call_ix)
            rep.ob("C06.W1", "base-before-allocation:%s" % h["fn"], ok_base,
                   "`let %s = self.next_id` precedes every call on self" % (base[1] if base else "?") if ok_base else "the batch base is not read from next_id before the first allocation", h.get("sp") or c.fns[h["fn"]].get("sp"))
            loop_ok = False
            for st in stmts:
                if st.get("k") == "match" and st.get("src") == "for":
                    rng = src(st["scrut"])
                    if base and base[1] in rng and "self.next_id" in rng and "Range{start: %s, end: self.next_id}" % base[1] in rng:
                        body_calls = calls_in(st)
                        if fz in body_calls and "id_to_entry.insert" in src(st) and "finalize(self)?" in src(st):
                            loop_ok = True
            rep.ob("C06.W1", "finalize-loop:%s" % h["fn"], loop_ok,
                   "`for index in %s..self.next_id { entry.finalize(self)?; insert }`" % (base[1] if base else "base") if loop_ok else "no loop finalising every id in [base_id, next_id) with `?`", c.fns[h["fn"]].get("sp"))
            last = block_last(h["body"])
            rep.ob("C06.W1", "ok-after-finalize:%s" % h["fn"], src(last).startswith("Ok("), "the fn's tail is Ok(..) after the loop")

    # ------------------------------------------------------------ D5 wire names when a default object is taken apart
    n_uses = 0
    for h in c.user_fns():
        f = c.fns.get(h["fn"], {})
        takes_json = any("serde_json::Value" in t or "serde_json::Map" in t for t in f.get("inputs", []))
        reads_rename = any(strip_refs(m["scrut"]).get("k") == "field" and strip_refs(m["scrut"])["name"] == "rename" and (c.ty(strip_refs(m["scrut"]).get("bty")) or "").replace("&", "").strip().endswith("StructProperty")
                           for m, _ in nodes(h["body"], "match") if m.get("src") == "normal") and any("TypeSpace" in t for t in f.get("inputs", [])) and "TokenStream" not in f.get("output", "") and not any("OutputSpace" in t for t in f.get("inputs", []))
        reads_rename_any = any(strip_refs(m["scrut"]).get("k") == "field" and strip_refs(m["scrut"])["name"] == "rename" and (c.ty(strip_refs(m["scrut"]).get("bty")) or "").replace("&", "").strip().endswith("StructProperty")
                               for m, _ in nodes(h["body"], "match") if m.get("src") == "normal") and "TokenStream" not in f.get("output", "") and not any("OutputSpace" in t for t in f.get("inputs", []))
        if not (takes_json or reads_rename or reads_rename_any):
            continue
        k_in_fn = 0
        for n, anc in walk(h["body"]):
            if n.get("k") == "field" and n["name"] == "name" and (c.ty(n.get("bty")) or "").replace("&", "").replace("mut ", "").strip().endswith("StructProperty"):
                n_uses += 1
                in_macro = any(a.get("k") == "macro" for a in anc)
                in_none_arm = False
                for i, a in enumerate(anc):
                    if a.get("k") is None and "pat" in a and "body" in a and i > 0 and anc[i - 1].get("k") == "match":
                        m = anc[i - 1]
                        sc = strip_refs(m["scrut"])
                        if sc.get("k") == "field" and sc["name"] == "rename" and src(strip_refs(sc["e"])) == src(strip_refs(n["e"])) and [v.split("::")[-1] for v in pat_top_variants(a["pat"])] == ["None"]:
                            in_none_arm = True
                ok = in_macro or in_none_arm
                rep.ob("C06.D5", "wire-name:%s#%d" % (h["fn"], k_in_fn), ok,
                       ("identifier use inside a formatting macro" if in_macro else "value of the `StructPropertyRename::None` arm") if ok else
                       "`%s` (the Rust identifier) is used outside `match rename { None => name, Rename(r) => r, .. }` in a function that takes a JSON default apart: a renamed property's member is not found under its JSON name, so its default is dropped or moved to the flattened member" % src(n), n.get("sp") or h.get("sp"))
                k_in_fn += 1
    rep.floor("C06.D5", "uses of StructProperty.name in fns that take a JSON value", n_uses, 3)


def init_holds(h, anc, init, call):
    """the matched expression is the call, or a local bound to it"""
    from lib import scope_binding
    if contains_node(init, call):
        return True
    e = strip_refs(init)
    if e.get("k") == "path" and e.get("res") == "local":
        anc_of = {id(n): a for n, a in walk(h["body"])}
        b = scope_binding(h, anc_of.get(id(e), ()), e["path"], e)
        return bool(b and b[0] == "let" and b[1].get("init") is not None and contains_node(b[1]["init"], call))
    return False


def run_w2(facts, rep):
    from lib import Canon
    c = facts.impl
    prod = [q for q, fn in c.fns.items() if "DefaultKind" in fn.get("output", "") and not fn.get("derived")]
    rep.floor("C06.W2", "validators answering a DefaultKind", len(prod), 6)
    n_sites = 0
    for h in c.user_fns():
        if h["fn"] in prod:
            continue
        cn = None
        k_in = 0
        for n, anc in walk(h["body"]):
            if not (n.get("k") in ("call", "mcall") and n.get("fn") in prod):
                continue
            cn = cn or Canon(c, h, 4)
            args = ([n["recv"]] if n.get("k") == "mcall" else []) + list(n["args"])
            vals = [cn.r(a) for a in args if "Value" in (c.ty(a.get("ty")) or "")]
            if not any(re.search(r"(\.default~Some|\.state~Default)\b", v) for v in vals):
                continue  # not a schema default (e.g. enum values are validated, never rendered through default helpers)
            n_sites += 1
            ok = False
            for a, _a in nodes(h["body"], "if"):
                if a["cond"].get("k") == "letx" and "DefaultKind::Generic" in psrc(a["cond"]["pat"]) and init_holds(h, anc, a["cond"]["init"], n):
                    binds = [b["name"] for b, _ in walk(a["cond"]["pat"]) if b.get("k") == "bind"]
                    for x, _ in walk(a["then"]):
                        if x.get("k") == "mcall" and x["name"] == "insert" and strip_refs(x["recv"]).get("k") == "field" and strip_refs(x["recv"])["name"] == "defaults":
                            a0 = strip_refs(x["args"][0]) if x.get("args") else {}
                            if a0.get("k") == "path" and a0.get("path") in binds:
                                ok = True
            rep.ob("C06.W2", "generic-default-registered:%s#%d" % (h["fn"], k_in), ok,
                   "`if let DefaultKind::Generic(f) = validate(..)? { space.defaults.insert(f) }`" if ok else
                   "a schema default is validated here but a `DefaultKind::Generic` answer is discarded: the attribute `default = \"defaults::default_u64::<..>\"` is still emitted for it, naming a helper function that is never defined (the output does not compile)", n.get("sp"))
            k_in += 1
    rep.floor("C06.W2", "sites handing a schema default to the validator", n_sites, 2)
    # the finaliser hands *every* property (of a struct, and of every struct variant of an enum) to the per-property check
    import c15
    consumers = {h["fn"] for h in c.user_fns() for o in rep.obligations if o["key"].startswith("C06.W2/generic-default-registered:%s#" % h["fn"]) and o["ok"]}
    n_feed = 0
    for h in c.user_fns():
        cn = None
        for n, anc in walk(h["body"]):
            if n.get("k") in ("call", "mcall") and n.get("fn") in consumers and n.get("fn") != h["fn"]:
                args = ([n["recv"]] if n.get("k") == "mcall" else []) + list(n["args"])
                props = [a for a in args if "StructProperty" in (c.ty(a.get("ty")) or "")]
                if not props:
                    continue
                cn = cn or Canon(c, h, 4)
                t = cn.r(props[0])
                n_feed += 1
                srcs = c15.element_sources(t)
                # nested sources: inspect every level
                allsrc = []
                todo = list(srcs)
                while todo:
                    s_ = todo.pop()
                    allsrc.append(s_)
                    todo.extend(c15.element_sources(s_))
                bad = [s_ for s_ in allsrc if re.search(r"\.(filter|filter_map|find|find_map|skip|take|nth|next|last|first|skip_while|take_while|step_by|position)\(", s_.split("elem<")[0] if "elem<" in s_ else s_)]
                okf = bool(allsrc) and not bad
                # the arm that feeds the check is the only arm for its kind of entry (an earlier arm with a narrower pattern,
                # e.g. `Struct{default: Some(_), ..}`, would intercept the entries that also have a type-level default)
                from lib import arms_by_variant
                for i_, a_ in enumerate(anc):
                    if a_.get("k") is None and "pat" in a_ and i_ > 0 and anc[i_ - 1].get("k") == "match" and "TypeEntryDetails" in c.ty(anc[i_ - 1].get("scty")):
                        byv = arms_by_variant(anc[i_ - 1])
                        for v_ in pat_top_variants(a_["pat"]):
                            others = [x for x in byv.get(v_.split("::")[-1], []) if x is not a_]
                            if others:
                                okf = False
                                t = "an arm of the same match that also matches `%s` (`%s`): entries it intercepts never reach the per-property check" % (v_.split("::")[-1], psrc(others[0]["pat"])[:80])
                rep.ob("C06.W2", "every-property-default-checked:%s#%d" % (h["fn"], n_feed), okf,
                       "properties reach the per-property check from an unfiltered iteration (`%s`)" % t[:90] if okf else
                       "the per-property default check is fed from `%s`: some properties (e.g. those of later struct variants) are never validated and the shared default helpers they name are never registered, so the attribute `default = \"defaults::..\"` refers to an undefined function" % t[:140], n.get("sp"))
    rep.floor("C06.W2", "feeds of the per-property default check", n_feed, 2)


NULL_TEST = re.compile(r"\.default Eq Some\((serde_json::)?Value::Null\)|Some\((serde_json::)?Value::Null\) Eq \S*\.default")


def null_guarded(anc):
    """an enclosing arm guard or `if` condition tests that the (same schema's) default is `null`"""
    chain = list(anc)
    for i_, a in enumerate(chain):
        if a.get("k") is None and "pat" in a and a.get("guard") is not None and NULL_TEST.search(src(a["guard"])):
            if i_ + 1 < len(chain) and chain[i_ + 1] is a.get("body") or i_ + 1 >= len(chain):
                return True
        if a.get("k") == "if" and NULL_TEST.search(src(a["cond"])) and i_ + 1 < len(chain) and chain[i_ + 1] is a.get("then"):
            return True
    return False


def run_w3(facts, rep):
    c = facts.impl
    reads = writes = 0
    for h in c.user_fns():
        for n, anc in walk(h["body"]):
            if n.get("k") == "field" and (c.ty(n.get("bty")) or "").replace("&", "").replace("mut ", "").strip() in ("schemars::schema::Metadata", "std::boxed::Box<schemars::schema::Metadata>"):
                par = anc[-1] if anc else {}
                w = None
                if par.get("k") in ("assign", "assignop") and par.get("l") is n:
                    w = "`%s`" % src(par)[:80]
                elif par.get("k") == "mcall" and par.get("recv") is n and par["name"] in ("take", "insert", "replace", "get_or_insert", "get_or_insert_with", "as_mut", "push", "clear", "extend"):
                    w = "`%s`" % src(par)[:80]
                elif par.get("k") == "ref" and par.get("mut"):
                    w = "`&mut %s`" % src(n)[:60]
                if w and par.get("k") == "assign" and n.get("name") == "default" and src(par.get("r")) in ("None", "Option::None") and null_guarded(anc):
                    rep.ob("C06.W3", "null-default-removal:%s" % h["fn"], True, "%s under a test that the default is `null`: the one allowed rewrite (the inner type of an Option does not see the Option's null default)" % w, par.get("sp"), nontrivial=False)
                    reads += 1
                    continue
                if w:
                    writes += 1
                    rep.ob("C06.W3", "annotations-read-only:%s#%d" % (h["fn"], writes), False,
                           "%s rewrites a schema annotation before conversion: a `default` (or title/description) that the schema states is no longer what the converters and the default validator see, so an invalid default can pass unreported or a valid one be lost" % w, par.get("sp") or n.get("sp"))
                else:
                    reads += 1
    # a rebuilt copy of the annotations with `default` set is a write too, unless it is the guarded null-removal of D8
    for h in c.user_fns():
        for n, anc in walk(h["body"]):
            if n.get("k") == "struct" and n["path"].endswith("schema::Metadata") and "rest" not in n and any(f_[0] == "default" for f_ in n["fields"]):
                guarded = any(a.get("k") is None and "pat" in a and a.get("guard") is not None and re.fullmatch(r"\(\S*\.default Eq Some\(Value::Null\)\)|\(Some\(Value::Null\) Eq \S*\.default\)", src(a["guard"])) for a in anc)
                val = dict((f_[0], src(f_[1])) for f_ in n["fields"]).get("default")
                if not (guarded and val == "None"):
                    writes += 1
                    rep.ob("C06.W3", "annotations-read-only:%s#%d" % (h["fn"], writes), False,
                           "a copy of a schema's annotations is rebuilt with `default: %s` outside the one allowed case (removing a `null` default for the inner type of an Option): the default the schema states is not the one that is validated" % val, n.get("sp"))
    # a copy of a schema whose annotations are replaced wholesale (`SchemaObject { metadata: .., ..schema.clone() }`) and which
    # is then handed to a converter: the converters (and the numeric range check) no longer see the schema's default
    from lib import uses_of_let
    converters = {q for q, f_ in c.fns.items() if not f_.get("derived") and re.search(r"TypeSpace::(convert_\w+|id_for_schema\w*)$", q)}
    for h in c.user_fns():
        anc_of = None
        for n, anc in walk(h["body"]):
            if not (n.get("k") == "struct" and n["path"].endswith("schema::SchemaObject") and "rest" not in n and n.get("base") is not None):
                continue
            md = dict((f_[0], f_[1]) for f_ in n["fields"]).get("metadata")
            if md is None:
                continue
            from lib import Canon as _Canon
            mtxt = _Canon(c, h, 2).r(md)
            if re.search(r"Some\(_\) if \(\S*\.default Eq Some\(Value::Null\)\) => Some\(Box<T>::new\(Metadata\{default: None\}\)\) \| _ => ", mtxt):
                continue  # the guarded null-removal (D8)
            if re.fullmatch(r"\$?&?\S*[~.]metadata(\.clone\(\))?", mtxt):
                continue  # the schema's own annotations, carried over unchanged
            # where does the literal go?
            flows = False
            for a in reversed(anc):
                if a.get("k") in ("call", "mcall") and a.get("fn") in converters:
                    flows = True
                if a.get("k") == "let":
                    for u_ in uses_of_let(h, a):
                        if anc_of is None:
                            anc_of = {id(x): xa for x, xa in walk(h["body"])}
                        if any(p_.get("k") in ("call", "mcall") and p_.get("fn") in converters for p_ in anc_of.get(id(u_), ())):
                            flows = True
                    break
            if flows:
                writes += 1
                rep.ob("C06.W3", "annotations-read-only:%s#%d" % (h["fn"], writes), False,
                       "a copy of the schema with `metadata: %s` is handed to a converter: the inner conversion (which is where a numeric default is checked against the type's range) no longer sees the schema's `default`" % mtxt[:40], n.get("sp"))
    rep.ob("C06.W3", "annotations-read-only", writes == 0, "no write to a Metadata field (%d reads)" % reads if writes == 0 else "%d writes to Metadata fields" % writes, nontrivial=False)
    rep.floor("C06.W3", "reads of Metadata fields (the matcher sees them)", reads, 8)


def run_d7(facts, rep):
    from lib import neighbour_tests
    c = facts.impl
    fam = [h for h in c.user_fns() if "DefaultKind" in c.fns.get(h["fn"], {}).get("output", "")]
    bad = 0
    for h in fam:
        for (n, recv, sorted_before) in neighbour_tests(h):
            if not sorted_before:
                bad += 1
                rep.ob("C06.D7", "duplicates-among-all-pairs:%s#%d" % (h["fn"], bad), False,
                       "`%s.windows(2)` compares neighbours only and `%s` is not sorted first: a default like [a, b, a] for a `uniqueItems` array passes the duplicate test and is emitted for a set type" % (recv, recv), n.get("sp"))
    rep.ob("C06.D7", "duplicates-among-all-pairs", bad == 0, "no neighbour-only pair test on unsorted data in the %d default validators" % len(fam) if bad == 0 else "%d neighbour-only tests" % bad, nontrivial=False)
    # the matcher is alive: the struct-member converter's duplicate-field test is a (sorted) neighbour test
    alive = sum(len(neighbour_tests(h)) for h in c.user_fns())
    rep.info("D7: %d neighbour (windows) tests seen in the crate; none may sit unsorted in a default validator" % alive)


def run_d8(facts, rep):
    from lib import Canon, binding_let
    from lib import strip_refs as strip_refs_
    c = facts.impl
    sites = []
    for h in c.user_fns():
        for n, _ in walk(h["body"]):
            if n.get("k") in ("call", "mcall") and (n.get("fn") or "").endswith("TypeSpace::convert_option"):
                for a in n.get("args", []):
                    bl = binding_let(h, a)
                    if bl is None:
                        continue
                    lit = [x for x, _ in walk(bl.get("init") or {}) if x.get("k") == "struct" and x["path"].endswith("SchemaObject") and "rest" not in x and any(f_[0] == "instance_type" for f_ in x["fields"])]
                    if lit:
                        sites.append((h, n, lit[0]))
    if not rep.floor("C06.D8", "rewrites of a nullable type array into Option<T>", len(sites), 1):
        return
    # the removal may also sit in convert_option itself (then every caller gets it)
    in_callee = False
    for hh in c.user_fns():
        if hh["fn"].endswith("TypeSpace::convert_option"):
            for x, xa in walk(hh["body"]):
                if x.get("k") == "assign" and strip_refs_(x["l"]).get("k") == "field" and strip_refs_(x["l"]).get("name") == "default" and src(x["r"]) in ("None", "Option::None") and null_guarded(xa):
                    in_callee = True
    for h, n, lit in sites:
        cn = Canon(c, h, 2)
        md = dict((f_[0], f_[1]) for f_ in lit["fields"]).get("metadata")
        t = cn.r(md) if md is not None else ""
        if md is None and in_callee:
            rep.ob("C06.D8", "null-default-stays-with-the-option:%s" % h["fn"], True, "convert_option removes a `null` default (and nothing else) before converting the inner type", n.get("sp"))
            continue
        ok = md is not None and re.search(r"Some\(_\) if \(\S*\.default Eq Some\(Value::Null\)\) => Some\(Box<T>::new\(Metadata\{default: None\}\)\) \| _ => ", t) is not None
        rep.ob("C06.D8", "null-default-stays-with-the-option:%s" % h["fn"], ok,
               "the inner schema's annotations are the outer ones with a `null` default (and nothing else) removed" if ok else
               ("the inner type is converted with the Option's own annotations: a `default: null` reaches the inner integer/number conversion, whose range check rejects it (`value does not conform to the given schema`) although the default is valid for the nullable type" if md is None else
                "the inner schema's annotations are rewritten as `%s`, which is not 'remove the default iff it is null'" % t[:160]), lit.get("sp") or n.get("sp"))


def run_d9(facts, rep):
    import kinds as K_
    c = facts.impl
    NUMK = ["u64", "big", "neg"]
    # DefaultImpl variant -> emitted fn name
    impl_names = {}
    for h in c.user_fns():
        if "DefaultImpl" in h["fn"] and "From" in h["fn"]:
            for m, _ in nodes(h["body"], "match"):
                for a in m["arms"]:
                    vs = [v.split("::")[-1] for v in pat_top_variants(a["pat"])]
                    for x, _ in walk(a["body"]):
                        if x.get("k") == "macro" and x["name"] == "quote":
                            t = facts.template_at(x["sp"])
                            mm = re.search(r"fn\s+(\w+)\s*<", (t or {}).get("text", ""))
                            if mm:
                                for v in vs:
                                    impl_names[v] = mm.group(1)
    if not rep.floor("C06.D9", "DefaultImpl variants with an emitted helper", len(impl_names), 3):
        return
    ev = K_.Eval(c)
    # validator: Integer arm, match over (as_u64(), as_i64())
    vh = [h for h in c.user_fns() if h["fn"].endswith("TypeEntry::validate_value")]
    rh = [h for h in c.user_fns() if h["fn"].endswith("TypeEntry::default_fn")]
    if not rep.floor("C06.D9", "validator and renderer of property defaults", len(vh) + len(rh), 2):
        return

    def value_param(h):
        for i, t in enumerate(c.fns[h["fn"]]["inputs"]):
            if K_.is_value_ty(t) and i < len(h.get("params", [])) and h["params"][i].get("k") == "bind":
                return h["params"][i]["name"]
        return None

    def int_arm(h):
        for m, _ in nodes(h["body"], "match"):
            if m.get("src") == "normal" and "TypeEntryDetails" in c.ty(m.get("scty")):
                for a in m["arms"]:
                    if [v.split("::")[-1] for v in pat_top_variants(a["pat"])] == ["Integer"]:
                        return a
        return None
    va, ra = int_arm(vh[0]), int_arm(rh[0])
    if not rep.floor("C06.D9", "Integer arms of validator and renderer", (1 if va else 0) + (1 if ra else 0), 2):
        return
    vv, rv = value_param(vh[0]), value_param(rh[0])
    # validator: per kind, the DefaultImpl variants of every arm that may be taken
    reg = {k: set() for k in NUMK}
    inner = [m for m, _ in nodes(va["body"], "match") if m.get("src") == "normal" and m["scrut"].get("k") == "tup"
             and any(x.get("k") == "path" and "DefaultImpl::" in x.get("path", "") for x, _ in walk(m["arms"]))]
    if not rep.floor("C06.D9", "validator's case analysis of the integer default", len(inner), 1):
        return
    for k in NUMK:
        rem = frozenset([k])
        for a in inner[0]["arms"]:
            if not rem:
                break
            may, maynot = ev.test(inner[0]["scrut"], a["pat"], rem, vv)
            if may:
                for x, _ in walk(a["body"]):
                    if x.get("k") == "path" and "DefaultImpl::" in x.get("path", ""):
                        reg[k].add(x["path"].split("::")[-1])
            rem = frozenset(rem & maynot)
    # renderer: per kind, the helper names in the format strings on the paths that kind may take
    named = {k: set() for k in NUMK}

    def walk_r(e, Kset):
        if not isinstance(e, dict) or not Kset:
            return
        kk = e.get("k")
        if kk == "block":
            for st in list(e.get("stmts", [])) + ([e["tail"]] if e.get("tail") is not None else []):
                walk_r(st, Kset)
            return
        if kk == "if":
            t, f_ = ev.cond(e["cond"], Kset, rv)
            walk_r(e["then"], t)
            if e.get("else") is not None:
                walk_r(e["else"], f_)
            return
        for x, _ in walk(e):
            if x.get("k") == "macro" and x["name"] == "format":
                t = facts.template_at(x["sp"])
                mm = re.search(r"defaults::(\w+)::", (t or {}).get("text", ""))
                if mm:
                    for k in Kset:
                        named[k].add(mm.group(1))
    walk_r(ra["body"], frozenset(NUMK))
    for k in NUMK:
        regn = {impl_names.get(v, "?" + v) for v in reg[k]}
        miss = sorted(named[k] - regn)
        rep.ob("C06.D9", "named-helper-is-registered:%s" % k, bool(named[k]) and not miss,
               "for %s integer defaults the renderer names %s and the validator registers %s" % (k, sorted(named[k]), sorted(regn)) if named[k] and not miss else
               "for a %s integer default the renderer names `defaults::%s` but the validator registers only %s for that kind: the attribute refers to a function that is never emitted (the output does not compile)" % ({"u64": "non-negative", "big": "very large (> i64::MAX)", "neg": "negative"}[k], "/".join(miss) or "?", sorted(regn)), va.get("sp"))


# ---------------------------------------------------------------- D10 numbers are not squeezed through a narrower representation
INT_TYS = ("i8", "i16", "i32", "i64", "i128", "isize", "u8", "u16", "u32", "u64", "u128", "usize")


def lossy_float_cast(c, n, anc):
    """a `<f64 expr> as <integer>` cast that no enclosing condition bounds: it saturates/truncates silently"""
    from lib import strip_refs, src
    if n.get("k") != "cast" or not isinstance(n.get("e"), dict):
        return None
    te = c.ty(strip_refs(n["e"]).get("ty")) or c.ty(n["e"].get("ty"))
    if te not in ("f64", "f32") or c.ty(n.get("ty")) not in INT_TYS:
        return None
    opnd = src(strip_refs(n["e"]))
    for a in anc:
        conds = []
        if a.get("k") == "if":
            conds.append(a["cond"])
        if a.get("k") == "mcall" and a.get("name") in ("then", "then_some", "filter"):
            conds.append(a["recv"])
        if a.get("k") is None and a.get("guard") is not None:
            conds.append(a["guard"])
        for cnd in conds:
            for x, _ in walk(cnd):
                if x.get("k") == "bin" and x.get("op") in ("Lt", "Le", "Gt", "Ge") and opnd in src(x):
                    return False
    return True


def run_d10(facts, rep):
    c = facts.impl
    ncast = 0
    for h in c.user_fns():
        for n, anc in walk(h["body"]):
            if n.get("k") != "cast":
                continue
            ncast += 1
            r = lossy_float_cast(c, n, anc)
            if r is None:
                continue
            key = "%s#%d" % (h["fn"], sum(1 for o in rep.obligations if o["key"].startswith("C06.D10/float-to-integer-cast:%s#" % h["fn"])))
            rep.ob("C06.D10", "float-to-integer-cast:" + key, not r, "bounded by an enclosing comparison" if not r else
                   "`%s` casts a floating-point number to `%s` with no range test: an integer above i64::MAX (or any number outside the target's range) saturates silently, so a JSON number is validated / rendered as a different number" % (src(n)[:60], c.ty(n.get("ty"))), n.get("sp"))
    rep.floor("C06.D10", "casts scanned", ncast, 30)
    # positive control: the matcher recognises an unguarded `f as i64` and accepts a guarded one
    tys = list(c.types)
    if "f64" in tys and "i64" in tys:
        fi, ii = tys.index("f64"), tys.index("i64")
        cast = {"k": "cast", "e": {"k": "path", "res": "local", "path": "f", "ty": fi}, "ty": ii}
        guard = {"k": "if", "cond": {"k": "bin", "op": "Lt", "l": {"k": "path", "res": "local", "path": "f", "ty": fi}, "r": {"k": "lit", "v": {"float": "1e15"}}}, "then": cast}
        okc = lossy_float_cast(c, cast, ()) is True and lossy_float_cast(c, cast, (guard,)) is False
    else:
        okc = False
    rep.ob("C06.D10", "positive-control", okc, "the matcher fires on an unguarded `f as i64` and not on a guarded one", nontrivial=False)


# ---------------------------------------------------------------- D11 a fixed-length array default has that length
def run_d11(facts, rep):
    """`[T; N]` has no shorter or longer value: wherever the validator accepts a default for the fixed-length array kind,
    the array's declared length has been compared on the way (an enclosing condition or an earlier exit mentions it).
    Otherwise a default of another length (e.g. `[]`) is accepted and rendered as an ill-typed array expression."""
    from lib import dominating_conditions, Canon, block_last
    c = facts.impl
    val, ren = find_mirror(c)
    if not val:
        return
    h = c.hir[val]
    m = details_match(c, h)
    arms = [a for a in (m["arms"] if m else []) if [t.split("::")[-1] for t in pat_top_variants(a["pat"])] == ["Array"]]
    if not rep.floor("C06.D11", "validator arm for fixed-length arrays", len(arms), 1):
        return
    arm = arms[0]
    lens = [b["name"] for b, _ in walk(arm["pat"]) if b.get("k") == "bind"]
    length_name = lens[-1] if lens else None
    cn = Canon(c, h, 4)
    n_ok = 0
    for x, xa in walk(arm["body"]):
        if x.get("k") == "call" and x.get("res") == "ctor" and (x.get("fn") or "").split("::")[-1] == "Ok" and not any(a_.get("k") == "closure" for a_ in xa):
            n_ok += 1
            conds = dominating_conditions(xa, x)
            texts = [cn.r(cd) for cd in conds]
            mentions = any(re.search(r"~Array\.1\b|\b%s\b" % re.escape(length_name or "\0"), t) for t in texts)
            rep.ob("C06.D11", "fixed-length-default-has-that-length#%d" % n_ok, mentions,
                   "accepted only after the declared length was compared" if mentions else
                   "`%s` accepts a default for a fixed-length array on a path that never looks at the declared length: a default of another length (e.g. `[]` for [T; 3]) is accepted and rendered as an array expression of the wrong length, which does not compile" % src(x)[:40], x.get("sp"))
    rep.floor("C06.D11", "accepting exits of the fixed-length array arm", n_ok, 1)
