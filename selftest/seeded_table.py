#!/usr/bin/env python3
"""print the markdown table of DESIGN.md 12.7 from seeded/*/meta.json"""
import glob, json, os
HERE = os.path.dirname(os.path.abspath(__file__))
rows = []
for d in sorted(glob.glob(os.path.join(os.path.dirname(HERE), "seeded", "C??-*"))):
    m = json.load(open(os.path.join(d, "meta.json")))
    own = m["breaks_property"]
    cb = {c["check"]: c["violations"] for c in m.get("caught_by", [])}
    def short(ks):
        out = []
        for k in ks:
            if "/anchor:" in k: continue
            r = k.split("/")[0] if not k.split("/")[0].endswith(".X") else k.split("/")[0] + "[" + k.split("/")[1] + "]"
            if r not in out: out.append(r)
        return ", ".join(out)
    ownr = short(cb.get(own, [])) or "—"
    others = "; ".join("%s" % short(v) for p, v in sorted(cb.items()) if p != own and short(v))
    first = "own" if m.get("first_run", "").startswith("caught") else ("other" if m.get("first_run", "").startswith("not caught") else "missed")
    rows.append("| %s | %s | %s | %s | %s |" % (m["id"], m["summary"].replace("|", "\\|")[:110], first, ownr, others or "—"))
print("| id | change | first run | reported by its own property's check (rules) | also reported by |")
print("|---|---|---|---|---|")
print("\n".join(rows))
