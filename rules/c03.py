"""C03 — round trip keeps declared data, stays schema-valid and is idempotent (attribute clauses)."""
import re
from lib import (Canon, norm_arm, walk, nodes, ends, src, psrc, outcome, contains_node, pat_top_variants, short, calls_in, block_last,
                 strip_refs, guards, gtext, top_stmts, templates_in)
import emit
import tmplparse as tp

EXPLANATION = (
    "Decides the serde-attribute tables that a round trip depends on, not value equality or fixed points: (D1) in the property "
    "attribute selector every arm that pushes `skip_serializing_if` also pushes `default`, and the predicate path agrees with the "
    "arm's IR variant (Option -> Option::is_none, Vec -> Vec::is_empty, Map -> <map>::is_empty with the String->JsonValue "
    "exception); (D2) the sanitiser reports a rename exactly when the identifier differs from the JSON name and the string in "
    "every `rename = ..` is the raw JSON name; (D3) every decision table that is evaluated after cycle breaking and has an "
    "Option(_) arm also has a Box(_) arm, because the cycle breaker may wrap an Option node in a Box; (D4) the enum emitter's "
    "representation attributes are a function of EnumTagType with the holes bound to the IR's own tag/content fields, and "
    "property naming attributes follow StructPropertyRename; "
    "D1 sees through the crate's own token-producing helpers; tabulated matches must have one unguarded arm per case; (D5) a `uniqueItems` array is rendered as an order-preserving sequence (Vec): JSON arrays are ordered, a sorted set would rewrite them."
    " (D6) wherever a tagged variant is built, its wire name (the first argument of Variant::new, followed through parameters to the callers) has not been through a case conversion or the sanitiser; (D7) in the array conversion every stand-in for an unstated item schema is `true`."
)
ASSUMPTIONS = ["serde's handling of default/skip_serializing_if/flatten/rename as documented"]

PRED = {"Option": '"::std::option::Option::is_none"', "Vec": '"::std::vec::Vec::is_empty"'}


def quotes_in(facts, node):
    out = []
    for x, _ in walk(node):
        if x.get("k") == "macro" and x["name"] == "quote":
            t = facts.template_at(x["sp"])
            if t:
                out.append((re.sub(r"\s+", "", t["text"]), x, t))
    return out


def quotes_reach(facts, c, h, node, depth=2):
    """quote! templates evaluated by `node`: those written in it, and those in the bodies of the crate's own
    token-producing helpers it calls (so that extracting a template into a helper does not hide it).
    -> [(text, macro node, template, owner fn)]"""
    out = [(q[0], q[1], q[2], h) for q in quotes_in(facts, node)]
    if depth <= 0:
        return out
    seen = set()
    for x, _ in walk(node):
        if x.get("k") in ("call", "mcall") and x.get("fn") and x["fn"] not in seen:
            seen.add(x["fn"])
            f = c.fns.get(x["fn"])
            if not f or f.get("derived") or "TokenStream" not in f.get("output", ""):
                continue
            for hh in c.user_fns():
                if hh["fn"] == x["fn"] and hh is not h:
                    out.extend(quotes_reach(facts, c, hh, hh["body"], depth - 1))
    return out


def run(facts, rep, tier):
    c = facts.impl
    run_d5(facts, rep)
    run_d6(facts, rep)
    run_d7(facts, rep)
    gsa = [h for h in c.user_fns() if h["fn"].endswith("generate_serde_attr")]
    if not gsa:
        # by role: the fn whose templates contain skip_serializing_if
        for h in c.user_fns():
            if any("skip_serializing_if" in (t or {}).get("text", "") for (_, _, t) in templates_in(facts, c, h)):
                gsa.append(h)
    if not rep.floor("C03.D1", "property attribute selector", len(gsa), 1):
        return
    h = gsa[0]
    m = [n for n, _ in nodes(h["body"], "match") if n.get("src") == "normal" and n["scrut"].get("k") == "tup"]
    if rep.floor("C03.D1", "match on (state, type details)", len(m), 1):
        n_skip = 0
        for arm in m[0]["arms"]:
            p = psrc(arm["pat"])
            reach = quotes_reach(facts, c, h, arm["body"])
            qs = [q[0] for q in reach]
            pushed = [q for q in qs]
            skips = [q for q in pushed if q.startswith("skip_serializing_if=")]
            var = re.search(r"TypeEntryDetails::(\w+)", p)
            cell = var.group(1) if var else "_"
            if skips:
                n_skip += 1
                rep.ob("C03.D1", "skip-implies-default:%s" % cell, "default" in pushed, "arm %s pushes default and skip_serializing_if" % cell if "default" in pushed else "arm %s omits empty values on write but has no serde default: the second round trip fails" % cell, arm.get("sp"))
                if cell in PRED:
                    rep.ob("C03.D1", "predicate-matches-type:%s" % cell, skips == ["skip_serializing_if=" + PRED[cell]], "%s" % skips)
                elif cell == "Map":
                    hole_skips = [q for q in reach if re.fullmatch(r"skip_serializing_if=#\w+", q[0])]
                    ok = 'skip_serializing_if="::serde_json::Map::is_empty"' in skips and len(hole_skips) == 1
                    okf = False
                    if hole_skips:
                        owner = hole_skips[0][3]
                        cnh = Canon(c, owner, 4)
                        hole = [a for a in hole_skips[0][1].get("args", []) if a.get("hole")]
                        pr = cnh.r(hole[0]) if hole else ""
                        fm = [y for y, _ in walk(owner["body"]) if y.get("k") == "macro" and y["name"] == "format"]
                        tf = facts.template_at(fm[0]["sp"]) if fm else None
                        okf = pr == "format!($&TypeSpace.settings.map_type)" and bool(tf) and tf["text"].startswith('"{}::is_empty"')
                    rep.ob("C03.D1", "predicate-matches-type:Map", ok and okf, "Map: `<configured map>::is_empty`, or serde_json::Map::is_empty for String->JsonValue" if ok and okf else "Map predicate is %s" % skips, arm.get("sp"))
                else:
                    rep.ob("C03.D1", "predicate-matches-type:%s" % cell, False, "unreviewed skip_serializing_if predicate %s for %s" % (skips, cell), arm.get("sp"))
                state = re.search(r"StructPropertyState::(\w+)", p)
                rep.ob("C03.D1", "skip-only-when-optional:%s" % cell, bool(state) and state.group(1) == "Optional", "only Optional members are skipped when empty")
        rep.floor("C03.D1", "arms with skip_serializing_if", n_skip, 3)
        # .. and nowhere else in the selector: a `skip_serializing_if` pushed outside the (state, type) table is decided
        # without the pairing the table guarantees
        in_table = {id(q[1]) for arm in m[0]["arms"] for q in quotes_reach(facts, c, h, arm["body"])}
        outside = [q for q in quotes_reach(facts, c, h, h["body"]) if q[0].startswith("skip_serializing_if=") and id(q[1]) not in in_table]
        rep.ob("C03.D1", "skip-only-inside-the-table", not outside, "every skip_serializing_if is pushed by an arm of the (state, type) table" if not outside else
               "`%s` is pushed outside the (state, type) table: it is not tied to the Optional state, so a member with a non-empty schema default is dropped when it holds the empty value and comes back as its default" % outside[0][0][:70], outside[0][1].get("sp") if outside else None)

    # ------------------------------------------------------------ D2 rename
    rc = [x for x in c.user_fns() if x["fn"].endswith("util::recase")]
    if rep.floor("C03.D2", "recase", len(rc), 1):
        s = Canon(c, rc[0], 4).r(rc[0]["body"])
        ok = s == "(sanitize($&str, $Case), if (sanitize($&str, $Case) Eq $&str) None else Some($&str.to_string()))"
        rep.ob("C03.D2", "rename-iff-differs", ok, "recase = (sanitize(input), None if unchanged else Some(input))" if ok else "recase is `%s`" % s[:200], c.fns[rc[0]["fn"]].get("sp"))
    sp = [x for x in c.user_fns() if x["fn"].endswith("TypeSpace::struct_property")]
    if rep.floor("C03.D2", "struct_property", len(sp), 1):
        lit = [n for n, _ in nodes(sp[0]["body"], "struct") if n["path"].endswith("StructProperty") and "rest" not in n]
        ok = False
        if lit:
            cnp = Canon(c, sp[0], 3)
            fields = {k: cnp.r(v) for k, v in lit[0]["fields"]}
            ok = fields.get("name") == "recase($&str, Case::Snake).0" and fields.get("rename") == "match recase($&str, Case::Snake).1 { Some(_) => StructPropertyRename::Rename(recase($&str, Case::Snake).1~Some) | None => StructPropertyRename::None }"
        rep.ob("C03.D2", "property-rename-carries-raw-name", ok, "name = recase(prop_name).0, rename = Rename(<raw JSON name>) iff recase reports one" if ok else "struct_property does not keep the raw JSON name for the rename")
    nm = [a for a in (m[0]["arms"] if m else [])]
    nmatch = [n for n, _ in nodes(h["body"], "match") if n.get("src") == "normal" and "StructPropertyRename" in c.ty(n.get("scty"))]
    if rep.floor("C03.D2", "match on the property's naming", len(nmatch), 1):
        got = {}
        from lib import table_is_plain
        table_is_plain(rep, "C03.D4", "property-naming", nmatch[0])
        for arm in nmatch[0]["arms"]:
            pk, g, b = norm_arm(arm)
            qs = [re.sub(r"#\w+", "#s", q[0]) for q in quotes_in(facts, arm["body"])]
            got[pk.split("::")[-1]] = qs
        rep.ob("C03.D4", "property-naming-attrs", got.get("Rename($0)") == ["rename=#s"] and got.get("Flatten") == ["flatten"] and got.get("None") == [], "Rename(s) => rename = #s, Flatten => flatten, None => nothing" if got.get("Flatten") == ["flatten"] else "naming attributes: %s" % got, nmatch[0].get("sp"))
        # the hole is the bound raw name
        for arm in nmatch[0]["arms"]:
            if "Rename" in psrc(arm["pat"]):
                b = [x["name"] for x, _ in walk(arm["pat"]) if x.get("k") == "bind"]
                qn = [x for x, _ in walk(arm["body"]) if x.get("k") == "macro" and x["name"] == "quote"]
                holes = [a.get("path") for a in qn[0].get("args", []) if a.get("hole")] if qn else []
                rep.ob("C03.D2", "rename-hole-is-raw-name", holes == b, "rename = #%s is the string stored in StructPropertyRename::Rename" % (b[0] if b else "?"))

    # ------------------------------------------------------------ D3 Option tables see through Box
    breakers = [hh["fn"] for hh in c.user_fns() if any(x.endswith("cycles::get_child_ids") for x in calls_in(hh["body"]))]
    # decision tables over TypeEntryDetails in fns that run at render / validation time
    pre_cycle = set()
    # conversion-time fns: everything reachable only from convert_* / struct_property (classifier) — tabled by role: returns StructPropertyState
    for q, f in c.fns.items():
        if f["output"].endswith("StructPropertyState"):
            pre_cycle.add(q)
    n_tables = 0
    for hh in c.user_fns():
        if hh["fn"] in pre_cycle or "convert" in hh["fn"].split("::")[-1] or hh["fn"].endswith("external_variant"):
            continue
        for n, _ in nodes(hh["body"], "match"):
            if n.get("src") != "normal":
                continue
            sc = c.ty(n.get("scty"))
            tuple_sc = n["scrut"].get("k") == "tup"
            if "TypeEntryDetails" not in sc and not (tuple_sc and any("TypeEntryDetails" in c.ty(e.get("ty")) for e in n["scrut"]["es"] if isinstance(e, dict))):
                continue
            variants = set()
            for arm in n["arms"]:
                for x, _ in walk(arm["pat"]):
                    if x.get("path") and "TypeEntryDetails::" in x["path"]:
                        variants.add(x["path"].split("::")[-1])
            if "Option" not in variants:
                continue
            n_tables += 1
            ok = "Box" in variants
            chooses_attrs = any("skip_serializing_if" in q[0] or q[0] == "default" for q in quotes_in(facts, n))
            if not chooses_attrs:
                # other tables (layout of nested options, child enumeration, flatten checks): reported as information only
                if not ok:
                    rep.info("D3: table in %s has an Option arm and no Box arm (not an attribute table; not claimed)" % hh["fn"])
                continue
            key = "%s#%d" % (hh["fn"], sum(1 for o in rep.obligations if o["key"].startswith("C03.D3/option-table-has-box-arm:%s#" % hh["fn"])))
            rep.ob("C03.D3", "option-table-has-box-arm:" + key, ok,
                   "attribute table over %s has Option and Box arms" % sorted(variants)[:6] if ok else
                   "%s chooses serde attributes by Option(_) but has no Box(_) arm: after cycle breaking an optional member can be Box<Option<T>> and falls into the catch-all (only #[serde(default)], so `null` is serialised for a non-nullable member)" % hh["fn"], n.get("sp"))
    rep.floor("C03.D3", "post-cycle-breaking tables with an Option arm", n_tables, 5)
    rep.floor("C03.D3", "attribute tables with an Option arm", sum(1 for o in rep.obligations if o["key"].startswith("C03.D3/option-table-has-box-arm:")), 1)

    # ------------------------------------------------------------ D4 enum representation
    ems = emit.find_emitters(facts, c)
    if rep.floor("C03.D4", "enum emitter", 1 if "enum" in ems else 0, 1):
        ee = ems["enum"]
        mt = [n for n, _ in nodes(ee.h["body"], "match") if n.get("src") == "normal" and "EnumTagType" in c.ty(n.get("scty"))]
        # the table that chooses the representation attribute is the one whose arms push serde templates
        mt = [n for n in mt if any(quotes_in(facts, a["body"]) for a in n["arms"])] or mt
        if rep.floor("C03.D4", "match on the tag type", len(mt), 1):
            got = {}
            cne = ee.canon()
            from lib import table_is_plain
            table_is_plain(rep, "C03.D4", "enum-representation", mt[0])
            for arm in mt[0]["arms"]:
                name = pat_top_variants(arm["pat"])[0].split("::")[-1]
                qs = quotes_in(facts, arm["body"])
                got[name] = ([re.sub(r"#\w+", "#x", q[0]) for q in qs], [[cne.r(a) for a in q[1].get("args", []) if a.get("hole")] for q in qs])
            ok = got.get("External", ([1],))[0] == []
            rep.ob("C03.D4", "tag:External", ok, "External => no representation attribute")
            g = got.get("Internal", ([], []))
            ok = g[0] == ["tag=#x"] and len(g[1]) == 1 and len(g[1][0]) == 1 and g[1][0][0].endswith(".tag_type~Internal.tag")
            rep.ob("C03.D4", "tag:Internal", ok, "Internal{tag} => tag = <that tag>" if ok else "Internal => %s" % (g,))
            g = got.get("Adjacent", ([], []))
            ok = g[0] == ["tag=#x", "content=#x"] and len(g[1]) == 2 and all(len(x) == 1 for x in g[1]) and g[1][0][0].endswith(".tag_type~Adjacent.tag") and g[1][1][0].endswith(".tag_type~Adjacent.content")
            rep.ob("C03.D4", "tag:Adjacent", ok, "Adjacent{tag, content} => tag = <tag>, content = <content> (each hole bound to its own field)" if ok else "Adjacent => %s" % (g,))
            g = got.get("Untagged", ([], []))
            rep.ob("C03.D4", "tag:Untagged", g[0] == ["untagged"], "Untagged => untagged")
            rep.ob("C03.D4", "tag-scrutinee", bool(re.fullmatch(r"\S*~TypeEntryEnum\.tag_type", cne.r(mt[0]["scrut"]))), "match on the entry's tag_type")
        serde_t = [t for t in ee.templates if t.bound == "serde"]
        rep.ob("C03.D4", "enum-attrs-interpolated", bool(serde_t) and bool(ee.used_as_hole(ee.actual.get("serde", "serde"))) and re.sub(r"#\w+", "#x", serde_t[0].text.replace(" ", "")) == "#[serde(#(#x),*)]", "#[serde(#(#serde_options),*)] is attached to the enum")


def run_d5(facts, rep):
    c = facts.impl
    ti = [h for h in c.user_fns() if ends(h["fn"], "TypeEntry::type_ident")]
    if not rep.floor("C03.D5", "type renderer", len(ti), 1):
        return
    n_ = 0
    for m, _ in nodes(ti[0]["body"], "match"):
        if m.get("src") != "normal" or "TypeEntryDetails" not in c.ty(m.get("scty")):
            continue
        for a in m["arms"]:
            if "Set" not in [v.split("::")[-1] for v in pat_top_variants(a["pat"])]:
                continue
            n_ += 1
            ts = [q[0] for q in quotes_in(facts, a["body"])]
            ok = bool(ts) and all(re.fullmatch(r"(::std::vec::)?Vec<#\w+>", t) for t in ts)
            rep.ob("C03.D5", "set-keeps-order", ok, "Set(T) is rendered `%s`" % ts[0] if ok else
                   "a uniqueItems array is rendered as %s: a sorted or hashed set reorders the elements of a JSON array, so the instance does not round-trip to an equal value" % ts, a.get("sp"))
    rep.floor("C03.D5", "Set arm of the type renderer", n_, 1)


# ---------------------------------------------------------------- D6 a variant's wire name is the schema's own string
CASE_CALLS = re.compile(r"\b(sanitize|to_case|to_pascal_case|to_snake_case|to_upper_camel_case|to_lowercase|to_uppercase|to_ascii_lowercase|to_ascii_uppercase|recase)\(")


def run_d6(facts, rep):
    """`Variant::new(raw_name, ..)`: raw_name is what serde compares with the tag / key on the wire (it becomes the rename).
    Wherever the enum is tagged (the name is data of the instance), the argument must be the schema's constant string as it
    stands; a parameter is followed to the arguments of the callers."""
    from lib import Canon, param_sources, scope_binding, strip_refs, _anc_index
    c = facts.impl
    n = 0
    for h in c.user_fns():
        body_txt = None
        cn = None
        for x, anc in walk(h["body"]):
            if not (x.get("k") == "call" and (x.get("fn") or "").endswith("Variant::new") and x.get("args")):
                continue
            if any(y.get("k") == "path" and str(y.get("path", "")).endswith("EnumTagType::Untagged") for y, _ in walk(h["body"])):
                continue  # untagged: variant names never reach the wire
            n += 1
            cn = cn or Canon(c, h, 4)
            texts = [cn.r(x["args"][0])]
            # follow parameters to the callers' arguments
            for y, _ in walk(x["args"][0]):
                if y.get("k") == "path" and y.get("res") == "local":
                    b = scope_binding(h, _anc_index(h).get(id(y), ()), y["path"], y)
                    if b and b[0] == "param":
                        for hh, arg in param_sources(c, h["fn"], b[1]):
                            texts.append(Canon(c, hh, 4).r(arg))
            bad = [t for t in texts if CASE_CALLS.search(t)]
            key = "%s#%d" % (h["fn"], sum(1 for o in rep.obligations if o["key"].startswith("C03.D6/variant-wire-name-is-raw:%s#" % h["fn"])))
            rep.ob("C03.D6", "variant-wire-name-is-raw:" + key, not bad, "the variant's wire name is the schema's string as written" if not bad else
                   "the variant's wire name is `%s`: it has been through a case conversion / sanitiser, so the tag value or key on the wire no longer matches and valid instances are rejected" % bad[0][:140], x.get("sp"))
    rep.floor("C03.D6", "tagged-variant constructions", n, 6)


# ---------------------------------------------------------------- D7 an absent array keyword constrains nothing
def run_d7(facts, rep):
    """In the array conversion a position / item whose schema is not stated (no `items`, no `additionalItems`) is converted
    from a stand-in schema. JSON Schema says an absent keyword admits anything: the stand-in must be `true`, never `false`
    (which would make the position uninhabited and reject every instance)."""
    from lib import Canon
    c = facts.impl
    n_true = 0
    for h in c.user_fns():
        if not h["fn"].endswith("TypeSpace::convert_array"):
            continue
        cn = Canon(c, h, 5)
        for n, anc in walk(h["body"]):
            if n.get("k") == "mcall" and n["name"].startswith("id_for_schema") and len(n.get("args", [])) >= 2:
                t = cn.r(n["args"][1])
                if "Schema::Bool(" not in t:
                    continue
                key = "absent-keyword-means-any#%d" % (sum(1 for o in rep.obligations if o["key"].startswith("C03.D7/absent-keyword-means-any#")))
                ok = "Schema::Bool(false)" not in t
                if ok:
                    n_true += 1
                rep.ob("C03.D7", key, ok, "the stand-in for an unstated item schema is `true`" if ok else
                       "a tuple position / item whose schema is not stated is converted from `%s`: `false` admits nothing, so the position gets an uninhabited type and every valid instance is rejected" % t[:100], n.get("sp"))
    rep.floor("C03.D7", "stand-in schemas for unstated array items", n_true, 2)
