"""C13 — x-rust-type substitution follows the documented crate/version policy.

The property is itself a decision table; the checker carries it as a specification and
compares the table extracted from the source (DESIGN.md §6/C13).
"""
import re
from lib import (strip_refs, walk, nodes, ends, Cfg, src, psrc, outcome, is_ret_none, top_stmts, contains_node, has_return,
                 pat_top_variants, short, calls_in, block_last)

EXPLANATION = (
    "Decides the policy by evaluating convert_rust_extension over the documented combinations (and, as explanations, as a decision table read from the source), not the behaviour on every schema nor semver's own matching: (D1-cut) in the CFG of the "
    "function that matches on CrateVers, the construction of the substituted native type is unreachable once the blocks that test "
    "the crate-version or unknown-crate policy are removed; (D1-arms) under 'crate configured' Any continues, Version continues "
    "only under a guard calling VersionReq::matches (not negated), every other arm returns None; under 'not configured' Allow "
    "continues, Generate and Deny return None; the two tables hang off the lookup of the extension's crate name in settings.crates; "
    "(D2) each malformed-extension test (deserialisation, requirement parse, missing `::`, crate ident mismatch after '-'→'_', "
    "unparsable path) returns None before the policy; (W1) the schema-object dispatcher consults the extension first and returns on "
    "Some; (D3) CrateVers::parse maps \"!\"→Never, \"*\"→Any, else a semver version; (W2) a rename replaces the first path segment "
    "and parameters are converted by one in-order traversal and passed to the native constructor; (D4) a native whose name differs "
    "from a required definition name is wrapped in a newtype; (W3) the key under which a crate is stored in settings.crates and "
    "the key it is looked up by undergo the same transformation of the crate name (none); (W4) the IR types inside the key of "
    "the structural dedup map order their values by the data their equality compares, so that two uses of one external generic "
    "type with different parameters stay distinct (shared with C16.W6); "
    "(D2, verbatim) semver is handed the extension's version string as written; (D4, equality) name_match compares the "
    "definition name for equality with the last path segment."
    " (D1, evaluated) convert_rust_extension is evaluated over the fact tree (rules/minirust.py) for every combination of crate configuration {absent, *, !, matching version, non-matching version} x unknown-crate policy x malformed member {requirement, path, path prefix, no separator, extension}, with rename and two parameters: it substitutes exactly in the documented cases, the path's first segment becomes the rename's identifier, parameters are converted in order, and semver receives the `version` string as written. When that evaluation is possible the shape-based D1/D2/W2 rules below are advisory."
)
ASSUMPTIONS = ["semver::VersionReq::matches implements semver compatibility", "serde_json::from_value rejects extensions missing required members"]


def find_policy_fn(c):
    out = []
    for h in c.user_fns():
        for n, _ in nodes(h["body"], "match"):
            if n.get("src") == "normal" and "CrateVers" in c.ty(n.get("scty")):
                out.append((h, n))
    return out


def native_ctor_fns(c):
    """fns whose body builds a TypeEntryNative struct literal with parameters taken from an argument."""
    out = {}
    for h in c.user_fns():
        for n, _ in nodes(h["body"], "struct"):
            if n["path"].endswith("TypeEntryNative"):
                fields = dict((f[0], f[1]) for f in n["fields"])
                p = fields.get("parameters")
                from_arg = p is not None and any(x.get("k") == "path" and x.get("res") == "local" for x, _ in walk(p))
                out[h["fn"]] = from_arg
    return out


class Advisory:
    """When the policy was decided by evaluation, the shape-based rules for the same clauses only explain: what they
    confirm is recorded, what they cannot find or match in a rewritten function is not an alarm."""

    def __init__(self, rep):
        self.rep = rep

    def ob(self, rule, key, ok, detail="", where=None, nontrivial=True):
        if ok:
            return self.rep.ob(rule, key, ok, detail, where, nontrivial)
        self.rep.info("advisory (clause decided by evaluation): %s/%s: %s" % (rule, key, detail[:160]))
        return False

    def floor(self, rule, what, count, minimum):
        if count >= minimum:
            return self.rep.floor(rule, what, count, minimum)
        self.rep.info("advisory (clause decided by evaluation): %s anchor `%s` not found (%d < %d)" % (rule, what, count, minimum))
        return False


def run_policy_eval(facts, rep):
    """The whole policy of `convert_rust_extension`, decided by evaluating the function (rules/minirust.py, over the fact
    tree, with the extension, the settings and semver's answer as inputs) for every combination of crate configuration x
    unknown-crate policy x requirement outcome x malformed member, plus rename and parameter order. -> True if evaluable."""
    import minirust as mr
    c = facts.impl
    hs = [h for h in c.user_fns() if h["fn"].endswith("TypeSpace::convert_rust_extension")]
    if not hs:
        return False
    h = hs[0]
    seen_req = []

    def run(cfg, policy, req_ok, malformed=None, rename=None, params=0):
        ext = ("struct", "RustExtension", {"crate_name": "ext-lib", "version": "1.0" if malformed != "version" else "bad",
                                           "path": {"path": "other::Thing", "path-prefix": "ext_lib_extra::Thing", "path-nosep": "ext_lib", "path-unparsable": "ext_lib::Thi ng", "path-repeats": "ext_lib::ext_lib::my_ext_lib::Thing"}.get(malformed, "ext_lib::Thing"), "parameters": [("json", "p%d" % i_) for i_ in range(params)]})
        crates = {}
        if cfg is not None:
            crates["ext-lib"] = ("struct", "CrateSpec", {"version": cfg, "rename": mr.some(rename) if rename else mr.NONE})
        me = ("struct", "TypeSpace", {"settings": ("struct", "TypeSpaceSettings", {"crates": ("map", crates), "unknown_crates": ("ctor", policy, [])})})
        schema = ("struct", "SchemaObject", {"extensions": ("map", {"x-rust-type": ("json", "ext")})})

        def get(m, recv, k):
            if isinstance(recv, tuple) and recv and recv[0] == "map":
                return mr.some(recv[1][k]) if k in recv[1] else mr.NONE
            raise mr.Unknown("get on %r" % (recv,))

        def parse(m, s_):
            seen_req.append(s_)
            return ("Ok", ("req", s_)) if s_ != "bad" else ("Err", "e")
        hooks = {"get": get, "from_value": lambda m, v: ("Ok", ext) if malformed != "json" else ("Err", "e"), "parse": parse,
                 "parse_str": lambda m, s_: ("Ok", "tp") if isinstance(s_, str) and " " not in s_ else ("Err", "e"),
                 "matches": lambda m, recv, v: req_ok if isinstance(recv, tuple) and recv and recv[0] == "req" else (_ for _ in ()).throw(mr.Unknown("matches on %r" % (recv,))),
                 "id_for_schema": lambda m, me_, nm_, sch: ("Ok", ("tup", [("id", sch), mr.NONE])),
                 "new_native_params": lambda m, p_, ids: ("native", p_, ids), "to_string_pretty": lambda m, *a: ("Ok", "s"),
                 "contains_key": lambda m, recv, k: k in recv[1],
                 "__format_string": lambda sp: (lambda t: (re.match(r'\s*"((?:[^"\\]|\\.)*)"', t["text"]).group(1) if t and re.match(r'\s*"((?:[^"\\]|\\.)*)"', t["text"]) else None))(facts.template_at(sp))}
        m = mr.Machine(c, hooks=hooks)
        return m.run_fn(h, [me, schema])
    ANY, NEVER, VER = ("ctor", "Any", []), ("ctor", "Never", []), ("ctor", "Version", [("ver", "1.2.3")])
    bad = None
    n = 0
    try:
        for cfg_name, cfg, req_ok in (("absent", None, True), ("`*`", ANY, False), ("`!`", NEVER, True), ("a version that satisfies the requirement", VER, True), ("a version that does not satisfy the requirement", VER, False)):
            for policy in ("Generate", "Allow", "Deny"):
                for malformed in (None, "version", "path", "path-prefix", "path-nosep", "path-unparsable", "json"):
                    r_ = run(cfg, policy, req_ok, malformed)
                    n += 1
                    subst = isinstance(r_, tuple) and r_ and r_[0] == "Some"
                    want = malformed is None and (cfg is ANY or (cfg is VER and req_ok) or (cfg is None and policy == "Allow"))
                    if subst != want:
                        bad = "crate configured as %s, unknown-crate policy %s%s: the schema is %s, the documented outcome is %s" % (
                            cfg_name, policy, {None: "", "version": ", unparsable requirement", "path": ", path not starting with the crate", "path-prefix": ", path whose first segment merely begins with the crate's name", "path-nosep": ", path without `::`", "path-unparsable": ", path that is not a type path", "json": ", malformed extension"}[malformed],
                            "replaced by the external type" if subst else "generated", "substitution" if want else "generation from the schema")
                        break
                if bad:
                    break
            if bad:
                break
        if not bad:
            r_ = run(ANY, "Generate", True, rename="new-name", params=2)
            n += 1
            if not (isinstance(r_, tuple) and r_[0] == "Some" and isinstance(r_[1], tuple) and r_[1][0] == "native"):
                bad = "a configured rename with two parameters does not substitute"
            else:
                path, ids = r_[1][1], r_[1][2]
                if path != "::new_name::Thing":
                    bad = "with the crate renamed to `new-name` the external path is `%s` (documented: the first segment is replaced by the rename's identifier, `::new_name::Thing`)" % path
                elif ids != [("id", ("json", "p0")), ("id", ("json", "p1"))]:
                    bad = "the declared type parameters are not converted and applied in order (got %r)" % (ids,)
            if not bad:
                # only the *first* segment is the crate: a later segment that looks like it is left alone
                r_ = run(ANY, "Generate", True, malformed="path-repeats", rename="new-name")
                n += 1
                got_ = r_[1][1] if isinstance(r_, tuple) and r_[0] == "Some" and isinstance(r_[1], tuple) else r_
                if got_ != "::new_name::ext_lib::my_ext_lib::Thing":
                    bad = "with the crate renamed to `new-name` the path `ext_lib::ext_lib::my_ext_lib::Thing` becomes `%s` (documented: only the first segment is replaced, `::new_name::ext_lib::my_ext_lib::Thing`)" % (got_,)
            r_ = run(ANY, "Generate", True)
            if not bad and not (isinstance(r_, tuple) and r_[0] == "Some" and r_[1][1] == "::ext_lib::Thing"):
                bad = "without a rename the external path is `%s` (documented `::ext_lib::Thing`)" % (r_[1][1] if isinstance(r_, tuple) and r_[0] == "Some" else r_,)
            if not bad and any(x not in ("1.0", "bad") for x in seen_req):
                bad = "the requirement handed to semver is `%s`, not the extension's `version` as written" % [x for x in seen_req if x not in ("1.0", "bad")][0]
    except mr.Unknown as e_:
        rep.info("C13 policy not evaluable (%s): the shape-based rules decide" % e_)
        return False
    rep.ob("C13.D1", "policy-as-documented", bad is None, "evaluated on %d combinations of crate configuration x unknown-crate policy x requirement outcome x malformed member, plus rename and parameters" % n if bad is None else
           "the x-rust-type policy departs from the documentation: %s" % bad, c.fns[h["fn"]].get("sp"))
    return True


def run(facts, rep, tier):
    c = facts.impl
    run_w34(facts, rep)
    evaluated = run_policy_eval(facts, rep)
    R = Advisory(rep) if evaluated else rep
    pf = find_policy_fn(c)
    if not R.floor("C13.D1", "fn containing a match on CrateVers", len(pf), 1):
        return
    h, vers_match = pf[0]
    F = h["fn"]
    natives = native_ctor_fns(c)
    effects = [n for n, _ in walk(h["body"]) if n.get("k") in ("call", "mcall") and n.get("fn") in natives]
    if not R.floor("C13.D1", "substitution effect (native constructor call) in " + F, len(effects), 1):
        return
    effect = effects[0]
    rep.sample({"rule": "C13.D1", "policy_fn": F, "effect": src(effect)[:120], "at": effect.get("sp")})

    # ------------------------------------------------------------ D1 cut on the MIR CFG
    m = c.mir.get(F)
    if R.floor("C13.D1", "MIR body of " + F, 1 if m else 0, 1):
        cfg = Cfg(m)
        policy_blocks = set()
        for b in m["blocks"]:
            for st in b["stmts"]:
                if st.get("k") == "disc" and ("CrateVers" in st.get("ty", "") or "UnknownPolicy" in st.get("ty", "")):
                    policy_blocks.add(b["bb"])
            t = b["term"]
            if t["k"] == "call" and "UnknownPolicy" in t["fn"] and t["fn"].endswith("::eq"):
                policy_blocks.add(b["bb"])
        eff_blocks = [bb for bb, t in cfg.calls() if t["fn"] == effect["fn"]]
        R.floor("C13.D1", "policy test blocks in the CFG", len(policy_blocks), 2)
        reach_all = cfg.reachable()
        reach_cut = cfg.reachable(removed=policy_blocks)
        for eb in eff_blocks:
            R.ob("C13.D1", "cut:effect-needs-policy-test", eb in reach_all and eb not in reach_cut,
                   "native construction (bb%d) is %s once the %d policy-test blocks are removed" % (eb, "unreachable" if eb not in reach_cut else "still REACHABLE", len(policy_blocks)), effect.get("sp"))
        R.floor("C13.D1", "effect call blocks", len(eff_blocks), 1)

    # ------------------------------------------------------------ D1 arms: configured crate
    ext_bind = {}
    for n, _ in nodes(h["body"], "let"):
        for p, _ in walk(n["pat"]):
            if p.get("k") == "struct" and p["path"].endswith("RustExtension"):
                for fname, fp in p["fields"]:
                    if fp.get("k") == "bind":
                        ext_bind[fname] = fp["name"]
    R.floor("C13.D2", "destructured extension members", len(ext_bind), 4)

    seen = {}
    for arm in vers_match["arms"]:
        tops = pat_top_variants(arm["pat"])
        oc = outcome(arm["body"])
        g = arm.get("guard")
        for tv in tops:
            name = tv.split("::")[-1]
            seen[name] = (oc, g)
            if name == "Any":
                R.ob("C13.D1", "arm:configured/Any", oc in ("unit", "value") and g is None, "Any => %s%s" % (oc, " (guarded)" if g else ""), arm.get("sp"))
            elif name == "Version":
                gcalls = calls_in(g) if g else []
                has_matches = any(x.endswith("VersionReq::matches") for x in gcalls)
                negated = bool(g) and g.get("k") == "un" and g.get("op") == "Not"
                uses_req = bool(g) and any(x.get("k") == "path" and x.get("res") == "local" for x, _ in walk(g))
                if oc in ("unit", "value"):
                    R.ob("C13.D1", "arm:configured/Version", has_matches and not negated and uses_req,
                           "Version continues under guard `%s`" % src(g) if g else "Version continues with NO version-requirement guard", arm.get("sp"))
                else:
                    R.ob("C13.D1", "arm:configured/Version-unguarded-rejects", True, "Version (this arm) => %s" % oc, arm.get("sp"))
            elif name in ("Never", "_"):
                R.ob("C13.D1", "arm:configured/%s" % name, oc == "ret-none", "%s => %s" % (name, oc), arm.get("sp"))
            else:
                R.ob("C13.D1", "arm:configured/%s" % name, oc == "ret-none", "unexpected arm %s => %s (only Any and matching Version may substitute)" % (name, oc), arm.get("sp"))
    R.ob("C13.D1", "arm:configured/Version-exists", "Version" in seen and seen["Version"][0] in ("unit", "value"),
           "a configured version that satisfies the requirement substitutes" if "Version" in seen else "no arm lets a matching Version substitute", vers_match.get("sp"))
    R.ob("C13.D1", "arm:configured/Any-exists", "Any" in seen, "`*` substitutes" if "Any" in seen else "no arm for CrateVers::Any", vers_match.get("sp"))
    never_rejects = ("Never" in seen and seen["Never"][0] == "ret-none") or ("_" in seen and seen["_"][0] == "ret-none")
    R.ob("C13.D1", "arm:configured/Never-rejects", never_rejects, "`!` generates from the schema", vers_match.get("sp"))
    # scrutinee is the looked-up crate's version
    R.ob("C13.D1", "scrutinee:configured", "version" in src(vers_match["scrut"]), "match on `%s`" % src(vers_match["scrut"]), vers_match.get("sp"))

    # the lookup that selects between the two tables
    lookup_if = None
    for n, anc in nodes(h["body"], "if"):
        cond = n["cond"]
        if cond.get("k") == "letx" and contains_node(n["then"], vers_match):
            lookup_if = n
    if R.floor("C13.D1", "if-let around the configured-crate table", 1 if lookup_if else 0, 1):
        init = lookup_if["cond"]["init"]
        s = src(init)
        key_ok = "crates" in s and ".get(" in s and ext_bind.get("crate_name", "\0") in s
        R.ob("C13.D1", "lookup:settings.crates[extension crate]", key_ok, "lookup is `%s`" % s, lookup_if.get("sp"))
        pol = [n for n, _ in nodes(lookup_if.get("else") or {}, "match") if "UnknownPolicy" in c.ty(n.get("scty"))]
        if R.floor("C13.D1", "unknown-crate policy match in the not-configured branch", len(pol), 1):
            spec = {"Allow": ("value", "unit"), "Generate": ("ret-none",), "Deny": ("ret-none",)}
            got = {}
            from lib import table_is_plain
            table_is_plain(rep, "C13.D1", "unknown-crate-policy", pol[0])
            for arm in pol[0]["arms"]:
                for tv in pat_top_variants(arm["pat"]):
                    got[tv.split("::")[-1]] = (outcome(arm["body"]), arm)
            for name, allowed in spec.items():
                if name in got:
                    oc, arm = got[name]
                    R.ob("C13.D1", "arm:unconfigured/%s" % name, oc in allowed and arm.get("guard") is None, "%s => %s" % (name, oc), arm.get("sp"))
                elif "_" in got:
                    oc, arm = got["_"]
                    R.ob("C13.D1", "arm:unconfigured/%s" % name, oc in allowed, "%s (wildcard) => %s" % (name, oc), arm.get("sp"))
                else:
                    R.ob("C13.D1", "arm:unconfigured/%s" % name, False, "no arm for %s" % name, pol[0].get("sp"))
            R.ob("C13.D1", "scrutinee:unconfigured", "unknown_crates" in src(pol[0]["scrut"]), "match on `%s`" % src(pol[0]["scrut"]), pol[0].get("sp"))

    # ------------------------------------------------------------ D2 malformed => None before the policy
    stmts = top_stmts(h)
    policy_stmt_ix = None
    for i, st in enumerate(stmts):
        if contains_node(st, vers_match):
            policy_stmt_ix = i
            break
    pre = stmts[:policy_stmt_ix] if policy_stmt_ix is not None else []

    def find_pre(pred):
        for st in pre:
            for n, _ in walk(st):
                if pred(n):
                    return st, n
        return None, None

    # (a) deserialisation failure
    st, n = find_pre(lambda n: n.get("k") == "let" and n.get("else") is not None and "from_value" in src(n.get("init")))
    R.ob("C13.D2", "malformed:deserialize", st is not None and outcome(n["else"]) == "ret-none",
           "let-else on %s returns None" % src(n["init"])[:60] if st else "no let-else on serde_json::from_value before the policy", (n or {}).get("sp"))
    # (b) requirement parse failure
    st, n = find_pre(lambda n: n.get("k") == "let" and "VersionReq::parse" in src(n.get("init")) and (n.get("else") is not None or (n.get("init") or {}).get("k") == "match"))
    if st is not None and n.get("else") is None:
        # `let req = match VersionReq::parse(..) { Ok(r) => r, Err(_) => { ..; return None } }`
        errs_ = [a_ for a_ in n["init"]["arms"] if psrc(a_["pat"]).startswith("Err(") or psrc(a_["pat"]) == "_"]
        ok = bool(errs_) and all(outcome(a_["body"]) == "ret-none" for a_ in errs_)
    else:
        ok = st is not None and outcome(n["else"]) == "ret-none"
    ok = ok and ext_bind.get("version", "\0") in src(n["init"])
    R.ob("C13.D2", "malformed:requirement", ok, "let-else on %s returns None" % src(n["init"])[:60] if st else "no let-else on VersionReq::parse(version) before the policy", (n or {}).get("sp"))
    if st is not None:
        from lib import Canon as _Canon
        cnv = _Canon(c, h, 4)
        pa = [x for x, _ in walk(n["init"]) if x.get("k") == "call" and x.get("fn", "").endswith("VersionReq::parse") and x.get("args")]
        txt = cnv.r(strip_refs(pa[0]["args"][0])) if pa else ""
        okv = re.fullmatch(r"from_value\(.*\)~Ok~RustExtension\.version", txt) is not None
        R.ob("C13.D2", "requirement-parsed-verbatim", okv, "VersionReq::parse is given the extension's `version` member as written" if okv else
               "the requirement handed to semver is `%s`, not the extension's `version` string as written: a requirement semver accepts can be rejected (or changed) by the rewriting, so a crate whose configured version satisfies it is not substituted" % txt[:120], (pa[0] if pa else n).get("sp"))
    # (c) missing `::`
    st, n = find_pre(lambda n: n.get("k") == "match" and n.get("src") == "try" and '.find("::")' in src(n))
    R.ob("C13.D2", "malformed:no-path-separator", st is not None and ext_bind.get("path", "\0") in src(n), "`%s`" % src(n)[:50] if st else "no `path.find(\"::\")?` before the policy", (n or {}).get("sp"))
    # (d) crate ident != first segment
    st, n = find_pre(lambda n: n.get("k") == "if" and n["cond"].get("k") == "bin" and n["cond"]["op"] == "Ne" and outcome(n["then"]) == "ret-none" and "[" in src(n["cond"]))
    if st is not None:
        cond = src(n["cond"])
        # the compared identifier is the crate name with '-' -> '_'
        ident_side = n["cond"]["l"] if "[" not in src(n["cond"]["l"]) else n["cond"]["r"]
        ident_name = src(ident_side)
        from lib import binding_let
        bl_ = binding_let(h, ident_side)
        inits = [src(bl_.get("init"))] if bl_ is not None and bl_.get("init") is not None else []
        norm_ok = any(ext_bind.get("crate_name", "\0") in s and ".replace('-', \"_\")" in s for s in inits)
        R.ob("C13.D2", "malformed:crate-ident-mismatch", norm_ok and ext_bind.get("path", "\0") in cond, "`if %s { return None }` with %s = %s" % (cond, ident_name, inits[:1]), n.get("sp"))
    else:
        R.ob("C13.D2", "malformed:crate-ident-mismatch", False, "no `if crate_ident != path[..sep] { return None }` before the policy")
    # (e) the path must be a Rust path (otherwise rendering panics in type_ident)
    st, n = find_pre(lambda n: n.get("k") == "if" and "parse_str" in src(n["cond"]) and outcome(n["then"]) == "ret-none")
    ok = st is not None and ext_bind.get("path", "\0") in src(n["cond"])
    R.ob("C13.D2", "malformed:unparsable-path", ok,
           "`if %s { return None }`" % src(n["cond"])[:70] if st else "the extension's path is never checked to be a Rust path before it is substituted (render-time panic in type_ident)", (n or {}).get("sp") or h.get("sp"))

    # ------------------------------------------------------------ W1 consulted first
    callers = [(hh, n, anc) for hh in c.user_fns() for n, anc in walk(hh["body"]) if n.get("k") in ("call", "mcall") and n.get("fn") == F]
    rep.floor("C13.W1", "callers of " + F, len(callers), 1)
    for (hh, call, anc) in callers:
        st0 = top_stmts(hh)[0] if top_stmts(hh) else None
        first = st0 is not None and contains_node(st0, call)
        ifn = st0 if (st0 or {}).get("k") == "if" else None
        ok = bool(first and ifn and ifn["cond"].get("k") == "letx" and contains_node(ifn["cond"], call) and psrc(ifn["cond"]["pat"]).startswith("Some(") and outcome(ifn["then"]) == "ret")
        rep.ob("C13.W1", "consulted-first:" + hh["fn"], ok,
               "first statement of %s is `if let Some(..) = %s { return .. }`" % (hh["fn"], short(F)) if ok else "the extension is not consulted first / its Some branch does not return in %s" % hh["fn"], call.get("sp"))
        if ok:
            others = [x for x in calls_in(ifn["then"]) if "::convert_" in x and x != F]
            rep.ob("C13.W1", "structure-not-generated:" + hh["fn"], not others, "no convert_* call on the Some branch" if not others else "Some branch still converts the schema: %s" % others[:2], call.get("sp"))

    # ------------------------------------------------------------ D3 CrateVers::parse
    ph = [hh for hh in c.user_fns() if ends(hh["fn"], "CrateVers::parse")]
    if rep.floor("C13.D3", "CrateVers::parse", len(ph), 1):
        body = ph[0]["body"]
        table = {}
        for n, _ in nodes(body, "if"):
            cond = n["cond"]
            if cond.get("k") == "bin" and cond["op"] == "Eq":
                lits = [x["v"].get("str") for x, _ in walk(cond) if x.get("k") == "lit" and "str" in x["v"]]
                ctors = [short(x.get("path") or x.get("fn") or "") for x, _ in walk(n["then"]) if (x.get("k") == "path" and x.get("res") == "ctor") or (x.get("k") == "call" and x.get("res") == "ctor")]
                for l in lits:
                    table[l] = [x for x in ctors if x.startswith("CrateVers::")]
        rep.ob("C13.D3", 'parse:"!"', table.get("!") == ["CrateVers::Never"], '"!" => %s' % table.get("!"), ph[0]["body"].get("sp"))
        rep.ob("C13.D3", 'parse:"*"', table.get("*") == ["CrateVers::Any"], '"*" => %s' % table.get("*"))
        s = src(body)
        rep.ob("C13.D3", "parse:else-semver", "CrateVers::Version(" in s and "Version::parse" in s, "otherwise Version(semver::Version::parse(s))")

    # ------------------------------------------------------------ W2 rename + parameters
    if lookup_if is not None:
        ren = None
        for n, _ in nodes(lookup_if["then"], "if"):
            if n["cond"].get("k") == "letx" and "rename" in src(n["cond"]["init"]):
                ren = n
        if R.floor("C13.W2", "rename branch", 1 if ren else 0, 1):
            b = [x["name"] for x, _ in walk(ren["cond"]["pat"]) if x.get("k") == "bind"]
            fm = [x for x, _ in walk(ren["then"]) if x.get("k") == "macro" and x["name"] == "format"]
            ok = False
            detail = "rename branch does not format `<rename>` + path tail"
            if fm and b:
                args = fm[0]["args"]
                a0 = src(args[0]) if args else ""
                a1 = src(args[1]) if len(args) > 1 else ""
                ok = len(args) == 2 and b[0] in a0 and "[" in a1 and ext_bind.get("path", "\0") in a1 and ".." in a1 or (len(args) == 2 and b[0] in a0 and "[" in a1)
                detail = "format!(%s, %s)" % (a0, a1)
            R.ob("C13.W2", "rename-replaces-first-segment", ok, detail, ren.get("sp"))
            els = block_last(ren.get("else"))
            R.ob("C13.W2", "no-rename-keeps-path", isinstance(els, dict) and src(els) == ext_bind.get("path"), "else => %s" % src(els), ren.get("sp"))
    # parameters: one in-order traversal feeding the constructor
    pb = ext_bind.get("parameters")
    eff_args = effect.get("args", [])
    pl = None
    for a in eff_args:
        for x, _ in walk(a):
            if x.get("k") == "path" and x.get("res") == "local":
                from lib import binding_let
                n = binding_let(h, x)
                if n is not None and n["pat"].get("k") == "bind" and pb and pb in src(n.get("init")):
                    pl = n
    if R.floor("C13.W2", "parameter conversion feeding the native constructor", 1 if pl else 0, 1):
        chain = [x["name"] for x, _ in walk(pl["init"]) if x.get("k") == "mcall" and not contains_closure_ancestor(pl["init"], x)]
        bad = [m for m in chain if m in ("rev", "sort", "sort_by", "skip", "take", "filter", "step_by", "dedup")]
        conv = any("id_for_schema" in x for x in calls_in(pl["init"]))
        R.ob("C13.W2", "parameters-in-order", not bad and conv and "iter" in chain, "parameters.%s (converted by id_for_schema: %s)" % (".".join(reversed(chain)), conv), pl.get("sp"))
    a0 = src(eff_args[0]) if eff_args else ""
    R.ob("C13.W2", "path-is-what-is-substituted", "format!" in a0 and ext_bind.get("path", "\0") in a0 or ext_bind.get("path", "\0") in a0, "native name = %s" % a0, effect.get("sp"))
    R.ob("C13.W2", "constructor-takes-parameters", natives.get(effect["fn"]) is True, "%s stores its parameter argument" % short(effect["fn"]))

    # ------------------------------------------------------------ D4 name mismatch => transparent newtype
    nm = [(hh, n) for hh in c.user_fns() for n, _ in nodes(hh["body"], "match") for a in n["arms"]
          if any(v.endswith("TypeEntryDetails::Native") for v in pat_top_variants(a["pat"])) and a.get("guard") is not None and any(x.endswith("name_match") for x in calls_in(a["guard"]))]
    if rep.floor("C13.D4", "Native arm guarded by name_match", len(nm), 1):
        hh, mt = nm[0]
        arm = [a for a in mt["arms"] if a.get("guard") is not None and any(x.endswith("name_match") for x in calls_in(a["guard"]))][0]
        rep.ob("C13.D4", "name-match-uses-native", block_last(arm["body"]).get("k") == "path", "matching native is used directly: %s" % src(arm["body"])[:40], arm.get("sp"))
        wild = [a for a in mt["arms"] if pat_top_variants(a["pat"]) == ["_"]]
        ok = bool(wild) and any(x.endswith("TypeEntryNewtype::from_metadata") for x in calls_in(wild[0]["body"]))
        # the predicate itself: equality with the last path segment, not a substring test
        nmf = [x for x in c.user_fns() if x["fn"].endswith("name_match")]
        if rep.floor("C13.D4", "name_match", len(nmf), 1):
            from lib import Canon as _Canon
            t = _Canon(c, nmf[0], 4).r(nmf[0]["body"])
            eq = re.search(r"Name::Required\(_\) if \(\S+~Required Eq self\.type_name\.(rsplit\(\"::\"\)\.next\(\)|split\(\"::\"\)\.last\(\))\.unwrap\(\)\)", t) is not None
            fuzzy = re.search(r"\.(ends_with|starts_with|contains|find)\(", t) is not None
            rep.ob("C13.D4", "name-match-is-equality-with-last-segment", eq and not fuzzy,
                   "names match iff the required definition name equals the last segment of the external path (or the type has parameters)" if eq and not fuzzy else
                   "name_match is `%s`: the definition name is not compared for equality with the last path segment, so a definition whose name merely resembles the external type's loses its transparent newtype and its name disappears from the output" % t[:160], nmf[0].get("sp") or c.fns[nmf[0]["fn"]].get("sp"))
        rep.ob("C13.D4", "mismatch-wraps-newtype", ok, "otherwise a newtype named after the definition wraps it" if ok else "fallthrough does not build a newtype", (wild[0] if wild else mt).get("sp"))


def contains_closure_ancestor(root, node):
    for x, anc in walk(root):
        if x is node:
            return any(a.get("k") == "closure" for a in anc)
    return False


def key_transforms(e):
    """method names applied to the base of a key expression, identity conversions removed"""
    IDENT = {"to_string", "as_str", "clone", "as_ref", "to_owned", "into", "borrow", "deref", "as_deref", "cloned"}
    out = []
    from lib import strip_refs as _sr
    e = _sr(e)
    while isinstance(e, dict) and e.get("k") in ("mcall", "call"):
        if e.get("k") == "mcall":
            if e["name"] not in IDENT:
                out.append(e["name"])
            e = _sr(e["recv"])
        else:
            fn = (e.get("fn") or "").split("::")[-1]
            if fn in ("from", "to_string", "into", "new") and e.get("args"):
                e = _sr(e["args"][0])
            else:
                out.append(fn)
                break
    return out


def run_w34(facts, rep):
    import c16
    c = facts.impl
    sites = {"write": [], "read": []}
    for h in c.user_fns():
        for n, _ in nodes(h["body"], "mcall"):
            rv = n.get("recv") or {}
            from lib import strip_refs as _sr
            rv = _sr(rv)
            if rv.get("k") == "field" and rv["name"] == "crates" and "TypeSpaceSettings" in (c.ty(rv.get("bty")) or "") and n.get("args"):
                if n["name"] in ("insert", "entry"):
                    sites["write"].append((h, n))
                elif n["name"] in ("get", "contains_key", "remove", "get_mut"):
                    sites["read"].append((h, n))
    rep.floor("C13.W3", "writers of settings.crates", len(sites["write"]), 1)
    rep.floor("C13.W3", "readers of settings.crates", len(sites["read"]), 1)
    trs = {kind: [(h, n, tuple(key_transforms(n["args"][0]))) for h, n in sites[kind]] for kind in ("write", "read")}
    allt = {t for kind in trs for (_, _, t) in trs[kind]}
    for kind in ("write", "read"):
        for h, n, tr in trs[kind]:
            ok = len(allt) == 1
            rep.ob("C13.W3", "crate-key-same-spelling:%s:%s" % (kind, h["fn"]), ok,
                   ("the crate name is the key%s at every writer and reader" % (" unchanged" if not tr else " after `%s`" % ".".join(reversed(tr)))) if ok else
                   "at this %s site the crate name %s, but other sites use %s: a crate configured under one spelling is looked up under another, so it counts as unconfigured (or a `!`/version restriction is skipped)" % (kind, "goes through `%s`" % ".".join(reversed(tr)) if tr else "is used unchanged", sorted(".".join(reversed(t)) or "no transformation" for t in allt - {tr})), n.get("sp"))
    c16.check_dedup_key_order(facts, rep, "C13.W4")
