"""C16 — the type space stays consistent across any history of additions.

Discipline clauses (DESIGN.md §6/C16), all over the resolved HIR of typify-impl:
  W1  ids are allocated monotonically (next_id only grows; TypeId built only from it)
  W2  every write to an index of the type space has one of the disciplined forms
  W3  a committed name / structural key is never overwritten (insert guarded by lookup)
  W4  id_to_entry is (re)written only at fresh ids or ids of the current batch
  W5  identifiers and entries cannot be forged by an API user (visibility facts)
"""
from lib import walk, nodes, ends, field_accesses, is_write, contains_node, has_return, MUTATING

EXPLANATION = (
    "Decides discipline clauses that are necessary for consistency of the type space, not the behaviour under every history: "
    "(W1) every write to the id counter is `+=` and every TypeId construction is derived from the counter or from a batch range "
    "bounded by it; (W2) every write to the six indexes of TypeSpace is one of the enumerated disciplined forms, anything else "
    "(remove/clear/retain/unguarded insert) is reported; (W3) each insert into the name index and the structural index is guarded "
    "by a lookup of the same map whose hit branch does not reach the insert; (W4) each insert into id_to_entry uses a freshly "
    "allocated id or an id of the current call's batch, in-place mutation happens only in the cycle breaker; (W5) TypeId's field, "
    "TypeSpace's and Type's fields are private and the IR types are not exported, so ids and entries can only come from the space; "
    "(W3, exactness) when an insert into name_to_id can run on a hit, the rejecting guard is exactly `existing != inserted "
    "id` and the lookup uses the inserted key; (W6) the IR types inside the key of the structural dedup map derive PartialEq, "
    "PartialOrd and Ord together; (W7) no public ingestion entry returns anything but an error before converting its schema; "
    "(W8) the kinds of entry that are found through the name index (TypeEntry::name is Some) are exactly the kinds for which an "
    "item is emitted: every other kind is de-duplicated by its full structure."
)
ASSUMPTIONS = ["BTreeMap/BTreeSet semantics of std", "no unsafe code in typify-impl (checked: 0 unsafe blocks reported by the driver's HIR)"]

INDEX_FIELDS = {"definitions", "id_to_entry", "type_to_id", "name_to_id", "ref_to_id", "defaults", "next_id"}


def is_typespace(t):
    t = t.replace("&mut ", "").replace("&", "").strip()
    return t == "TypeSpace" or t.endswith("::TypeSpace")


def strip(e):
    """Strip .clone(), refs, casts, derefs."""
    while isinstance(e, dict):
        k = e.get("k")
        if k == "mcall" and e.get("name") in ("clone", "to_owned", "into") and not e.get("args"):
            e = e["recv"]
        elif k in ("ref", "cast") or (k == "un" and e.get("op") == "Deref"):
            e = e["e"]
        else:
            break
    return e


class FnCtx:
    def __init__(self, crate, h):
        self.c = crate
        self.h = h
        self.params = []
        for p in h.get("params", []):
            names = [x["name"] for x, _ in walk(p) if x.get("k") == "bind"]
            self.params.append(names[0] if names else None)
        # taint: names derived from next_id
        self.tainted = set()
        changed = True
        rounds = 0
        while changed and rounds < 10:
            changed = False
            rounds += 1
            for n, anc in walk(h["body"]):
                k = n.get("k")
                src = None
                pats = []
                if k == "let" and n.get("init"):
                    src, pats = n["init"], [n["pat"]]
                elif k == "letx":
                    src, pats = n["init"], [n["pat"]]
                elif k == "match":
                    src, pats = n["scrut"], [a["pat"] for a in n["arms"]]
                if src is None:
                    continue
                if self.mentions_counter(src):
                    for p in pats:
                        for b, _ in walk(p):
                            if b.get("k") == "bind" and b["name"] not in self.tainted:
                                self.tainted.add(b["name"])
                                changed = True

    def mentions_counter(self, e):
        for x, _ in walk(e):
            if x.get("k") == "field" and x["name"] == "next_id" and is_typespace(self.c.ty(x.get("bty"))):
                return True
            if x.get("k") == "path" and x.get("res") == "local" and x["path"] in self.tainted:
                return True
        return False

    def lets_of(self, name):
        out = []
        for n, _ in walk(self.h["body"]):
            if n.get("k") == "let" and n.get("init") is not None:
                p = n["pat"]
                if p.get("k") == "bind" and p["name"] == name:
                    out.append(n["init"])
        return out


def allocator_fns(crate):
    """Role: fns that construct TypeId(self.next_id) and advance the counter."""
    out = set()
    for h in crate.user_fns():
        ctor = False
        adv = False
        for n, _ in walk(h["body"]):
            if n.get("k") == "call" and n.get("res") == "ctor" and n["fn"].endswith("::TypeId"):
                for x, _ in walk(n["args"]):
                    if x.get("k") == "field" and x["name"] == "next_id":
                        ctor = True
            if n.get("k") == "assignop" and n["l"].get("k") == "field" and n["l"]["name"] == "next_id":
                adv = True
        if ctor and adv:
            out.add(h["fn"])
    return out


def callers_of(crate, qname):
    out = []
    for h in crate.user_fns():
        for n, _ in walk(h["body"]):
            if n.get("k") in ("call", "mcall") and n.get("fn") == qname:
                out.append((h, n))
    return out


def classify_id(crate, ctx, e, allocs, depth=0):
    """fresh | batch | unknown:<why> for an expression of type TypeId (or u64 range)."""
    e = strip(e)
    if not isinstance(e, dict) or depth > 4:
        return "unknown:depth"
    k = e.get("k")
    if k == "call" and e.get("res") == "ctor" and e["fn"].endswith("::TypeId"):
        return classify_num(crate, ctx, e["args"][0], allocs, depth)
    if k in ("call", "mcall") and e.get("fn") in allocs:
        return "fresh"
    if k in ("call", "mcall"):
        # a helper returning a TypeId obtained from the allocator / type registration (assign_type etc.)
        return "unknown:call %s" % e.get("fn")
    if k == "path" and e.get("res") == "local":
        name = e["path"]
        if name in ctx.tainted:
            return "batch"
        inits = ctx.lets_of(name)
        if inits:
            rs = [classify_id(crate, ctx, i, allocs, depth + 1) for i in inits]
            bad = [r for r in rs if r.startswith("unknown")]
            if bad:
                return bad[0]
            return rs[0]
        if name in ctx.params:
            return classify_param(crate, ctx, ctx.params.index(name), allocs, depth)
        return "unknown:binding of %s" % name
    return "unknown:%s" % k


def classify_num(crate, ctx, e, allocs, depth):
    if ctx.mentions_counter(e):
        return "batch"
    e2 = strip(e)
    if isinstance(e2, dict) and e2.get("k") == "path" and e2.get("res") == "local":
        name = e2["path"]
        if name in ctx.params:
            return classify_param(crate, ctx, ctx.params.index(name), allocs, depth)
        # bound by iterating a parameter (for id in range)
        for n, _ in walk(ctx.h["body"]):
            if n.get("k") == "match":
                binds = [b["name"] for a in n["arms"] for b, _ in walk(a["pat"]) if b.get("k") == "bind"]
                if name in binds:
                    for x, _ in walk(n["scrut"]):
                        if x.get("k") == "path" and x.get("res") == "local" and x["path"] in ctx.params:
                            r = classify_param(crate, ctx, ctx.params.index(x["path"]), allocs, depth)
                            if not r.startswith("unknown"):
                                return r
                        if x.get("k") == "path" and x.get("res") == "local" and x["path"] != name:
                            # iterator variable bound from an outer match on into_iter(param)
                            for n2, _ in walk(ctx.h["body"]):
                                if n2.get("k") == "match" and any(b.get("k") == "bind" and b["name"] == x["path"] for a in n2["arms"] for b, _ in walk(a["pat"])):
                                    for y, _ in walk(n2["scrut"]):
                                        if y.get("k") == "path" and y.get("res") == "local" and y["path"] in ctx.params:
                                            r = classify_param(crate, ctx, ctx.params.index(y["path"]), allocs, depth)
                                            if not r.startswith("unknown"):
                                                return r
    return "unknown:number not derived from the id counter"


def classify_param(crate, ctx, idx, allocs, depth):
    cs = callers_of(crate, ctx.h["fn"])
    if not cs:
        return "unknown:parameter with no caller"
    for (ch, call) in cs:
        args = list(call.get("args", []))
        if call.get("k") == "mcall":
            args = [call["recv"]] + args
        if idx >= len(args):
            return "unknown:arity"
        cctx = FnCtx(crate, ch)
        a = args[idx]
        r = classify_id(crate, cctx, a, allocs, depth + 1)
        if r.startswith("unknown"):
            r2 = classify_num(crate, cctx, a, allocs, depth + 1)
            if r2.startswith("unknown"):
                return "unknown:caller %s passes %s" % (ch["fn"], r)
    return "batch"


def guard_for_insert(h, ins_call, field):
    """Is this `<space>.<field>.insert(..)` guarded by a lookup of the same map with a branch that avoids the insert?"""
    lookups = ("get", "contains_key", "contains", "entry", "get_key_value")

    def has_lookup(e):
        for x, _ in walk(e):
            if x.get("k") == "mcall" and x.get("name") in lookups:
                r = strip(x["recv"])
                if isinstance(r, dict) and r.get("k") == "field" and r["name"] == field:
                    return True
        return False

    # ancestors chain
    anc = None
    for n, a in walk(h["body"]):
        if n is ins_call:
            anc = a
            break
    if anc is None:
        return None
    chain = list(anc) + [ins_call]
    for i, a in enumerate(chain[:-1]):
        child = chain[i + 1]
        k = a.get("k")
        if k == "if" and has_lookup(a["cond"]):
            other = a["else"] if contains_node(a["then"], ins_call) else a["then"]
            if other is not None and not contains_node(other, ins_call):
                return "inside the miss branch of a lookup on %s" % field
        if k == "match" and has_lookup(a["scrut"]):
            arms_without = [arm for arm in a["arms"] if not contains_node(arm, ins_call)]
            if arms_without:
                return "inside a match arm on a lookup of %s" % field
        if k == "block":
            # a preceding statement that looks up and leaves the function on a hit
            stmts = list(a.get("stmts", [])) + ([a["tail"]] if a.get("tail") else [])
            for st in stmts:
                if st is child or contains_node(st, ins_call):
                    break
                for x, _ in walk(st):
                    if x.get("k") in ("if", "match"):
                        cond = x.get("cond") or x.get("scrut")
                        if cond is not None and has_lookup(cond) and has_return(x):
                            return "preceded by a lookup on %s that returns early" % field
    return None


def hit_rejects_other_ids(c, h, ins_call, field):
    """For `match map.get(k) { Some(x) if G => return Err, _ => {} }; map.insert(k, v)`: G must be exactly `x != v`.
    Returns None when it is, else a description."""
    from lib import Canon, pat_top_variants, outcome, src
    cn = Canon(c, h, 2)
    val = cn.r(strip(ins_call["args"][1])) if len(ins_call.get("args", [])) > 1 else None

    def keytxt(e):
        t = cn.r(strip(e))
        while t.endswith(".clone()") or t.endswith(".to_string()") or t.endswith(".as_str()"):
            t = t.rsplit(".", 1)[0]
        return t
    ins_key = keytxt(ins_call["args"][0]) if ins_call.get("args") else None
    last_other = None
    for m, _ in walk(h["body"]):
        if m.get("k") != "match" or m.get("src") != "normal":
            continue
        sc = strip(m["scrut"])
        if not (sc.get("k") == "mcall" and sc["name"] == "get" and strip(sc["recv"]).get("k") == "field" and strip(sc["recv"])["name"] == field):
            continue
        if sc.get("args") and ins_key is not None and keytxt(sc["args"][0]) != ins_key:
            # a lookup under a different key does not protect this insert
            last_other = "the map is consulted under `%s` but written under `%s`: a name that only becomes known after the conversion (a title, a patch rename, an inline type of the same name) is committed over an entry held by another id, and two definitions of one name are rendered" % (keytxt(sc["args"][0])[:70], ins_key[:70])
            continue
        for a in m["arms"]:
            if outcome(a["body"]) not in ("ret-err", "ret"):
                continue
            if [v.split("::")[-1] for v in pat_top_variants(a["pat"])] != ["Some"]:
                continue
            g = a.get("guard")
            if g is None:
                return None  # any hit is rejected
            g = strip(g)
            if g.get("k") == "bin" and g["op"] == "Ne":
                binds = {b["name"] for b, _ in walk(a["pat"]) if b.get("k") == "bind"}
                l, r = strip(g["l"]), strip(g["r"])
                for x, y in ((l, r), (r, l)):
                    if x.get("k") == "path" and x.get("res") == "local" and x["path"] in binds and cn.r(y) == val:
                        return None
            return "a registered name held by another id is rejected only under `%s`: otherwise the name is re-pointed to the new id and both entries stay in the space, so two definitions of one name are rendered" % src(a["guard"])[:120]
    return last_other or "no arm rejects a hit of %s under a different id before the insert" % field


def run(facts, rep, tier):
    c = facts.impl
    check_dedup_key_order(facts, rep, "C16.W6")
    check_entries_convert(facts, rep, "C16.W7")
    check_named_kinds(facts, rep, "C16.W8")
    allocs = allocator_fns(c)
    rep.floor("C16.W1", "id allocator (constructs TypeId(next_id) and advances it)", len(allocs), 1)
    acc = field_accesses(c, is_typespace, INDEX_FIELDS)
    rep.floor("C16.W2", "accesses to TypeSpace index fields", len(acc), 60)

    # ---------------------------------------------------------------- W1
    nwrites = 0
    for a in acc:
        if a["field"] != "next_id" or not is_write(a["how"]):
            continue
        nwrites += 1
        ok = a["how"] == ("assign", "AddAssign")
        rep.ob("C16.W1", "counter-write:%s" % a["fn"], ok, "next_id written with %s" % (a["how"],), a["parent"].get("sp"))
    rep.floor("C16.W1", "writes to next_id", nwrites, 2)
    nctor = 0
    for h in c.user_fns():
        ctx = None
        for n, _ in nodes(h["body"], "call"):
            if n.get("res") == "ctor" and n["fn"].endswith("::TypeId"):
                nctor += 1
                ctx = ctx or FnCtx(c, h)
                r = classify_num(c, ctx, n["args"][0], allocs, 0)
                rep.ob("C16.W1", "typeid-ctor:%s#%d" % (h["fn"], sum(1 for o in rep.obligations if o["key"].startswith("C16.W1/typeid-ctor:%s#" % h["fn"]))),
                       not r.startswith("unknown"), "TypeId(..) built from %s" % r, n.get("sp"))
    rep.floor("C16.W1", "TypeId constructor sites", nctor, 6)
    # TypeId construction in other crates is impossible (W5) — checked there.

    # ---------------------------------------------------------------- W2/W3/W4
    box_ctor_fns = set()
    for h in c.user_fns():
        for n, _ in nodes(h["body"], "call"):
            if n.get("res") == "ctor" and n["fn"].endswith("TypeEntryDetails::Box"):
                box_ctor_fns.add(h["fn"])
    cycle_breakers = set()
    for h in c.user_fns():
        for n, _ in walk(h["body"]):
            if n.get("k") in ("call", "mcall") and n.get("fn") in box_ctor_fns:
                cycle_breakers.add(h["fn"])
    nw = 0
    counts = {}
    for a in acc:
        if not is_write(a["how"]) or a["field"] == "next_id":
            continue
        nw += 1
        fn, field, how = a["fn"], a["field"], a["how"]
        h = c.hir[fn]
        ordinal = counts.get((fn, field, how), 0)
        counts[(fn, field, how)] = ordinal + 1
        key = "%s.%s:%s#%d" % (fn, field, "/".join(str(x) for x in how), ordinal)
        sp = a["parent"].get("sp")
        if how[0] == "call" and how[1] == "insert":
            call = a["parent"] if a["parent"].get("k") == "mcall" else a["anc"][-2]
            if field in ("name_to_id", "type_to_id"):
                g = guard_for_insert(h, call, field)
                rep.ob("C16.W3", "guarded-insert:" + key, g is not None,
                       g or "insert into %s is not guarded by a lookup of the same map (a committed key would be overwritten / a second definition emitted)" % field, sp)
                if g and g.startswith("preceded by"):
                    # the insert runs on a hit as well: the only hit that may reach it is the one holding the very id that is inserted
                    why = hit_rejects_other_ids(c, h, call, field)
                    rep.ob("C16.W3", "hit-with-other-id-rejected:" + key, why is None,
                           "every hit under a different id returns an error before the insert" if why is None else why, sp)
            elif field == "id_to_entry":
                ctx = FnCtx(c, h)
                r = classify_id(c, ctx, call["args"][0], allocs)
                rep.ob("C16.W4", "entry-insert:" + key, not r.startswith("unknown"), "id_to_entry.insert at a %s id" % r, sp)
            elif field == "ref_to_id":
                ctx = FnCtx(c, h)
                r = classify_id(c, ctx, call["args"][1], allocs) if len(call["args"]) > 1 else "unknown:arity"
                rep.ob("C16.W4", "ref-insert:" + key, not r.startswith("unknown"), "ref_to_id maps the reference to a %s id" % r, sp)
            elif field in ("definitions", "defaults"):
                rep.ob("C16.W2", "set-insert:" + key, True, "%s.insert (registration of a schema / shared default fn; idempotent set semantics)" % field, sp)
            else:
                rep.ob("C16.W2", "unreviewed-write:" + key, False, "unreviewed write to %s" % field, sp)
        elif how[0] == "call" and how[1] == "get_mut" and field == "id_to_entry":
            rep.ob("C16.W4", "in-place:" + key, fn in cycle_breakers,
                   "in-place mutation of an entry in %s (%s)" % (fn, "the cycle breaker" if fn in cycle_breakers else "not the cycle breaker"), sp)
        else:
            rep.ob("C16.W2", "unreviewed-write:" + key, False,
                   "write to TypeSpace.%s via %s is not one of the disciplined forms (guarded insert / fresh or batch id / cycle breaker)" % (field, how), sp)
    rep.floor("C16.W2", "write sites on index fields", nw, 12)
    rep.sample({"rule": "C16.W2-W4", "allocator": sorted(allocs), "cycle_breaker": sorted(cycle_breakers), "write_sites": nw})

    # the hit branch of the allocator's lookups returns the registered id (re-adding returns the same identifier)
    for h in c.user_fns():
        for n, _ in nodes(h["body"], "if"):
            cond = n["cond"]
            if cond.get("k") == "letx":
                init = strip(cond["init"])
                if init.get("k") == "mcall" and init["name"] == "get":
                    r = strip(init["recv"])
                    if r.get("k") == "field" and r["name"] in ("name_to_id", "type_to_id") and is_typespace(c.ty(r.get("bty"))):
                        binds = [b["name"] for b, _ in walk(cond["pat"]) if b.get("k") == "bind"]
                        tail = n["then"].get("tail") if n["then"].get("k") == "block" else n["then"]
                        t = strip(tail) if tail else None
                        ok = bool(t and t.get("k") == "path" and t["path"] in binds)
                        rep.ob("C16.W3", "hit-returns-registered:%s.%s" % (h["fn"], r["name"]), ok,
                               "on a hit in %s the registered id is returned unchanged" % r["name"] if ok else "the hit branch of the %s lookup does not return the registered id" % r["name"], n.get("sp"))

    # ---------------------------------------------------------------- W5 visibility
    def adt(s):
        return c.adt(s)

    tid = adt("typify_impl::TypeId") or adt("TypeId")
    if rep.floor("C16.W5", "TypeId", 1 if tid else 0, 1):
        f0 = tid["variants"][0]["fields"]
        rep.ob("C16.W5", "TypeId-field-private", all(not f["pub"] for f in f0) and len(f0) == 1, "TypeId's field visibility: %s" % [f["pub"] for f in f0], tid.get("sp"))
    for name in ("TypeSpace", "Type"):
        a = adt("typify_impl::" + name)
        if rep.floor("C16.W5", name, 1 if a else 0, 1):
            fs = a["variants"][0]["fields"]
            pubs = [f["name"] for f in fs if f["pub"]]
            rep.ob("C16.W5", "%s-fields-private" % name, not pubs, "public fields: %s" % pubs if pubs else "%d fields, all private" % len(fs), a.get("sp"))
    for name in ("type_entry::TypeEntry", "type_entry::TypeEntryDetails"):
        a = adt(name)
        if rep.floor("C16.W5", name, 1 if a else 0, 1):
            rep.ob("C16.W5", "%s-not-exported" % name.split("::")[-1], not a["pub"], "visibility pub=%s" % a["pub"], a.get("sp"))
    # no pub fn hands out &mut to the indexes or builds a TypeId from a number
    for q, f in c.fns.items():
        if not f.get("pub") or f.get("derived"):
            continue
        if q.startswith("TypeSpace::") or q.startswith("typify_impl::TypeSpace::"):
            out = f["output"]
            bad = "&mut" in out and ("BTreeMap" in out or "TypeEntry" in out)
            takes_u64 = any(t in ("u64", "usize") for t in f["inputs"][1:]) and "TypeId" in out
            rep.ob("C16.W5", "api:%s" % q, not bad and not takes_u64,
                   "returns %s" % out[:80] if not (bad or takes_u64) else "public API exposes internals: (%s) -> %s" % (", ".join(f["inputs"]), out), f.get("sp"))
    unsafe_n = sum(1 for t in c.types if False)
    rep.sample({"rule": "C16.W5", "TypeId": tid})


# ---------------------------------------------------------------- W6 the dedup key's order agrees with its equality
ORD_EXCEPTIONS = {
    "SchemaWrapper": "hand-written Ord (always Equal) because schemars::Schema has no order; it is a field of named entries only (struct/enum/newtype), which are found by name and never through the structural dedup map",
    "WrappedValue": "hand-written Ord (always Equal) because serde_json::Value has no order; it occurs only inside named entries (struct/enum/newtype), which are found by name and never through the structural dedup map",
}


def local_adts_in(c, ty):
    import re as _re
    out = []
    for seg in _re.findall(r"[A-Za-z_][A-Za-z0-9_:]*", ty):
        a = c.adt(seg.split("::")[-1])
        if a is not None and a not in out:
            out.append(a)
    return out


def check_dedup_key_order(facts, rep, RULE):
    """Every ADT inside the key of a structural dedup map (a BTreeMap field of TypeSpace keyed by a local ADT) orders its values by
    the same data that its equality compares: PartialEq, PartialOrd and Ord are all derived."""
    import re as _re
    c = facts.impl
    ts = c.adt("TypeSpace")
    keys = []
    if ts:
        for v in ts["variants"]:
            for f in v["fields"]:
                m = _re.match(r"std::collections::BTreeMap<([^,]+), ", f["ty"])
                if m:
                    for a in local_adts_in(c, m.group(1)):
                        if a["kind"] == "enum" or len(a["variants"][0]["fields"]) > 1:
                            keys.append((f["name"], a))
    # the structural index is keyed by the entry's full structure, not by a rendering of it
    if ts:
        for v in ts["variants"]:
            for f in v["fields"]:
                if f["name"] == "type_to_id":
                    m = _re.match(r"std::collections::BTreeMap<([^,]+), ", f["ty"])
                    kt = m.group(1) if m else f["ty"]
                    okk = kt.endswith("TypeEntryDetails")
                    rep.ob(RULE, "structural-key-is-the-structure", okk, "type_to_id is keyed by TypeEntryDetails" if okk else
                           "the structural index `type_to_id` is keyed by `%s`: two unnamed types are the same type only if their whole structure is equal (an external generic type with other parameters, an array of another element type); a key that renders or summarises the structure merges types that differ" % kt)
    if not rep.floor(RULE, "structural dedup maps (BTreeMap fields of TypeSpace keyed by an IR type)", len(keys), 1):
        return
    impls = {}
    for i in c.d["impls"]:
        impls.setdefault(i["self"].split("::")[-1].split("<")[0], {})[i["trait"].split("::")[-1]] = i
    total = [0]
    for fname, key in keys:
        # named payloads are found by name before the structural map is consulted
        def named(a):
            return any(f["name"] == "name" and f["ty"].endswith("String") for v in a["variants"] for f in v["fields"])
        seen, todo, via_unnamed = {}, [(key, True)], set()
        while todo:
            a, unn = todo.pop()
            nm = a["path"].split("::")[-1]
            if nm in seen and (seen[nm] or not unn):
                continue
            seen[nm] = unn or seen.get(nm, False)
            for v in a["variants"]:
                for f in v["fields"]:
                    for b in local_adts_in(c, f["ty"]):
                        todo.append((b, unn and not named(b)))
        n = 0
        for nm, unn in sorted(seen.items()):
            im = impls.get(nm, {})
            if "Ord" not in im:
                continue
            n += 1
            all_derived = all(im.get(t, {}).get("derived") for t in ("PartialEq", "PartialOrd", "Ord"))
            if all_derived:
                rep.ob(RULE, "ord-agrees-with-eq:%s/%s" % (fname, nm), True, "PartialEq, PartialOrd and Ord of %s are all derived (same fields, same order)" % nm)
            elif nm in ORD_EXCEPTIONS and not unn:
                rep.ob(RULE, "ord-agrees-with-eq:%s/%s" % (fname, nm), True, "tabled exception: " + ORD_EXCEPTIONS[nm], nontrivial=False)
            else:
                hand = [t for t in ("PartialEq", "PartialOrd", "Ord") if not im.get(t, {}).get("derived")]
                rep.ob(RULE, "ord-agrees-with-eq:%s/%s" % (fname, nm), False,
                       "%s of %s %s hand-written while the rest is derived, and %s is part of the key of TypeSpace.%s: two entries that are not equal can compare Equal, so the second one silently gets the first one's type id (e.g. an external generic type with different parameters)" % ("/".join(hand), nm, "is" if len(hand) == 1 else "are", nm, fname), im.get("Ord", {}).get("sp"))
        total[0] += n
    rep.floor(RULE, "ordered IR types inside the keys of the dedup maps", total[0], 17)


# ---------------------------------------------------------------- W7 every public addition converts what it is given
def check_entries_convert(facts, rep, RULE):
    """No public ingestion entry answers from the indexes before converting its schema: the only exits that precede the
    conversion call are error exits. (A short-cut by name hint or by reference answers with a type that was registered for
    another schema, and makes the result depend on the order of the calls.)"""
    from lib import ends, calls_in, top_stmts, outcome, src
    c = facts.impl
    entries = []
    for h in c.user_fns():
        cs = set(calls_in(h["body"]))
        if any(ends(x, "TypeSpace::convert_ref_type") or ends(x, "TypeSpace::id_for_schema") for x in cs) and (c.fns[h["fn"]].get("pub") or any(h["fn"] in calls_in(o["body"]) and c.fns[o["fn"]].get("pub") for o in c.user_fns())):
            if h["fn"].startswith("TypeSpace::") and "convert" not in h["fn"].split("::")[-1] and "id_for" not in h["fn"]:
                entries.append(h)
    rep.floor(RULE, "public ingestion entries that convert schemas", len(entries), 2)
    for h in entries:
        early = []
        reached = False
        for st in top_stmts(h):
            if any(ends(x, "TypeSpace::convert_ref_type") or ends(x, "TypeSpace::id_for_schema") for x in calls_in(st)):
                reached = True
                break
            for x, xa in walk(st):
                if x.get("k") == "ret":
                    e = x.get("e") or {}
                    t = src(e)
                    if not (t.startswith("Err(") or "Err(" in t[:12]):
                        early.append(x)
        ok = reached and not early
        rep.ob(RULE, "converts-before-answering:%s" % h["fn"], ok,
               "the schema is converted before anything is returned (only error exits precede the conversion)" if ok else
               ("`%s` returns before the schema is converted: the answer is a type registered for some other schema, re-adding a schema can return a different identifier and the set of definitions depends on the order of the calls" % src(early[0])[:80] if early else "the conversion call is not at the top level of the entry"), (early[0] if early else h).get("sp") or c.fns[h["fn"]].get("sp"))


# ---------------------------------------------------------------- W8 the name index holds the kinds that have an item
def check_named_kinds(facts, rep, RULE):
    """assign_type looks an entry up by name when TypeEntry::name() is Some and by its full details otherwise. The kinds
    with a name must be the kinds that produce an item (enum / struct / newtype): a kind without an item that acquired a
    name (a native path, an array, an option) would be found by that name alone, and two uses that differ in their type
    parameters or element type would get one identifier."""
    from lib import arms_by_variant, plain_arms, src, block_last, calls_in, nodes
    c = facts.impl
    nm = [h for h in c.user_fns() if h["fn"].endswith("TypeEntry::name")]
    out = [h for h in c.user_fns() if h["fn"].endswith("TypeEntry::output")]
    if not rep.floor(RULE, "TypeEntry::name and TypeEntry::output", len(nm) + len(out), 2):
        return
    def table(h):
        ms = [n for n, _ in nodes(h["body"], "match") if n.get("src") == "normal" and any("TypeEntryDetails" in v for a in n["arms"] for v in (pat_top_variants(a["pat"]) or []))]
        return ms[0] if ms else None
    from lib import pat_top_variants
    mn, mo = table(nm[0]), table(out[0])
    if not rep.floor(RULE, "kind tables of name() and output()", (1 if mn else 0) + (1 if mo else 0), 2):
        return
    why = plain_arms(mn) or plain_arms(mo)
    rep.ob(RULE, "kind-tables-plain", why is None, "one unguarded arm per kind" if why is None else "a guarded or duplicate arm decides a kind outside the table (%s)" % why, mn.get("sp"), nontrivial=False)
    named = set()
    for v, arms in arms_by_variant(mn).items():
        for a in arms:
            t = src(block_last(a["body"]))
            if not (t == "None" or t.endswith("::None")):
                named.add(v)
    emitted = set()
    for v, arms in arms_by_variant(mo).items():
        for a in arms:
            if any(x.split("::")[-1].startswith("output_") for x in calls_in(a["body"])):
                emitted.add(v)
    rep.floor(RULE, "kinds that emit an item", len(emitted), 3)
    for v in sorted((named | emitted) - {"_"}):
        ok = (v in named) == (v in emitted)
        rep.ob(RULE, "named-iff-emitted:%s" % v, ok, "found by name and emitted as an item" if ok else
               ("`%s` entries have a name but no item: they are de-duplicated by that name alone, so two uses that differ in parameters / element types share one identifier and two definitions of them collide" % v if v in named else
                "`%s` entries are emitted as an item but have no name: they are not registered in the name index, so two of them can be emitted under one name" % v), mn.get("sp"))
    if "_" in named:
        rep.ob(RULE, "named-iff-emitted:_", False, "the catch-all arm of TypeEntry::name() yields a name: kinds without an item are found by name", mn.get("sp"))
