use quote::ToTokens;
use syn::visit::Visit;

fn short(ts: impl ToTokens) -> String { let s = ts.to_token_stream().to_string(); let s = s.replace(" :: ", "::").replace(" . ", "."); if s.len() > 90 { format!("{}…", &s[..90]) } else { s } }

struct V { file: String, ctx: Vec<String>, bind: Vec<String>, fnstack: Vec<String>, filter: String }
impl<'ast> Visit<'ast> for V {
    fn visit_item_mod(&mut self, m: &'ast syn::ItemMod) {
        if m.attrs.iter().any(|a| a.path().is_ident("cfg") && a.meta.require_list().map(|l| l.tokens.to_string() == "test").unwrap_or(false)) { return; }
        syn::visit::visit_item_mod(self, m);
    }
    fn visit_impl_item_fn(&mut self, f: &'ast syn::ImplItemFn) { self.fnstack.push(f.sig.ident.to_string()); syn::visit::visit_impl_item_fn(self, f); self.fnstack.pop(); }
    fn visit_item_fn(&mut self, f: &'ast syn::ItemFn) { self.fnstack.push(f.sig.ident.to_string()); syn::visit::visit_item_fn(self, f); self.fnstack.pop(); }
    fn visit_expr_match(&mut self, m: &'ast syn::ExprMatch) {
        self.visit_expr(&m.expr);
        let scrut = short(&m.expr);
        for arm in &m.arms {
            let g = arm.guard.as_ref().map(|(_, e)| format!(" if {}", short(e))).unwrap_or_default();
            self.ctx.push(format!("match {} => arm[{}{}]", scrut, short(&arm.pat), g));
            self.visit_expr(&arm.body);
            self.ctx.pop();
        }
    }
    fn visit_expr_if(&mut self, i: &'ast syn::ExprIf) {
        self.visit_expr(&i.cond);
        self.ctx.push(format!("if[{}]", short(&i.cond)));
        self.visit_block(&i.then_branch);
        self.ctx.pop();
        if let Some((_, e)) = &i.else_branch { self.ctx.push(format!("else-of[{}]", short(&i.cond))); self.visit_expr(e); self.ctx.pop(); }
    }
    fn visit_expr_method_call(&mut self, m: &'ast syn::ExprMethodCall) {
        self.visit_expr(&m.receiver);
        let name = m.method.to_string();
        let gate = matches!(name.as_str(), "then" | "map" | "and_then" | "filter_map" | "for_each" | "flat_map" | "fold" | "unwrap_or_else" | "map_or_else");
        for a in &m.args {
            if gate && matches!(a, syn::Expr::Closure(_)) { self.ctx.push(format!("{}.{}(closure)", short(&m.receiver), name)); self.visit_expr(a); self.ctx.pop(); }
            else { if name == "push" || name == "add_item" || name == "extend" { self.bind.push(format!("{}.{}", short(&m.receiver), name)); self.visit_expr(a); self.bind.pop(); } else { self.visit_expr(a); } }
        }
    }
    fn visit_local(&mut self, l: &'ast syn::Local) {
        let name = short(&l.pat);
        if let Some(init) = &l.init { self.bind.push(format!("let {}", name)); self.visit_expr(&init.expr); self.bind.pop(); if let Some((_, d)) = &init.diverge { self.visit_expr(d); } }
    }
    fn visit_macro(&mut self, m: &'ast syn::Macro) {
        if m.path.is_ident("quote") && self.fnstack.last().map(|f| f.contains(&self.filter)).unwrap_or(false) {
            let line = m.path.segments[0].ident.span().start().line;
            let head: String = m.tokens.to_string().chars().take(70).collect();
            println!("{}:{} fn={} bind={:?}\n      ctx={:?}\n      tmpl={}", self.file, line, self.fnstack.last().unwrap(), self.bind.last(), self.ctx, head);
        }
    }
}
fn main() {
    let p = std::env::args().nth(1).unwrap(); let filter = std::env::args().nth(2).unwrap_or_default();
    let src = std::fs::read_to_string(&p).unwrap();
    let f = syn::parse_file(&src).unwrap();
    let mut v = V { file: p.rsplit('/').next().unwrap().to_string(), ctx: vec![], bind: vec![], fnstack: vec![], filter };
    v.visit_file(&f);
}
