"""C12 — generated output is a deterministic function of settings and schema.

Static clauses decided (necessary conditions; DESIGN.md §6/C12):
  W1  no hash-order iteration in the workspace's own code
  W2  no ambient inputs (time, randomness, env, pids, addresses)
  W3  ordered containers by type; schemars::Map resolves to BTreeMap
  W4  rendering is a pure read (&self, no interior mutability, no statics)
"""
import re
from lib import walk, ends

EXPLANATION = (
    "Decides structural necessary conditions of determinism, not the behaviour: (W1) no MIR local of any non-derived body in "
    "typify-impl, typify-macro, typify, cargo-typify has a hash-collection iterator type and no hash collection is handed to an "
    "order-exposing operation; (W2) no call to time/randomness/env/pid/address sources outside the tabled schema-location lookup; "
    "(W3) every collection-typed field of the IR, the type space, the settings and the output space is BTreeMap/BTreeSet/Vec and "
    "schemars::Map does not resolve to an insertion-ordered map; (W4) every render entry point takes &self, TypeSpace's reachable "
    "field types contain no interior mutability, and the crates define no mutable/thread-local static."
)
ASSUMPTIONS = [
    "dependencies (heck, quote, serde_json, regress, prettyplease/rustfmt) are deterministic",
    "rustc's MIR local types expose every iterator a body creates (an iteration must create an iterator-typed local)",
]

HASH_ITER = re.compile(
    r"(hash_map::(Iter|IterMut|IntoIter|Keys|Values|ValuesMut|IntoKeys|IntoValues|Drain|ExtractIf)\b"
    r"|hash_set::(Iter|IntoIter|Drain|Difference|Intersection|SymmetricDifference|Union|ExtractIf)\b"
    r"|hashbrown::)"
)
HASH_COLL = re.compile(r"\b(HashMap|HashSet)<")
# order-insensitive operations on / producing a hash collection
ALLOWED_METHODS = {
    "new", "with_capacity", "default", "insert", "contains", "contains_key", "get", "get_mut", "entry", "len", "is_empty",
    "is_subset", "is_superset", "is_disjoint", "remove", "clear", "reserve", "clone", "eq", "ne", "from_iter", "collect",
    "extend", "and_modify", "or_insert", "or_insert_with", "or_default", "deserialize", "from", "into", "drop", "unwrap",
    "expect", "map", "ok", "fmt", "deref", "borrow", "as_ref", "unwrap_or_default", "from_tokenstream", "clone_from",
    "get_or_insert_with", "take", "replace", "branch", "from_residual", "unwrap_or", "new_debug", "is_some", "is_none",
    "as_mut", "copied", "cloned", "ok_or", "ok_or_else", "map_err", "and_then", "unwrap_or_else", "from_output",
    "drop_in_place", "next_value", "next_element", "missing_field", "visit_map", "visit_seq", "deserialize_struct",
    "next_value_seed", "next_element_seed", "ne", "hash",
}
ORDER_EXPOSING = {
    "iter", "iter_mut", "into_iter", "keys", "values", "values_mut", "into_keys", "into_values", "drain", "retain",
    "extract_if", "union", "intersection", "difference", "symmetric_difference", "serialize", "to_tokens", "for_each",
    "fold", "next",
}

# Reviewed exceptions: hash iteration whose sink is order-insensitive. One symbol each.
# (crate, enclosing fn suffix, substring of the iterator's element type) -> reason
W1_EXCEPTIONS = [
    ("typify_macro", "do_import_types", "MacroPatch",
     "keys of one HashMap are distinct idents; each is inserted once into TypeSpaceSettings.patch (a BTreeMap) by with_patch"),
    ("typify_macro", "do_import_types", "TypeAndImpls",
     "keys of one HashMap are distinct idents; each is inserted once into TypeSpaceSettings.replace (a BTreeMap) by with_replacement"),
    ("typify_macro", "TypeAndImpls::into_name_and_impls", "TypeSpaceImpl",
     "the impl set is only ever membership-tested downstream (Vec::contains in has_impl); natives are not emitted"),
    ("typify_macro", "do_import_types", "TypeSpaceImpl",
     "same set, passed through with_replacement/with_conversion's generic Iterator parameter"),
    ("typify_impl", "with_replacement", "TypeSpaceImpl",
     "generic Iterator parameter instantiated by the macro with the impl set (membership-tested only)"),
    ("typify_impl", "with_conversion", "TypeSpaceImpl",
     "generic Iterator parameter instantiated by the macro with the impl set (membership-tested only)"),
]

AMBIENT = [
    (re.compile(r"^std::time::|::SystemTime::now|::Instant::now|^chrono::.*::now"), "time"),
    (re.compile(r"^rand::|^getrandom::|RandomState::new|^fastrand::"), "randomness"),
    (re.compile(r"^std::process::id|^std::thread::current|ThreadId"), "process/thread id"),
    (re.compile(r"^std::env::"), "environment"),
    (re.compile(r"as std::fmt::Pointer>::fmt"), "pointer formatting"),
]
# (crate, fn suffix, callee) tabled ambient reads
AMBIENT_EXCEPTIONS = {
    ("typify_macro", "do_import_types", "std::env::var"): "locates the schema file relative to CARGO_MANIFEST_DIR (documented)",
    ("typify_macro", "do_import_types", "std::env::current_dir"): "fallback for the schema file location (documented)",
    ("cargo_typify-bin", "main", "std::env::args_os"): "CLI arguments are the front end's input",
    ("cargo_typify-bin", "main", "std::env::args"): "CLI arguments are the front end's input",
}

ORDERED_FIELD_OWNERS = [
    # (crate, adt suffix, [fields that must be ordered collections])
    ("typify_impl", "output::OutputSpace", ["items"]),
    ("typify_impl", "TypeSpace", ["definitions", "id_to_entry", "type_to_id", "name_to_id", "ref_to_id", "defaults"]),
    ("typify_impl", "TypeSpaceSettings", ["crates", "patch", "replace", "convert", "extra_derives"]),
]
INTERIOR = re.compile(r"\b(Cell|RefCell|UnsafeCell|Mutex|RwLock|OnceCell|OnceLock|LazyLock|LazyCell|Atomic[A-Z][A-Za-z0-9]*)\b")


def top_fn(q):
    return q.split("::{closure")[0]


def method_name(callee):
    return callee.rsplit("::", 1)[-1]


def run(facts, rep, tier):
    # ---------------------------------------------------------------- W1
    bodies = 0
    hash_locals = 0
    for ckey, c in facts.crates.items():
        for q, m in c.mir.items():
            top = top_fn(q)
            frec = c.fns.get(top)
            if frec is not None and frec.get("derived"):
                continue
            bodies += 1
            seen = set()
            for tix in m["locals"]:
                t = c.types[tix]
                if not HASH_ITER.search(t):
                    continue
                mm = HASH_ITER.search(t)
                # element description: the generic args following the iterator type
                elem = t[mm.start():][:160]
                key = "%s/%s/%s" % (ckey, top, re.sub(r"\s+", "", elem)[:90])
                if key in seen:
                    continue
                seen.add(key)
                hash_locals += 1
                exc = None
                for (ec, ef, esub, reason) in W1_EXCEPTIONS:
                    if ec == ckey and ends(top, ef) and esub in t:
                        exc = reason
                if exc:
                    rep.ob("C12.W1", "tabled:" + key, True, "tabled order-insensitive sink: " + exc)
                    continue
                where = (frec or {}).get("sp")
                rep.ob("C12.W1", "hash-iter:" + key, False,
                       "a local of type `%s` in %s iterates a hash collection in hash order" % (t[:140], q), where)
            # operations on hash collections
            for b in m["blocks"]:
                t = b["term"]
                if t["k"] != "call":
                    continue
                callee = t["fn"]
                blob = callee + " " + t.get("gargs", "")
                if not HASH_COLL.search(blob):
                    continue
                meth = method_name(callee)
                recv_is_hash = bool(re.match(r"^<?std::collections::Hash(Map|Set)<", callee))
                if meth in ORDER_EXPOSING and (recv_is_hash or HASH_COLL.search(t.get("gargs", "").split(",")[0] if t.get("gargs") else "")):
                    key = "%s/%s/%s" % (ckey, top, meth)
                    exc = None
                    for (ec, ef, esub, reason) in W1_EXCEPTIONS:
                        if ec == ckey and ends(top, ef) and esub in blob:
                            exc = reason
                    if exc:
                        rep.ob("C12.W1", "tabled-op:" + key + ":" + [e[2] for e in W1_EXCEPTIONS if e[3] == exc][0], True, exc)
                    else:
                        rep.ob("C12.W1", "hash-op:" + key, False,
                               "order-exposing operation `%s` on a hash collection in %s" % (callee[:120], q), t.get("sp"))
                elif meth in ALLOWED_METHODS or not recv_is_hash:
                    rep.ob("C12.W1", "op-ok:%s/%s/%s" % (ckey, top, meth), True, "order-insensitive use: " + callee[:100])
                else:
                    rep.ob("C12.W1", "hash-op-unreviewed:%s/%s/%s" % (ckey, top, meth), False,
                           "hash collection operation `%s` is not in the reviewed order-insensitive list" % callee[:140], t.get("sp"))
    rep.floor("C12.W1", "MIR bodies analysed", bodies, 500)
    rep.sample({"rule": "C12.W1", "bodies": bodies, "hash_iterator_locals": hash_locals})

    # ---------------------------------------------------------------- W2
    amb = 0
    ncalls = 0
    for ckey, c in facts.crates.items():
        for q, m in c.mir.items():
            top = top_fn(q)
            frec = c.fns.get(top)
            if frec is not None and frec.get("derived"):
                continue
            for b in m["blocks"]:
                t = b["term"]
                if t["k"] != "call":
                    continue
                ncalls += 1
                for rx, what in AMBIENT:
                    if rx.search(t["fn"]):
                        amb += 1
                        ok = False
                        reason = ""
                        for (ec, ef, ecallee), r in AMBIENT_EXCEPTIONS.items():
                            if ec == ckey and ends(top, ef) and t["fn"].startswith(ecallee):
                                ok = True
                                reason = r
                        rep.ob("C12.W2", "%s/%s/%s" % (ckey, top, t["fn"][:60]), ok,
                               ("tabled: " + reason) if ok else "ambient input (%s): %s called in %s" % (what, t["fn"], q), t.get("sp"))
                # address-to-integer casts
            for b in m["blocks"]:
                for st in b["stmts"]:
                    if st.get("k") == "cast" and "PointerExposeProvenance" in str(st.get("ck", "")):
                        rep.ob("C12.W2", "%s/%s/ptr-cast" % (ckey, top), False, "address exposed as integer in %s" % q)
    rep.floor("C12.W2", "resolved call sites scanned", ncalls, 3000)
    rep.ob("C12.W2", "positive-control", AMBIENT[3][0].search("std::env::var") is not None and amb >= 1,
           "the ambient matcher fires on the macro's tabled std::env::var call (%d ambient sites seen)" % amb, nontrivial=False)

    # ---------------------------------------------------------------- W3
    impl = facts.impl
    nfields = 0
    for ckey, c in facts.crates.items():
        for path, adt in c.adts.items():
            for v in adt["variants"]:
                for f in v["fields"]:
                    nfields += 1
                    t = f["ty"]
                    bad = HASH_COLL.search(t) or "indexmap::" in t or "IndexMap<" in t
                    if not bad:
                        continue
                    key = "%s/%s.%s" % (ckey, path.split("::")[-1], f["name"])
                    # the macro's option struct: consumption sites are covered by W1
                    if ckey == "typify_macro" and path.endswith("MacroSettings"):
                        rep.ob("C12.W3", "tabled:" + key, True, "front-end option map; every consumption site is decided by W1")
                    else:
                        rep.ob("C12.W3", "field:" + key, False, "field %s.%s has unordered collection type %s" % (path, f["name"], t[:100]), adt.get("sp"))
    for (ckey, suffix, fields) in ORDERED_FIELD_OWNERS:
        adt = facts[ckey].adt(suffix)
        if adt is None:
            rep.floor("C12.W3", "adt " + suffix, 0, 1)
            continue
        fmap = {f["name"]: f["ty"] for v in adt["variants"] for f in v["fields"]}
        for fn in fields:
            t = fmap.get(fn)
            if t is None:
                # the field may have been renamed/removed: then the generic scan above is what decides
                rep.info("W3: field %s.%s not present (generic scan still applies)" % (suffix, fn))
                continue
            ok = bool(re.match(r"^(std|alloc)::(collections::(btree_map::|btree_set::)?BTree(Map|Set)|vec::Vec)<", t)) or t.startswith("std::collections::BTree")
            rep.ob("C12.W3", "ordered:%s.%s" % (suffix, fn), ok, "type is %s" % t[:100], adt.get("sp"))
    # schemars::Map / Set resolve to ordered std collections in this build
    idx = [t for t in impl.types if "indexmap::" in t]
    rep.ob("C12.W3", "schemars-map-is-btree", not idx,
           "no type in typify-impl mentions indexmap (schemars::Map = BTreeMap, preserve_order off)" if not idx else "insertion-ordered map type in use: %s" % idx[0][:100])
    obj = [t for t in impl.types if "ObjectValidation" in t]
    rep.floor("C12.W3", "ADT fields scanned", nfields, 120)

    # ---------------------------------------------------------------- W4
    render_entries = []
    for q, f in impl.fns.items():
        if f.get("derived"):
            continue
        if ends(q, "TypeSpace::to_stream") or q.endswith("as quote::ToTokens>::to_tokens") and "TypeSpace" in q:
            render_entries.append(f)
        elif re.match(r"^Type(Enum|Struct|Newtype)?<'a>::", q) and f.get("pub"):
            render_entries.append(f)
    for f in render_entries:
        first = f["inputs"][0] if f["inputs"] else ""
        ok = first.startswith("&") and not first.startswith("&mut") and "&mut" not in first.split(" ")[0]
        ok = ok and not re.match(r"^&('[a-z_]+ )?mut ", first)
        rep.ob("C12.W4", "self-by-shared-ref:" + f["fn"], ok, "first parameter type `%s`" % first, f.get("sp"))
    rep.floor("C12.W4", "render entry points", len(render_entries), 12)
    # interior mutability reachable from TypeSpace through local ADT fields
    seen = set()
    todo = ["TypeSpace"]
    local_names = {p.split("::")[-1]: p for p in impl.adts}
    bad = []
    while todo:
        n = todo.pop()
        if n in seen:
            continue
        seen.add(n)
        adt = impl.adt(n) or impl.adts.get(local_names.get(n, ""), None)
        if adt is None:
            continue
        for v in adt["variants"]:
            for f in v["fields"]:
                if INTERIOR.search(f["ty"]):
                    bad.append("%s.%s: %s" % (n, f["name"], f["ty"][:80]))
                for name in re.findall(r"[A-Za-z_][A-Za-z0-9_]*", f["ty"]):
                    if name in local_names and name not in seen:
                        todo.append(name)
    rep.ob("C12.W4", "no-interior-mutability", not bad,
           "%d local ADTs reachable from TypeSpace, none holds Cell/RefCell/Mutex/Atomic/Once*" % len(seen) if not bad else "interior mutability reachable from TypeSpace: " + "; ".join(bad[:3]))
    rep.floor("C12.W4", "ADTs reachable from TypeSpace", len(seen), 15)
    fr = dict((a, b) for a, b in impl.d["freeze"])
    ts = [k for k in fr if k.endswith("::TypeSpace")]
    rep.ob("C12.W4", "TypeSpace:Freeze", bool(ts) and all(fr[k] for k in ts), "rustc: TypeSpace is Freeze" if ts else "TypeSpace not found")
    nst = 0
    for ckey, c in facts.crates.items():
        for st in c.d["statics"]:
            nst += 1
            ok = st["freeze"] and not st["mutable"] and not st["thread_local"]
            rep.ob("C12.W4", "static:%s/%s" % (ckey, st["path"]), ok, "static of type %s (freeze=%s mutable=%s thread_local=%s)" % (st["ty"][:60], st["freeze"], st["mutable"], st["thread_local"]), st.get("sp"))
        for t in c.types:
            if "std::thread::LocalKey<" in t:
                rep.ob("C12.W4", "thread-local:%s" % ckey, False, "thread_local! in use: %s" % t[:100])
                break
    rep.sample({"rule": "C12.W4", "render_entries": [f["fn"] for f in render_entries][:8], "statics": nst, "reachable_adts": sorted(seen)[:12]})
