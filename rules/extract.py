"""Fact extraction: /repo's current working tree -> /verif/facts/*.json.

The facts are a function of the tree: a SHA-256 over every source file keys the
cache, and a warm cargo cache that silently skips the driver is detected with a
per-run nonce written into every fact file.
"""
import fcntl
import glob
import hashlib
import json
import os
import shutil
import subprocess
import sys
import time

VERIF = os.environ.get("VERIF_HOME") or os.path.dirname(os.path.dirname(os.path.abspath(__file__)))  # VERIF_HOME: run a snapshot of rules/ against the real engines, cache and findings
REPO = os.environ.get("REPO", "/repo")
CACHE = os.path.join(VERIF, ".cache")
CRATES = ["typify_impl", "typify_macro", "typify", "cargo_typify"]
PKGS = ["typify-impl", "typify-macro", "typify", "cargo-typify"]
EXPECTED = [
    "typify_impl-lib.json",
    "typify_macro-lib.json",
    "typify-lib.json",
    "cargo_typify-lib.json",
    "cargo_typify-bin.json",
]
FACTDRV = os.path.join(VERIF, "engines/factdrv/target/debug/factdrv")
TMPL = os.path.join(VERIF, "engines/tmpl/target/debug/tmpl")


class InfraError(Exception):
    pass


def facts_dir(repo=None):
    repo = repo or REPO
    if os.path.abspath(repo) == "/repo":
        return os.path.join(VERIF, "facts")
    if os.environ.get("VERIF_FACTS_BY_HASH"):
        # self-test batteries: scratch copies come and go, the facts of a given tree are kept (keyed by content)
        return os.path.join(CACHE, "facts-h" + tree_hash(repo)[:20])
    tag = hashlib.sha256(os.path.abspath(repo).encode()).hexdigest()[:12]
    return os.path.join(CACHE, "facts-" + tag)


def tree_hash(repo):
    h = hashlib.sha256()
    files = []
    for root, dirs, fs in os.walk(repo):
        dirs[:] = sorted(d for d in dirs if d not in ("target", ".git"))
        for f in sorted(fs):
            if f.endswith((".rs", ".toml", ".lock", ".json")):
                files.append(os.path.join(root, f))
    for p in files:
        h.update(os.path.relpath(p, repo).encode())
        h.update(b"\0")
        try:
            with open(p, "rb") as fh:
                h.update(fh.read())
        except OSError:
            h.update(b"<unreadable>")
        h.update(b"\0")
    # the engines are part of the function too
    for p in (FACTDRV, TMPL):
        try:
            st = os.stat(p)
            h.update(("%s:%d:%d" % (p, st.st_size, int(st.st_mtime))).encode())
        except OSError:
            h.update(b"<missing>")
    return h.hexdigest()


def _nightly():
    rustc = subprocess.check_output(["rustup", "which", "rustc", "--toolchain", "nightly"], text=True).strip()
    sysroot = subprocess.check_output([rustc, "--print", "sysroot"], text=True).strip()
    return rustc, sysroot


def rs_files(repo):
    out = []
    for pkg in PKGS:
        for p in sorted(glob.glob(os.path.join(repo, pkg, "src", "**", "*.rs"), recursive=True)):
            out.append(os.path.relpath(p, repo))
    return out


def ensure(repo=None, verbose=True):
    """Make sure facts for `repo`'s current tree exist; return the facts dir."""
    repo = repo or REPO
    fdir = facts_dir(repo)
    os.makedirs(CACHE, exist_ok=True)
    os.makedirs(fdir, exist_ok=True)
    want = tree_hash(repo)
    stamp = os.path.join(fdir, "STAMP")

    def fresh():
        try:
            st = json.load(open(stamp))
        except Exception:
            return False
        if st.get("hash") != want:
            return False
        return all(os.path.exists(os.path.join(fdir, f)) for f in EXPECTED + ["templates.json"])

    if fresh():
        return fdir
    lock = open(os.path.join(CACHE, "extract.lock"), "w")
    fcntl.flock(lock, fcntl.LOCK_EX)
    try:
        if fresh():
            return fdir
        t0 = time.time()
        for p in (FACTDRV, TMPL):
            if not os.path.exists(p):
                raise InfraError("engine not built: %s (run setup.sh)" % p)
        rustc, sysroot = _nightly()
        target = os.path.join(CACHE, "target")
        # force the wrapper to rerun for the product crates
        for pat in ("typify-*", "typify_*", "cargo-typify-*", "cargo_typify-*"):
            for d in glob.glob(os.path.join(target, "debug", ".fingerprint", pat)):
                shutil.rmtree(d, ignore_errors=True)
        for f in EXPECTED + ["templates.json", "STAMP"]:
            try:
                os.remove(os.path.join(fdir, f))
            except OSError:
                pass
        nonce = "%d-%d" % (os.getpid(), int(time.time() * 1000))
        env = dict(os.environ)
        env.update(
            FACTDRV_OUT=fdir,
            FACTDRV_CRATES=",".join(CRATES),
            FACTDRV_NONCE=nonce,
            CARGO_NET_OFFLINE="true",
            LD_LIBRARY_PATH=os.path.join(sysroot, "lib"),
            RUSTC=rustc,
            RUSTC_WORKSPACE_WRAPPER=FACTDRV,
            CARGO_TARGET_DIR=target,
            RUSTFLAGS="--cap-lints allow -Zmir-opt-level=0",
        )
        env.pop("RUSTUP_TOOLCHAIN", None)
        cmd = ["cargo", "check", "--offline"]
        for p in PKGS:
            cmd += ["-p", p]
        r = subprocess.run(cmd, cwd=repo, env=env, stdout=subprocess.PIPE, stderr=subprocess.STDOUT, text=True)
        if r.returncode != 0:
            raise InfraError("driver build failed (tree does not compile under the analysis driver):\n" + r.stdout[-4000:])
        for f in EXPECTED:
            p = os.path.join(fdir, f)
            if not os.path.exists(p):
                raise InfraError("fact file missing after driver run: %s\n%s" % (f, r.stdout[-2000:]))
            with open(p) as fh:
                head = fh.read(400)
            if nonce not in head:
                raise InfraError("fact file %s is stale (nonce mismatch)" % f)
        files = rs_files(repo)
        r = subprocess.run([TMPL, "extract", repo] + files, stdout=subprocess.PIPE, stderr=subprocess.PIPE, text=True)
        if r.returncode != 0:
            raise InfraError("tmpl extract failed: " + r.stderr[-2000:])
        with open(os.path.join(fdir, "templates.json"), "w") as fh:
            fh.write(r.stdout)
        json.dump({"hash": want, "nonce": nonce, "repo": os.path.abspath(repo), "wall_s": round(time.time() - t0, 2)}, open(stamp, "w"))
        if verbose:
            print("[extract] facts rebuilt from %s in %.1fs" % (repo, time.time() - t0), file=sys.stderr)
        return fdir
    finally:
        fcntl.flock(lock, fcntl.LOCK_UN)
        lock.close()


if __name__ == "__main__":
    try:
        print(ensure())
    except InfraError as e:
        print("INFRA: %s" % e, file=sys.stderr)
        sys.exit(2)
