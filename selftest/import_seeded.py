#!/usr/bin/env python3
"""import_seeded.py <root> <PID>:<k>:<first_run> ... — copy a confirmed sub-agent deliverable (<root>/<PID>-out/patch<k>.diff,
demo<k>/, notes<k>.md, confirmation log <root>/confirm/<PID>-<k>.log) into /verif/seeded/<PID>-<n>/ with the next free n.
first_run is one of own|other:<rule>|missed and records how the change fared against the checks as they stood when it arrived."""
import glob, json, os, re, shutil, sys
DST = '/verif/seeded'

def section(md, pat):
    out = []; on = False
    for l in md.splitlines():
        if l.startswith('#'):
            on = bool(re.search(pat, l, re.I)); continue
        if on: out.append(l)
    return "\n".join(out).strip()

root = sys.argv[1]
rnd = os.environ.get("ROUND", "2")
for spec in sys.argv[2:]:
    pid, k, first = spec.split(":", 2)
    k = int(k)
    d = os.path.join(root, pid + "-out")
    log = os.path.join(root, "confirm", "%s-%d.log" % (pid, k))
    conf = open(log).read() if os.path.exists(log) else ""
    if "RESULT confirmed" not in conf:
        print(spec, "NOT CONFIRMED - skipped"); continue
    n = 1
    while os.path.exists(os.path.join(DST, "%s-%d" % (pid, n))): n += 1
    sid = "%s-%d" % (pid, n)
    out = os.path.join(DST, sid); os.makedirs(out)
    shutil.copy(os.path.join(d, "patch%d.diff" % k), os.path.join(out, "patch.diff"))
    shutil.copytree(os.path.join(d, "demo%d" % k), os.path.join(out, "demo"), ignore=shutil.ignore_patterns('target', '*.log'))
    notes = open(os.path.join(d, "notes%d.md" % k)).read()
    open(os.path.join(out, "notes.md"), "w").write(notes)
    title = re.sub(r'^C\d\d (mutant|change) \d\s*[—:-]\s*', '', notes.splitlines()[0].lstrip('# ').strip())
    files = sorted(set(re.findall(r'^\+\+\+ b/(\S+)', open(os.path.join(out, "patch.diff")).read(), re.M)))
    if first == "own": fr = "caught by the check of its own property as it stood when the change arrived (round %s)" % rnd
    elif first.startswith("other"): fr = "not caught by its own property's check when it arrived (round %s): reported only by %s" % (rnd, first.split(":", 1)[1] if ":" in first else "another property's check")
    else: fr = "MISSED by every check as they stood when the change arrived (round %s); rules were strengthened (see DESIGN.md 12.7)" % rnd
    meta = {
        "id": sid, "breaks_property": pid, "summary": title, "files_changed": files, "round": int(rnd),
        "origin": "written by a fresh sub-agent that was given only the text of %s and a scratch worktree of /repo (nothing from /verif); deliverable %s/%s-out/patch%d.diff" % (pid, root, pid, k),
        "needs_to_manifest": section(notes, r'need|trigger|manifest'),
        "what_was_run": [
            "selftest/confirm_seed.sh %s %d  (MUT_ROOT=%s; fresh `git worktree` of /repo HEAD under /tmp; patch applied with git apply)" % (pid, k, root),
            "cargo test --workspace --no-fail-fast --offline  with the change: " + ("PASS (exit 0)" if "tests: PASS" in conf else "?"),
            "demo (cargo run --offline in demo/, path dependencies pointed at the worktree) with the change: " + (re.search(r'demo with change: (.*)', conf).group(1) if re.search(r'demo with change: (.*)', conf) else '?'),
            "same demo after reverting the change: " + (re.search(r'demo without change: (.*)', conf).group(1) if re.search(r'demo without change: (.*)', conf) else '?'),
        ],
        "confirmed": True,
        "how_to_rerun": "selftest/confirm_seed.sh --seeded %s   (needs a scratch worktree; removes it afterwards);  detection: python3 selftest/try_patch.py seeded/%s/patch.diff" % (sid, sid),
        "first_run": fr,
        "caught_by": [],
    }
    json.dump(meta, open(os.path.join(out, "meta.json"), "w"), indent=1)
    print(spec, "->", sid)
