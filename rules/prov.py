"""Provenance of strings that become identifiers: resolve an expression back to an IR name field,
a sanitiser call, a literal, or a settings / API input."""
import re
from lib import walk, nodes, src, psrc, strip_refs, short

IR_NAME_FIELDS = {
    ("TypeEntryEnum", "name"), ("TypeEntryStruct", "name"), ("TypeEntryNewtype", "name"),
    ("StructProperty", "name"), ("Variant", "ident_name"),
}
SANITIZERS = ("util::sanitize", "util::recase", "util::get_type_name")


def peel(e):
    """Strip refs, clones, as_ref/unwrap/as_str/to_string/to_owned/as_deref wrappers."""
    while isinstance(e, dict):
        k = e.get("k")
        if k == "ref" or k == "cast" or (k == "un" and e.get("op") == "Deref"):
            e = e["e"]
        elif k == "mcall" and e["name"] in ("clone", "as_ref", "unwrap", "as_str", "to_string", "to_owned", "as_deref", "expect", "into", "borrow", "deref") :
            e = e["recv"]
        elif k == "match" and e.get("src") == "try":
            e = e["scrut"]["args"][0] if e["scrut"].get("args") else e["scrut"]
        else:
            break
    return e


class Prov:
    def __init__(self, crate):
        self.c = crate
        self.callers_cache = {}

    def callers(self, q):
        if q not in self.callers_cache:
            out = []
            for h in self.c.user_fns():
                for n, _ in walk(h["body"]):
                    if n.get("k") in ("call", "mcall") and n.get("fn") == q:
                        out.append((h, n))
            self.callers_cache[q] = out
        return self.callers_cache[q]

    def of(self, h, e, depth=0):
        """Set of provenance tags for expression e inside fn record h."""
        e = peel(e)
        if not isinstance(e, dict) or depth > 6:
            return {"unknown:depth"}
        k = e.get("k")
        if k == "lit":
            return {"literal"}
        if k == "field":
            bty = self.c.ty(e.get("bty"))
            for (st, f) in IR_NAME_FIELDS:
                if f == e["name"] and re.search(r"\b%s\b" % st, bty):
                    return {"ir:%s.%s" % (st, f)}
            if "TypeSpaceSettings" in bty or "TypeSpacePatch" in bty:
                return {"settings:%s" % e["name"]}
            if e["name"] in ("0", "1") and isinstance(e.get("e"), dict):
                return self.of(h, e["e"], depth + 1)
            return {"unknown:field %s of %s" % (e["name"], bty[:40])}
        if k == "call" and e.get("res") == "ctor" and e.get("fn", "").endswith("::Some") and e.get("args"):
            return self.of(h, e["args"][0], depth + 1)
        if k in ("call", "mcall"):
            fn = e.get("fn", "")
            if any(fn.endswith(s) for s in SANITIZERS):
                return {"sanitize"}
            if fn.endswith("util::type_patch"):
                args = e.get("args", [])
                inner = self.of(h, args[1], depth + 1) if len(args) > 1 else {"unknown"}
                return inner | {"settings:patch.rename"}
            if k == "mcall" and e["name"] in ("unwrap_or", "unwrap_or_else", "map", "and_then", "or"):
                out = self.of(h, e["recv"], depth + 1)
                for a in e.get("args", []):
                    out |= self.of(h, a, depth + 1)
                return out
            if k == "mcall" and e["name"] in ("replace", "trim", "to_lowercase", "to_uppercase", "rsplit", "next", "split"):
                return self.of(h, e["recv"], depth + 1)
            return {"unknown:call %s" % short(fn)}
        if k == "macro" and e["name"] == "format":
            out = set()
            for a in e.get("args", []):
                out |= self.of(h, a, depth + 1)
            return out | {"format"}
        if k == "closure":
            return self.of(h, e["body"], depth + 1)
        if k == "block":
            t = e.get("tail")
            return self.of(h, t, depth + 1) if t is not None else {"unknown:block"}
        if k == "path" and e.get("res") == "local":
            ty = self.c.ty(e.get("ty")).replace("&", "").strip()
            if ty in ("usize", "u8", "u16", "u32", "u64", "i8", "i16", "i32", "i64", "isize"):
                return {"int"}
            return self.local(h, e["path"], depth, e)
        if k == "path" and e.get("path", "").endswith("::None"):
            return set()
        if k == "path" and e.get("res") == "const":
            return {"literal"}
        if k == "match" and e.get("src") == "normal":
            out = set()
            for a in e["arms"]:
                out |= self.of(h, a["body"], depth + 1)
            return out
        if k == "if":
            return self.of(h, e["then"], depth + 1) | (self.of(h, e["else"], depth + 1) if e.get("else") else set())
        return {"unknown:%s" % k}

    @staticmethod
    def _pos(n):
        sp = n.get("sp") if isinstance(n, dict) else None
        if not sp:
            return None
        parts = sp.rsplit(":", 2)
        try:
            return (parts[0], int(parts[1]), int(parts[2]))
        except Exception:
            return None

    def local(self, h, name, depth, at=None):
        out = set()
        found = False
        at_pos = self._pos(at) if at is not None else None
        # struct-pattern bindings anywhere in the fn
        for p, anc in walk(h):
            if p.get("k") == "struct" and p.get("fields") and isinstance(p["fields"][0], list) and not any(a.get("k") in ("call", "mcall", "struct") and a is not p for a in anc[-1:]):
                for fname, fp in p["fields"]:
                    if isinstance(fp, dict) and fp.get("k") == "bind" and fp["name"] == name and "path" in p and "pats" not in p:
                        st = p["path"].split("::")[-1]
                        if (st, fname) in IR_NAME_FIELDS:
                            out.add("ir:%s.%s" % (st, fname))
                            found = True
        if found:
            return out
        # scope-aware resolution first (also right for code inlined from a helper, whose spans are elsewhere)
        if at is not None:
            from lib import scope_binding, _anc_index
            anc_ = _anc_index(h).get(id(at))
            if anc_ is not None:
                b = scope_binding(h, anc_, name, at)
                if b and b[0] == "let" and isinstance(b[1].get("init"), dict):
                    return self.of(h, b[1]["init"], depth + 1)
        # let bindings: the nearest one that precedes the use and does not contain it
        cands = []
        for n, _ in nodes(h["body"], "let"):
            init = n.get("init")
            if init is None:
                continue
            pat = n["pat"]
            binds = False
            if pat.get("k") == "bind" and pat["name"] == name:
                binds = True
            elif pat.get("k") == "tuple" and any(pp.get("k") == "bind" and pp["name"] == name for pp in pat["pats"]):
                binds = True
            if not binds:
                continue
            if at is not None and any(x is at for x, _ in walk(init)):
                continue
            lp = self._pos(n)
            if at_pos and lp and lp[0] == at_pos[0] and (lp[1], lp[2]) > (at_pos[1], at_pos[2]):
                continue
            cands.append((lp or ("", 0, 0), n))
        if cands:
            cands.sort(key=lambda x: (x[0][1], x[0][2]))
            n = cands[-1][1] if at_pos else None
            for _, n2 in ([cands[-1]] if at_pos else cands):
                out |= self.of(h, n2["init"], depth + 1)
            found = True
        if found:
            return out
        # pattern bindings in if-let / match on something
        def holds(tree):
            return at is not None and any(x is at for x, _ in walk(tree))

        for n, _ in walk(h["body"]):
            if n.get("k") == "letx" and not holds(n["init"]):
                if any(b.get("k") == "bind" and b["name"] == name for b, _ in walk(n["pat"])):
                    return self.of(h, n["init"], depth + 1)
            if n.get("k") == "match" and n.get("src") == "normal" and not holds(n["scrut"]):
                for a in n["arms"]:
                    if any(b.get("k") == "bind" and b["name"] == name for b, _ in walk(a["pat"])):
                        return self.of(h, n["scrut"], depth + 1)
        # closure parameter: provenance of the adaptor's receiver
        for n, anc in walk(h["body"]):
            if n.get("k") == "closure" and any(b.get("k") == "bind" and b["name"] == name for p in n.get("params", []) for b, _ in walk(p)):
                par = anc[-1] if anc else {}
                if par.get("k") == "mcall":
                    return self.of(h, par["recv"], depth + 1)
        # fn parameter: callers
        params = []
        for p in h.get("params", []):
            b = [x["name"] for x, _ in walk(p) if x.get("k") == "bind"]
            params.append(b[0] if b else None)
        if name in params:
            idx = params.index(name)
            cs = self.callers(h["fn"])
            f = self.c.fns.get(h["fn"], {})
            api_tag = "api:%s#%d" % (short(h["fn"]), idx)
            if f.get("pub") and not cs:
                return {api_tag}
            for (ch, call) in cs:
                if ch["fn"] == h["fn"]:
                    continue  # recursive call passes the same parameter along
                args = list(call.get("args", []))
                if call.get("k") == "mcall":
                    args = [call["recv"]] + args
                if idx < len(args):
                    out |= self.of(ch, args[idx], depth + 1)
            if f.get("pub"):
                out.add(api_tag)
            return out or {"unknown:param %s without callers" % name}
        return {"unknown:local %s" % name}
