#!/usr/bin/env python3
"""try_patch.py <patch> [PID ...] — apply a patch to a scratch copy of /repo and run the given checks (default: all) against it."""
import os, shutil, subprocess, sys, tempfile
HERE = os.path.dirname(os.path.abspath(__file__)); VERIF = os.path.dirname(HERE)
patch = os.path.abspath(sys.argv[1]); pids = sys.argv[2:] or ["C%02d" % i for i in range(1, 20) if i != 4]
scratch = tempfile.mkdtemp(prefix="verif-try-")
try:
    repo = os.path.join(scratch, "repo")
    subprocess.check_call(["rsync", "-a", "--exclude", "target", "--exclude", ".git", "/repo/", repo + "/"])
    r = subprocess.run(["patch", "-p1", "-s", "-d", repo, "-i", patch], stdout=subprocess.PIPE, stderr=subprocess.STDOUT, text=True)
    if r.returncode != 0:
        print("patch does not apply:", r.stdout[-300:]); sys.exit(2)
    env = dict(os.environ, REPO=repo)
    for pid in pids:
        out = subprocess.run([os.path.join(VERIF, "check"), pid, "quick"], cwd=VERIF, env=env, stdout=subprocess.PIPE, stderr=subprocess.STDOUT, text=True)
        lines = [l.strip()[:260] for l in out.stdout.splitlines() if l.strip().startswith("violation") or "INFRA" in l or "Traceback" in l]
        print("%s exit=%d %s" % (pid, out.returncode, ("| " + " || ".join(lines[:3])) if lines else ""))
finally:
    shutil.rmtree(scratch, ignore_errors=True)
    cache = os.path.join(VERIF, ".cache")
    for d in os.listdir(cache):
        if d.startswith("facts-") or d.startswith("evidence-"):
            shutil.rmtree(os.path.join(cache, d), ignore_errors=True)
