"""Model of the three item emitters (enum / struct / newtype) shared by the template rules."""
import re
from lib import walk, nodes, src, psrc, guards, gtext, templates_in, pat_top_variants, Canon
import tmplparse as tp


class Tmpl:
    def __init__(self, node, anc, syn):
        self.node = node
        self.anc = anc
        self.syn = syn
        self.sp = node["sp"]
        self.tt = syn["tt"] if syn else []
        self.text = tp.squash(tp.flat(self.tt))
        self.guards = guards(anc, node)
        self.items = tp.split_items(self.tt)
        self.impls = tp.find_impls(self.tt)
        self.let = None
        for g in self.guards:
            if g[0] == "let":
                self.let = g[1]
        # innermost let wins for "bound to"
        lets = [g[1] for g in self.guards if g[0] == "let"]
        self.bound = lets[-1] if lets else None
        self.bound_outer = lets[0] if lets else None

    def conds(self):
        """Guards other than let-bindings (name-independent rendering when the emitter was normalised)."""
        gs = getattr(self, "cguards", None) or self.guards
        return [g for g in gs if g[0] != "let"]

    def arm_of(self, scrut_sub):
        """Pattern text of the enclosing arm of a match whose scrutinee mentions scrut_sub."""
        gs = getattr(self, "cguards", None) or self.guards
        for g in gs:
            if g[0] == "arm" and scrut_sub in g[3]:
                return g[1]
        return None

    def holes(self):
        return tp.holes(self.tt)


class Emitter:
    def __init__(self, facts, crate, h):
        self.h = h
        self.c = crate
        self.fn = h["fn"]
        self._canon = None
        self._hc = {}
        self.templates = [Tmpl(n, anc, syn) for (n, anc, syn) in templates_in(facts, crate, h) if syn]
        self.decl = None
        for t in self.templates:
            for it in t.items:
                if it["kind"] in ("struct", "enum") and str(it.get("name", "")).startswith("#") and not any(g[0] == "if" and "struct_builder" in g[1] for g in t.guards):
                    if self.decl is None:
                        self.decl = (t, it)

    def canon(self):
        if self._canon is None:
            self._canon = Canon(self.c, self.h, max_depth=4)
        return self._canon

    def hole_canon(self):
        """{hole name: provenance string} for every hole of every template of this emitter."""
        if not self._hc:
            cn = self.canon()
            for t in self.templates:
                for a in t.node.get("args", []):
                    if a.get("hole") and a["path"] not in self._hc:
                        self._hc[a["path"]] = cn.r(a)
        return self._hc

    def roles(self, table):
        """Map the emitter's actual hole names to role names: table = [(role, regex over the hole's provenance)].
        Returns {actual name: role}; rules then read templates with role names, whatever the locals are called."""
        import re as _re
        out = {}
        for name, cs in self.hole_canon().items():
            for role, rx in table:
                if _re.search(rx, cs):
                    out.setdefault(name, role)
                    break
        return out

    def ntext(self, t, rolemap, squash=True):
        """Template text with hole names replaced by roles (unmapped holes keep a `?` prefix)."""
        def ren(tt):
            out = []
            for x in tt:
                if x["t"] == "hole":
                    y = dict(x)
                    y["name"] = rolemap.get(x["name"], "?" + x["name"])
                    out.append(y)
                elif x["t"] in ("group", "rep"):
                    y = dict(x)
                    y["body"] = ren(x["body"])
                    out.append(y)
                else:
                    out.append(x)
            return out
        s = tp.flat(ren(t.tt))
        return tp.squash(s) if squash else s

    def ntt(self, t, rolemap):
        def ren(tt):
            out = []
            for x in tt:
                if x["t"] == "hole":
                    y = dict(x)
                    y["name"] = rolemap.get(x["name"], "?" + x["name"])
                    out.append(y)
                elif x["t"] in ("group", "rep"):
                    y = dict(x)
                    y["body"] = ren(x["body"])
                    out.append(y)
                else:
                    out.append(x)
            return out
        return ren(t.tt)

    def normalise(self, table):
        """Rename holes (and the lets they are bound to) to role names, and recompute the structural views."""
        R = self.roles(table)
        self.rolemap = R
        self.actual = {v: k for k, v in R.items()}
        cn = self.canon()
        for t in self.templates:
            t.tt = self.ntt(t, {**{h[0]: h[0] for h in t.holes()}, **R})
            t.text = tp.squash(tp.flat(t.tt))
            t.items = tp.split_items(t.tt)
            t.impls = tp.find_impls(t.tt)
            t.bound = R.get(t.bound, t.bound)
            t.bound_outer = R.get(t.bound_outer, t.bound_outer)
            t.cguards = cguards(cn, t.anc, t.node, R)
        self.decl = None
        for t in self.templates:
            for it in t.items:
                if it["kind"] in ("struct", "enum") and str(it.get("name", "")).startswith("#") and not any(g[0] == "if" and "struct_builder" in g[1] for g in t.guards):
                    if self.decl is None:
                        self.decl = (t, it)
        return self

    def let_of(self, role):
        """The `let` statement(s) binding the local that plays `role`."""
        name = self.actual.get(role, role)
        return [n for n, _ in nodes(self.h["body"], "let") if n["pat"].get("k") == "bind" and n["pat"]["name"] == name]

    def derive_set_ops(self):
        """(method, string literals, canonical guards, node) for every mutation of the derive-set parameter (found by its type)."""
        f = self.c.fns.get(self.fn, {})
        pname = None
        for i, ty in enumerate(f.get("inputs", [])):
            if "BTreeSet<&" in ty and "str" in ty and i < len(self.h.get("params", [])):
                p = self.h["params"][i]
                if p.get("k") == "bind":
                    pname = p["name"]
        out = []
        if pname is None:
            return out, None
        cn = self.canon()
        for n, anc in nodes(self.h["body"], "mcall"):
            r = n["recv"]
            while isinstance(r, dict) and r.get("k") == "ref":
                r = r["e"]
            if isinstance(r, dict) and r.get("k") == "path" and r.get("res") == "local" and r["path"] == pname and n["name"] in ("extend", "insert", "remove", "retain", "clear", "append"):
                lits = {x["v"]["str"] for x, _ in walk(n["args"]) if x.get("k") == "lit" and "str" in x["v"]}
                out.append((n["name"], lits, cguards(cn, anc, n, self.rolemap), n))
        return out, pname

    def used_as_hole(self, name):
        names = {name, getattr(self, "rolemap", {}).get(name, name), getattr(self, "actual", {}).get(name, name)}
        return [t for t in self.templates if any(h[0] in names for h in t.holes())]


from lib import cguards  # noqa: E402


def find_emitters(facts, crate):
    """{'enum': Emitter, 'struct': Emitter, 'newtype': Emitter} located by the shape of their item template."""
    out = {}
    for h in crate.user_fns():
        hasq = any(n.get("k") == "macro" and n["name"] == "quote" for n, _ in walk(h["body"]))
        if not hasq:
            continue
        e = Emitter(facts, crate, h)
        if e.decl is None:
            continue
        t, it = e.decl
        if it["kind"] == "enum":
            out.setdefault("enum", e)
        elif it["kind"] == "struct" and it["tuple"]:
            out.setdefault("newtype", e)
        elif it["kind"] == "struct":
            out.setdefault("struct", e)
    for kind, table in (("enum", ENUM_ROLES), ("struct", STRUCT_ROLES), ("newtype", NEWTYPE_ROLES)):
        if kind in out:
            out[kind].normalise(table)
    return out


TRAIT_PATHS = {
    "Default": "::std::default::Default",
    "FromStr": "::std::str::FromStr",
    "Display": "::std::fmt::Display",
}


# provenance -> role, shared by the template rules (regexes over Canon renderings)
COMMON_ROLES = [
    ("type_name", r"^format_ident!\(\$\S*~TypeEntry(Enum|Struct|Newtype)\.name\)$"),
    ("doc", r"^make_doc\("),
    ("derives", r"^strings_to_derives\("),
    ("default_stream", r"^self\.output_value\(.*\.default"),
]
NEWTYPE_ROLES = COMMON_ROLES + [
    ("constraint_impl", r"^match \S*\.constraints \{ TypeEntryNewtypeConstraints::None => quote!"),
    ("inner_type_name", r"^\S*\.id_to_entry\.get\(\S*\.type_id\)\.unwrap\(\)\.type_ident\(\S* None\)$"),
    ("vis", r"^match \S*\.constraints \{ TypeEntryNewtypeConstraints::None => Some\(quote!"),
    ("not", r"^match \S*\.constraints \{ TypeEntryNewtypeConstraints::EnumValue\(_\) => true \| _ => false \}\.then\("),
    ("value_output", r"^\S*constraints~(DenyValue|EnumValue)\.iter\(\)\.map\(.*\.output_value\("),
    ("max", r"^\S*String\.max_length\.(map|filter)\(.*quote!"),
    ("min", r"^\S*String\.min_length\.(map|filter)\(.*quote!"),
    ("pat", r"^\S*String\.pattern\.map\("),
    ("v", r"^elem<\S*String\.(max|min)_length\b.*>$"),
    ("p", r"^elem<\S*String\.pattern>$"),
    ("err", r"^format!\("),
    ("default_impl", r"^\S*\.default\.map\(\|\.\.\| quote!"),
    ("str_impl", r"^match \S* \{ TypeEntryDetails::String => true \| _ => false \}\.then\("),
    ("from_str_impl", r"^\(\S*\.has_impl\(\S* TypeSpaceImpl::FromStr\) And !match"),
    ("display_impl", r"^\S*\.has_impl\(\S* TypeSpaceImpl::Display\)\.then\("),
    ("constraint_impl", r"^match \S*\.constraints \{ TypeEntryNewtypeConstraints::None => quote!"),
]
ENUM_ROLES = COMMON_ROLES + [
    ("old_name", r"\.rename~Some$"),
    ("tag", r"\.tag_type~(Internal|Adjacent)\.tag$"),
    ("content", r"\.tag_type~Adjacent\.content$"),
    ("serde_options", r"^vec\["),
    ("serde", r"^!vec\[.*\.is_empty\(\)\.then\("),
    ("simple_enum_impl", r"^\S*contains\(TypeEntryEnumImpl::AllSimpleVariants\)\.then\("),
    ("match_variants", r"\.variants\.iter\(\)\.map\(.*\.unzip\(\)\.0$"),
    ("match_strs", r"\.variants\.iter\(\)\.map\(.*\.unzip\(\)\.1$"),
    ("display_strs", r"\.unzip\(\)\.1\.iter\(\)\.map\("),
    ("variant_name", r"^\S*\.variants\.iter\(\)\.map\(\|\.\.\| format_ident!\(elem<\S*\.variants\.iter\(\)>\.ident_name\.unwrap\(\)\)\)$"),
    ("variants_decl", r"\.variants\.iter\(\)\.map\(\|\.\.\| output_variant\("),
    ("simple_enum_impl", r"contains\(TypeEntryEnumImpl::AllSimpleVariants\)\.then\("),
    ("untagged_newtype_from_string_impl", r"contains\(TypeEntryEnumImpl::UntaggedFromStr\)\.then\("),
    ("untagged_newtype_to_string_impl", r"contains\(TypeEntryEnumImpl::UntaggedDisplay\)\.then\("),
    ("default_impl", r"^\S*\.default\.map\(\|\.\.\| quote!"),
    ("convenience_from", r"^quote!\(.*fold\("),
]
STRUCT_ROLES = COMMON_ROLES + [
    ("old_name", r"\.rename~Some$"),
    ("serde_options", r"^vec\[(quote!\(.*)?\]$|^vec\[quote"),
    ("serde", r"^!vec\[.*\.is_empty\(\)\.then\("),
    ("prop_doc", r"^vec\[elem<\S*\.properties\.iter\(\)>\.description\.map\("),
    ("prop_serde", r"^vec\[generate_serde_attr\(.*\)\.0\]$"),
    ("prop_name", r"^vec\[format_ident!\(elem<\S*\.properties\.iter\(\)>\.name\)\]$"),
    ("prop_error", r"^vec\[format!\(elem<\S*\.properties\.iter\(\)>\.name\)\]$"),
    ("prop_type", r"^vec\[\S*\.type_ident\(\S* None\)\]$"),
    ("prop_type_scoped", r"^vec\[\S*\.type_ident\(\S* Some\("),
    ("prop_default", r"^vec\[match generate_serde_attr\(.*\.iter\(\)\.map\(|^vec\[match generate_serde_attr"),
    ("err_msg", r"~None$"),
    ("custom_fn", r"~Custom$"),
    ("default_fn", r"~Default$|^parse_str\("),
    ("value_ident", r"^if vec\[.*\.is_empty\(\) quote!"),
    ("d", r"^elem<elem<\S*\.properties\.iter\(\)>\.description>$"),
]
