"""C19 — every generated type is public and carries the promised trait surface (template clauses)."""
import re
from lib import (Canon, norm_arm, walk, nodes, ends, src, psrc, outcome, contains_node, pat_top_variants, short, calls_in, block_last,
                 strip_refs, guards, gtext, top_stmts, templates_in)
import emit
import tmplparse as tp

EXPLANATION = (
    "Decides the shape of the three item templates and of the derive-set manipulation, not trait resolution of generated code: "
    "(T1) each item template (found by the shape `enum|struct #name`, so that removing `pub` does not lose the anchor) declares "
    "a `pub` item, struct fields are `pub`, and contains an unconditional `impl From<&T> for T` whose body clones; the helper "
    "modules and the error type are `pub`; (T2) the base derive set is exactly {Serialize, Deserialize, Debug, Clone}; the only "
    "removal from it is Deserialize, and it happens exactly in the arms that emit a hand-written `impl Deserialize` (pairing, "
    "both directions); (D1) comparison/ordering/hash derives are added under exactly two guards — every variant is Simple (enum, "
    "also Copy), the inner type is String (newtype) — neither of which admits a payload for which they are underivable; "
    "(T1, completeness) to_stream applies the item renderer to every entry of id_to_entry, unfiltered."
)
ASSUMPTIONS = ["user-supplied extra derives are the user's responsibility"]

BASE = {"::serde::Serialize", "::serde::Deserialize", "Debug", "Clone"}
CMP = {"PartialOrd", "Ord", "PartialEq", "Eq", "Hash"}


def derive_ops(em):
    """(op, literal set, canonical guards, node) for every mutation of the derive set in an emitter."""
    return em.derive_set_ops()[0]


def run(facts, rep, tier):
    c = facts.impl
    ems = emit.find_emitters(facts, c)
    if not rep.floor("C19.T1", "item emitters", len(ems), 3):
        return
    # ------------------------------------------------------------ T1
    for kind, em in sorted(ems.items()):
        t, it = em.decl
        rep.ob("C19.T1", "item-is-pub:%s" % kind, it["vis"] == "pub", "`%s %s %s` in the item template" % (it["vis"] or "(private)", it["kind"], it["name"]), t.sp)
        uncond = [g for g in t.conds()]
        rep.ob("C19.T1", "item-template-unconditional:%s" % kind, not uncond, "the declaration is emitted for every entry of this kind" if not uncond else "the declaration is conditional on %s" % gtext(uncond), t.sp)
        froms = [im for im in t.impls if re.fullmatch(r"::std::convert::From<&(Self|#type_name)>", im["trait"]) and im["self"] == "#type_name"]
        ok = bool(froms) and froms[0]["fns"] and froms[0]["fns"][0]["body_text"].replace(" ", "") == "value.clone()"
        rep.ob("C19.T1", "from-ref-self:%s" % kind, ok, "`impl From<&T> for T { value.clone() }` sits in the item template" if ok else "the %s item template lacks an unconditional `impl From<&T> for T`" % kind, t.sp)
        if kind == "struct":
            body = tp.flat(it["body"])
            okf = re.search(r"pub\s+#prop_name\s*:\s*#prop_type", body) is not None
            rep.ob("C19.T1", "struct-fields-pub", okf, "fields are `pub #prop_name: #prop_type`" if okf else "struct fields are not public: %s" % body[:80], t.sp)
        if kind == "newtype":
            rep.ob("C19.T1", "newtype-is-transparent", any("serde" in tp.flat(a) and "transparent" in tp.flat(a) for a in it["attrs"]), "#[serde(transparent)] on the newtype")
        # the item template is what is added to the crate module
        adds = [n for n, _ in nodes(em.h["body"], "mcall") if n["name"] == "add_item" and "OutputSpaceMod::Crate" in src(n["args"][0])]
        rep.ob("C19.T1", "item-added:%s" % kind, any(contains_node(a, t.node) or (t.bound_outer and t.bound_outer in src(a["args"][2])) for a in adds), "the item template is passed to add_item(Crate, name, ..)")
    # every entry of the space is rendered: the loop that calls the item renderer ranges over the unfiltered index
    outs_ = [h_ for h_ in c.user_fns() if ends(h_["fn"], "TypeEntry::output")]
    ts_ = [h_ for h_ in c.user_fns() if ends(h_["fn"], "TypeSpace::to_stream")]
    if outs_ and ts_:
        cnt_ = Canon(c, ts_[0], 4)
        calls_ = [n_ for n_, _ in walk(ts_[0]["body"]) if n_.get("k") in ("call", "mcall") and n_.get("fn") == outs_[0]["fn"]]
        if rep.floor("C19.T1", "call of the item renderer in to_stream", len(calls_), 1):
            rv = cnt_.r(calls_[0]["recv"]) if calls_[0].get("k") == "mcall" else cnt_.r(calls_[0]["args"][0])
            okr = re.fullmatch(r"elem<self\.id_to_entry\.values\(\)>|Iterator::next\(IntoIterator::into_iter\(self\.id_to_entry\.values\(\)\)\)~Some(\.0)?", rv) is not None
            rep.ob("C19.T1", "every-entry-rendered", okr, "to_stream renders every entry of id_to_entry" if okr else
                   "the item renderer is applied to `%s`, not to every entry of the type space: a type that other generated code refers to (and that the Type API reports) is not defined in the output" % rv[:140], calls_[0].get("sp"))
    # modules and the error type
    osp = [h for h in c.user_fns() if h["fn"].endswith("OutputSpace::into_stream")]
    if rep.floor("C19.T1", "OutputSpace::into_stream", len(osp), 1):
        mods = {}
        for (n, anc, t) in templates_in(facts, c, osp[0]):
            if t:
                for it in tp.split_items(t["tt"]):
                    if it["kind"] == "mod":
                        mods[it["name"]] = it["vis"]
        for m in ("builder", "defaults", "error"):
            rep.ob("C19.T1", "mod-pub:%s" % m, mods.get(m) == "pub", "pub mod %s" % m if mods.get(m) == "pub" else "module %s is %s" % (m, mods.get(m)))
    ts = [h for h in c.user_fns() if ends(h["fn"], "TypeSpace::to_stream")]
    if ts:
        for (n, anc, t) in templates_in(facts, c, ts[0]):
            if t:
                for it in tp.split_items(t["tt"]):
                    if it["kind"] == "struct" and it["name"] == "ConversionError":
                        rep.ob("C19.T1", "error-type-pub", it["vis"] == "pub", "pub struct ConversionError")

    # ------------------------------------------------------------ T2 base set and the Deserialize pairing
    outs = [h for h in c.user_fns() if ends(h["fn"], "TypeEntry::output")]
    if rep.floor("C19.T2", "TypeEntry::output (base derive set)", len(outs), 1):
        arr = [n for n, _ in nodes(outs[0]["body"], "array")]
        lits = {x["v"]["str"] for x, _ in walk(arr[0]) if x.get("k") == "lit"} if arr else set()
        rep.ob("C19.T2", "base-derive-set", lits == BASE, "base derives = %s" % sorted(lits), arr[0]["es"][0].get("sp") if arr and arr[0].get("es") else None)
        # each emitter receives it
        cn = Canon(c, outs[0], 4)
        for kind, em in ems.items():
            calls = [n for n, _ in nodes(outs[0]["body"], "mcall") if n.get("fn") == em.fn]
            ok = bool(calls) and any(re.search(r"\[\"::serde::Serialize\", \"::serde::Deserialize\", \"Debug\", \"Clone\"\]\.into_iter\(\)\.collect\(\)", cn.r(a)) for a in calls[0]["args"])
            rep.ob("C19.T2", "base-set-passed:%s" % kind, ok, "%s receives the base set" % em.fn.split("::")[-1] if ok else "%s is not handed the base derive set" % em.fn.split("::")[-1])
    for kind, em in sorted(ems.items()):
        ops = derive_ops(em)
        removes = [o for o in ops if o[0] in ("remove", "retain", "clear")]
        deser_tmpls = [t for t in em.templates if any(im["trait"].startswith("::serde::Deserialize<") and im["self"] == "#type_name" for im in t.impls)]
        arms_removed = set()
        for (op, lits, gs, n) in removes:
            arm = [g[1] for g in gs if g[0] == "arm"]
            key = arm[-1] if arm else "top"
            ok = op == "remove" and lits == {"::serde::Deserialize"}
            rep.ob("C19.T2", "only-deserialize-removed:%s/%s" % (kind, key.split("{")[0].split("(")[0].split("::")[-1]), ok, "derive_set.%s(%s)" % (op, sorted(lits)), n.get("sp"))
            arms_removed.add(key)
        arms_impl = set()
        for t in deser_tmpls:
            arm = [g[1] for g in t.conds() if g[0] == "arm"]
            arms_impl.add(arm[-1] if arm else "top")
        for a in sorted(arms_removed | arms_impl):
            short_a = a.split("{")[0].split("(")[0].split("::")[-1]
            ok = a in arms_removed and a in arms_impl
            rep.ob("C19.T2", "deserialize-pairing:%s/%s" % (kind, short_a), ok,
                   "derive removed ⇔ hand-written `impl Deserialize` emitted, in the same arm" if ok else
                   ("the arm removes the Deserialize derive but emits no `impl Deserialize`: the type cannot be deserialized" if a in arms_removed else
                    "the arm emits `impl Deserialize` but keeps the derive: conflicting impls / the derive bypasses validation"), None)
        if kind == "newtype":
            rep.floor("C19.T2", "arms with a hand-written Deserialize", len(arms_impl), 2)

    # ------------------------------------------------------------ D1 comparison derives
    for kind, em in sorted(ems.items()):
        for (op, lits, gs, n) in derive_ops(em):
            if op not in ("extend", "insert", "append"):
                continue
            conds = [g for g in gs if g[0] == "if"]
            key = "%s#%d" % (kind, sum(1 for o in rep.obligations if o["key"].startswith("C19.D1/cmp-derives-guard:%s#" % kind)))
            if kind == "enum":
                allowed = CMP | {"Copy"}
                gok = len(conds) == 1 and bool(re.fullmatch(r"\S*~TypeEntryEnum\.variants\.iter\(\)\.all\(\|\.\.\| match elem<\S*~TypeEntryEnum\.variants\.iter\(\)>\.details \{ VariantDetails::Simple => true \| _ => false \}\)", conds[0][1]))
            elif kind == "newtype":
                allowed = set(CMP)
                gok = len(conds) == 1 and bool(re.fullmatch(r"match \S*\.id_to_entry\.get\(\S*~TypeEntryNewtype\.type_id\)\.unwrap\(\)\.details \{ TypeEntryDetails::String => true \| _ => false \}", conds[0][1]))
            else:
                allowed = set()
                gok = False
            ok = gok and lits <= allowed and bool(lits)
            rep.ob("C19.D1", "cmp-derives-guard:" + key, ok,
                   "%s added under `%s`" % (sorted(lits), conds[0][1][:70] if conds else "") if ok else
                   "derives %s are added under `%s`, which does not guarantee they are derivable (allowed: all-Simple enum / String newtype)" % (sorted(lits), gtext(conds) or "no condition"), n.get("sp"))
    rep.floor("C19.D1", "sites adding comparison derives", sum(1 for o in rep.obligations if o["key"].startswith("C19.D1/cmp-derives-guard:")), 2)
    rep.sample({"rule": "C19", "emitters": {k: e.fn for k, e in ems.items()}})
