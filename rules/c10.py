"""C10 — built-in type selection can represent every value the schema admits (table clauses)."""
import re
from lib import (Canon, norm_arm, walk, nodes, ends, src, psrc, outcome, contains_node, pat_top_variants, short, calls_in, block_last,
                 strip_refs, guards, gtext)

EXPLANATION = (
    "Decides the structure of the selection tables and, by evaluation over the property's boundary lattice, the bounds-driven "
    "search and the three default range checks; it does not decide floating-point rounding between lattice points, nor the "
    "string-format conversions beyond their table: (D1) each row of the integer format table "
    "pairs its format name with the type of the same signedness and width, its two limits are <that type>::MIN/MAX and its "
    "NonZero column has the row's width; (D2) every search over the table that returns a row's type reads both limit columns of "
    "the row (a one-sided bound must not select a type by one limit only), and the by-format lookup returns the row only under "
    "both range tests; (D3) every use of the NonZero column is control-dependent on `min == 1`; (D4) the fall-backs are the wide "
    "types (unknown string format -> String, float selector wildcard -> f64, integer last resort -> i64) and recognised string "
    "formats map to the documented types; (D5) the default range checks are evaluated (rules/minirust.py): on the path that answers from the format's row, in the "
    "general check and in the number conversion a default is rejected with InvalidValue exactly when it lies outside the schema's "
    "range (stated bounds, the format's limits otherwise), the general check runs after the last assignment to the bounds, and a "
    "number conversion without such a check is a violation; (D6) exclusive bounds become "
    "inclusive integer bounds by exactly +1 / -1 and combine with max()/min(); (D7) each bounds-driven search over the table is "
    "*evaluated* (a small interpreter over its HIR: comparisons, `abs`, `&&`/`||`, if/else, casts of the integer limits) on every "
    "row of the table in iteration order, for boundary scenarios built from the rows' own limits (bound = a row's limit, bound "
    "= 1, no bound): whenever it answers a type, that type's range (the row's limits; 1..=unsigned max for the NonZero column) "
    "contains the schema's range, where a missing bound means at least the i64 limit on that side; "
    "(D4, closed table) every literal arm of the string-format table is a documented format; the table has one unguarded arm "
    "per format."
    " D7 and the general part of D5 are decided by evaluating the fragment over the boundary scenarios of the bounds (rules/minirust.py), whatever its shape; the closure-shaped path explanations (D2/D3) are required only when the search is not evaluable."
)
ASSUMPTIONS = ["schemars represents bounds as f64; precision loss above 2^53 is not decided"]

FMT_SPEC = {"int8": "i8", "uint8": "u8", "int16": "i16", "uint16": "u16", "int": "i32", "int32": "i32", "uint": "u32", "uint32": "u32", "int64": "i64", "uint64": "u64"}
STR_FMT_SPEC = {"uuid": "::uuid::Uuid", "date": "::chrono::naive::NaiveDate", "date-time": "::chrono::DateTime<::chrono::offset::Utc>",
                "ip": "::std::net::IpAddr", "ipv4": "::std::net::Ipv4Addr", "ipv6": "::std::net::Ipv6Addr"}


def find_int_selector(c):
    for h in c.user_fns():
        for n, _ in nodes(h["body"], "array"):
            es = n.get("es", [])
            if len(es) >= 6 and all(e.get("k") == "tup" and len(e["es"]) == 5 for e in es):
                return h, n
    return None, None


def reads(body, name):
    return any(x.get("k") == "path" and x.get("res") == "local" and x["path"] == name for x, _ in walk(body))


TIER = "quick"


def run(facts, rep, tier):
    global TIER
    TIER = tier
    c = facts.impl
    h, table = find_int_selector(c)
    if not rep.floor("C10.D1", "integer format table (array of 5-tuples)", 1 if table else 0, 1):
        return
    rows = table["es"]
    rep.floor("C10.D1", "rows of the integer format table", len(rows), 10)
    seen_fmt = set()
    for r in rows:
        fmt, ty, nz, lo, hi = r["es"]
        f = fmt["v"].get("str") if fmt.get("k") == "lit" else None
        t = ty["v"].get("str") if ty.get("k") == "lit" else None
        z = nz["v"].get("str") if nz.get("k") == "lit" else None
        lo_s, hi_s = src(lo), src(hi)
        lo_p = lo["e"].get("path") if lo.get("k") == "cast" else None
        hi_p = hi["e"].get("path") if hi.get("k") == "cast" else None
        seen_fmt.add(f)
        width = re.sub(r"\D", "", t or "")
        ok_ty = FMT_SPEC.get(f) == t
        ok_lim = lo_p == "%s::MIN" % t and hi_p == "%s::MAX" % t
        ok_nz = z == "::std::num::NonZeroU%s" % width
        rep.ob("C10.D1", "row:%s" % f, ok_ty and ok_lim and ok_nz,
               "%s -> %s, limits %s..%s, NonZero %s" % (f, t, lo_p, hi_p, z) if (ok_ty and ok_lim and ok_nz) else
               "row %s is inconsistent: type %s (expected %s), limits %s..%s (expected %s::MIN..MAX), NonZero %s" % (f, t, FMT_SPEC.get(f), lo_p, hi_p, t, z), lo["e"].get("sp") if lo.get("k") == "cast" else None)
    for f in FMT_SPEC:
        rep.ob("C10.D1", "format-known:%s" % f, f in seen_fmt, "format %s has a row" % f)
    rep.sample({"rule": "C10.D1", "rows": [src(r) for r in rows[:3]]})

    # the locals that hold the effective inclusive bounds: (min, max, multiple) = .. minimum/maximum ..
    cnh = Canon(c, h, 3)
    MIN = MAX = None
    for n, _ in nodes(h["body"], "let"):
        if n["pat"].get("k") == "tuple" and len(n["pat"]["pats"]) == 3 and n.get("init") is not None:
            s0 = cnh.r(n["init"])
            if "exclusive_minimum" in s0 and "exclusive_maximum" in s0:
                names3 = [p_.get("name") for p_ in n["pat"]["pats"]]
                MIN, MAX = names3[0], names3[1]
    rep.floor("C10.D3", "locals holding the effective bounds", (1 if MIN else 0) + (1 if MAX else 0), 2)
    MIN = MIN or "min"
    MAX = MAX or "max"

    # ------------------------------------------------------------ D2 / D3
    closures = []
    for n, anc in nodes(h["body"], "closure"):
        if not n["params"] or n["params"][0].get("k") != "tuple" or len(n["params"][0]["pats"]) != 5:
            continue
        par = anc[-1] if anc else {}
        closures.append((n, par, anc))
    # the bounds-driven search is decided by evaluation whatever its shape (D7); the closure-shaped rules below (D2/D3) add
    # path-level explanations when the search is written as closures over the rows, and are not required otherwise
    evaluated = run_d7_eval(facts, rep, c, h, table, MIN, MAX)
    rep.floor("C10.D2", "closures over table rows", len(closures), 1 if evaluated else 4)
    for idx, (clo, par, anc) in enumerate(closures):
        pats = clo["params"][0]["pats"]
        names = [p["name"] if p.get("k") == "bind" else None for p in pats]
        meth = par.get("name") if par.get("k") == "mcall" else "?"
        # the match arm this search sits in, for the key
        arm = [g for g in guards(anc, clo) if g[0] == "arm" and MIN in g[3] and MAX in g[3]]
        cell = re.sub(r"\b[a-z_][a-z0-9_]*\b", lambda m_: m_.group(0) if m_.group(0) in ("Some", "None") else "_", arm[-1][1].replace(" ", "")) if arm else meth
        body = clo["body"]
        returns_type = names[1] is not None and reads(body, names[1]) or (names[2] is not None and reads(body, names[2]))
        if meth == "find_map" or returns_type:
            lo_read = names[3] is not None and reads(body, names[3])
            hi_read = names[4] is not None and reads(body, names[4])
            rep.ob("C10.D2", "both-limits-read:%s" % cell, lo_read and hi_read,
                   "row pattern %s: both limit columns are compared" % psrc(clo["params"][0]) if lo_read and hi_read else
                   "search %s selects a row's type reading only %s of its limits (pattern %s): a one-sided bound picks a type narrower than the schema" % (cell, "the upper" if hi_read else "the lower" if lo_read else "none", psrc(clo["params"][0])), clo.get("sp"))
            # path-sensitive: a row returned on a path that has not compared the row's upper limit must be the widest row,
            # i.e. the search visits the table (ordered narrow -> wide) from its end
            for x, xa in walk(body):
                if x.get("k") == "call" and x.get("res") == "ctor" and (x.get("fn") or "").endswith("::Some") and x.get("args"):
                    col = [nm_ for nm_ in (names[1], names[2]) if nm_ and reads(x["args"][0], nm_)]
                    if not col:
                        continue
                    gtxt = " & ".join(g[1] for g in guards(xa, x) if g[0] in ("if", "else"))
                    hi_on_path = names[4] is not None and re.search(r"\b%s\b" % re.escape(names[4]), gtxt) is not None
                    if hi_on_path:
                        continue
                    recv = src(par.get("recv")) if par.get("k") == "mcall" else ""
                    hip = [(r_["es"][4]["e"].get("path") if r_["es"][4].get("k") == "cast" else None) for r_ in rows]
                    widest_first = recv.endswith(".iter().rev()") and hip[-1] == "u64::MAX" and hip.count("u64::MAX") == 1
                    rep.ob("C10.D2", "unchecked-upper-limit-takes-widest-row:%s" % cell, widest_first,
                           "the `%s` column is returned without comparing the row's upper limit, from a search that starts at the widest row (`.iter().rev()`, last row = u64)" % col[0] if widest_first else
                           "search %s returns the `%s` column of the first row visited without comparing its upper limit, and visits `%s`: the narrowest row wins, so values up to the schema's maximum do not fit" % (cell, col[0], recv[-40:]), x.get("sp") or clo.get("sp"))
            # D3: NonZero column only under min == 1
            if names[2] is not None:
                for x, xa in walk(body):
                    if x.get("k") == "path" and x.get("res") == "local" and x["path"] == names[2]:
                        conds = [g for g in guards(xa, x) if g[0] == "if"]
                        # the name bound to the lower bound inside this arm's pattern
                        lo_names = {MIN}
                        for a_ in anc:
                            if a_.get("k") is None and "pat" in a_ and a_["pat"].get("k") == "tuple" and len(a_["pat"]["pats"]) == 2:
                                for b_, _ in walk(a_["pat"]["pats"][0]):
                                    if b_.get("k") == "bind":
                                        lo_names.add(b_["name"])
                        ok = any(re.search(r"\((%s) Eq 1\.?0?\)|(%s) Eq Some\(1" % ("|".join(map(re.escape, lo_names)), "|".join(map(re.escape, lo_names))), g[1]) for g in conds)
                        rep.ob("C10.D3", "nonzero-needs-min-1:%s" % cell, ok, "NonZero column used under `%s`" % (conds[-1][1] if conds else "no condition"), clo.get("sp"))
    if not evaluated:
        run_d7(facts, rep, c, h, rows, closures, MIN, MAX)
    # the by-format lookup
    finds = [(clo, par) for (clo, par, anc) in closures if par.get("name") == "find"]
    if rep.floor("C10.D2", "by-format lookup (find over the table)", len(finds), 1):
        # the if-let binding the found row
        for n, _ in nodes(h["body"], "if"):
            if n["cond"].get("k") == "letx" and contains_node(n["cond"]["init"], finds[0][0]):
                binds = [b["name"] for b, _ in walk(n["cond"]["pat"]) if b.get("k") == "bind"]
                tpl = [p for p, _ in walk(n["cond"]["pat"]) if p.get("k") == "tuple" and len(p["pats"]) == 5]
                if not tpl:
                    continue
                nm = [p["name"] if p.get("k") == "bind" else None for p in tpl[0]["pats"]]
                s = src(n["then"])
                vmin = [x for x, _ in nodes(n["then"], "let") if x["pat"].get("k") == "bind" and nm[3] and nm[3] in src(x.get("init")) and ".ge(" in src(x.get("init"))]
                vmax = [x for x, _ in nodes(n["then"], "let") if x["pat"].get("k") == "bind" and nm[4] and nm[4] in src(x.get("init")) and ".le(" in src(x.get("init"))]
                okv = bool(vmin) and bool(vmax)
                rep.ob("C10.D2", "format-row-range-tests", okv, "valid_min = min >= row.min, valid_max = max <= row.max" if okv else "the by-format path does not test both bounds against the row's limits", n.get("sp"))
                if okv:
                    a, b = vmin[0]["pat"]["name"], vmax[0]["pat"]["name"]
                    rets = [(x, xa) for x, xa in walk(n["then"]) if x.get("k") == "ret" and "new_integer" in src(x)]
                    for i, (x, xa) in enumerate(rets):
                        conds = " & ".join(g[1] for g in guards(xa, x) if g[0] == "if")
                        ok = a in conds and b in conds
                        rep.ob("C10.D2", "format-row-returned-under-both-tests#%d" % i, ok, "returned under `%s`" % conds[:100], x.get("sp"))
                        if nm[2] and nm[2] in src(x):
                            rep.ob("C10.D3", "nonzero-needs-min-1:by-format", bool(re.search(r"%s Eq Some\(1" % re.escape(MIN), conds)), "NonZero type returned under `%s`" % conds[:100], x.get("sp"))
                    rep.floor("C10.D2", "returns on the by-format path", len(rets), 2)
                    # D5a
                    errs = [x for x, _ in nodes(n["then"], "if") if outcome(x["then"]) == "ret-err"]
                    ok5 = False
                    for x in errs:
                        cs = src(x["cond"])
                        if " Or " in cs and " Lt " in cs and " Gt " in cs and nm[3] in cs and nm[4] in cs and "InvalidValue" in src(x["then"]):
                            ok5 = True
                    rep.ob("C10.D5", "format-default-range", ok5, "`if default < imin || default > imax { return Err(InvalidValue) }`" if ok5 else "the default is not range-checked against the format's limits with an InvalidValue error", n.get("sp"))
    # D5a by evaluation: on the by-format path (a recognised format, bounds inside the format's limits, no multipleOf) the
    # function answers at once; a default is admitted only inside the *schema's* range - the stated bounds where there are
    # some, the format's limits otherwise
    import minirust as mr0
    from lib import top_stmts as _tops
    tl0 = [n for n, _ in nodes(h["body"], "let") if n.get("init") is not None and n["pat"].get("k") == "bind" and contains_node(n["init"], table)]
    byf = [st for st in _tops(h) if tl0 and reads(st, tl0[0]["pat"]["name"]) and st.get("k") == "if" and any(x.get("k") == "field" and x.get("name") == "default" for x, _ in walk(st))]
    fparam = mparam0 = None
    for i_, t_ in enumerate(c.fns[h["fn"]]["inputs"]):
        if i_ < len(h.get("params", [])) and h["params"][i_].get("k") == "bind":
            if "Metadata" in t_:
                mparam0 = h["params"][i_]["name"]
            elif t_.replace("&", "").strip() == "std::option::Option<std::string::String>":
                fparam = h["params"][i_]["name"]
    mult = None
    for n, _ in nodes(h["body"], "let"):
        if n["pat"].get("k") == "tuple" and len(n["pat"]["pats"]) == 3 and [p_.get("name") for p_ in n["pat"]["pats"]][:2] == [MIN, MAX]:
            mult = n["pat"]["pats"][2].get("name")
    if byf and fparam and mparam0 and mult:
        st = byf[0]
        m0 = mr0.Machine(c, hooks={"as_f64": lambda mach, v: mr0.some(v[1]) if isinstance(v, tuple) and v and v[0] == "json" else mr0.NONE,
                                   "new_integer": lambda mach, t: ("int", t)})
        bad = None
        bad_ty = None
        nsc = 0
        try:
            rows_v = m0.ev(tl0[0]["init"], mr0.Env())
            for row in rows_v:
                fmt, ty, nz, flo, fhi = row[1]
                for lo in (None, flo, flo + 1.0, 1.0 if flo <= 1.0 <= fhi else None):
                    for hi in (None, fhi, fhi - 1.0, 100.0 if flo <= 100.0 <= fhi else None):
                        if lo is not None and hi is not None and lo > hi:
                            continue
                        elo = lo if lo is not None else flo
                        ehi = hi if hi is not None else fhi
                        for x in sorted({elo - 1.0, elo, elo + 1.0, ehi - 1.0, ehi, ehi + 1.0, flo, fhi, 0.0}):
                            meta = mr0.some(("struct", "Metadata", {"default": mr0.some(("json", x))}))
                            env = mr0.Env(init={tl0[0]["pat"]["name"]: rows_v, fparam: mr0.some(fmt), mparam0: meta, MIN: mr0.some(lo) if lo is not None else mr0.NONE,
                                                MAX: mr0.some(hi) if hi is not None else mr0.NONE, mult: mr0.NONE})
                            m0.fuel = 100000
                            try:
                                m0.ev(st, env)
                                continue  # fell through to the general path
                            except mr0.Return as r_:
                                v_ = r_.value
                            nsc += 1
                            accepted = isinstance(v_, tuple) and v_ and v_[0] == "Ok"
                            if accepted:
                                # the type answered on this path contains the schema's range; NonZero only without zero
                                tv = v_[1][1][0] if isinstance(v_[1], tuple) and v_[1] and v_[1][0] == "tup" else None
                                tn = tv[1] if isinstance(tv, tuple) and tv and tv[0] == "int" else None
                                if tn in INT_LIMITS:
                                    tlo, thi = INT_LIMITS[tn]
                                else:
                                    mz_ = re.fullmatch(r"::std::num::NonZeroU(8|16|32|64)", tn or "")
                                    tlo, thi = (1.0, float(2 ** int(mz_.group(1)) - 1)) if mz_ else (None, None)
                                if tlo is None:
                                    bad_ty = "format %s: the by-format path answers `%s`, which is not a type of the table" % (fmt, tn)
                                elif tlo > elo or thi < ehi:
                                    bad_ty = "format %s with minimum %s / maximum %s: the by-format path answers `%s` (%g..=%g), which cannot represent every admitted value of %g..=%g" % (
                                        fmt, "absent" if lo is None else "%g" % lo, "absent" if hi is None else "%g" % hi, tn, tlo, thi, elo, ehi)
                            inside = elo <= x <= ehi
                            if accepted and not inside:
                                bad = "format %s with minimum %s / maximum %s: a default of %g is accepted although the schema admits only %g..=%g" % (
                                    fmt, "absent" if lo is None else "%g" % lo, "absent" if hi is None else "%g" % hi, x, elo, ehi)
                            elif not accepted and inside:
                                bad = "format %s with minimum %s / maximum %s: a default of %g is rejected although it lies inside %g..=%g" % (
                                    fmt, "absent" if lo is None else "%g" % lo, "absent" if hi is None else "%g" % hi, x, elo, ehi)
                            if bad:
                                break
                        if bad:
                            break
                    if bad:
                        break
                if bad:
                    break
        except mr0.Unknown as e_:
            bad = "not evaluable (%s)" % e_
        rep.ob("C10.D2", "format-path-type-contains-range", bad_ty is None, "on the by-format path the answered type contains the schema's range in every scenario" if bad_ty is None else bad_ty, st.get("sp"))
        rep.ob("C10.D5", "format-path-default-range", bad is None, "evaluated on %d scenarios: on the by-format path a default is accepted exactly inside the schema's range" % nsc if bad is None else
               "on the path that answers from the format's row: %s (a default outside the admitted range must be reported)" % bad, st.get("sp"))
    rep.floor("C10.D5", "by-format statement with a default check", len(byf), 1)

    # D5b: the general default check, decided by evaluation (any shape): the statement that compares the schema's default
    # with the effective bounds must answer InvalidValue exactly when the default lies outside them, and no statement after
    # it may still assign the bounds
    import minirust as mr
    from lib import top_stmts
    tops = top_stmts(h)
    tbl_let = [n for n, _ in nodes(h["body"], "let") if n.get("init") is not None and n["pat"].get("k") == "bind" and contains_node(n["init"], table)]
    tname = tbl_let[0]["pat"]["name"] if tbl_let else None

    def assigns_bounds(st):
        out = []
        for x, xa in walk(st):
            if x.get("k") in ("assign", "assignop"):
                l = strip_refs(x["l"])
                if l.get("k") == "path" and l.get("res") == "local" and l["path"] in (MIN, MAX):
                    out.append((x, xa))
        return out
    def _mentions(st_, word):
        return any((x.get("k") == "field" and x.get("name") == word) or (x.get("k") == "path" and str(x.get("path", "")).endswith("::" + word)) for x, _ in walk(st_))
    checks = [st for st in tops if _mentions(st, "default") and _mentions(st, "InvalidValue") and (reads(st, MIN) or reads(st, MAX))
              and not assigns_bounds(st) and not (tname and reads(st, tname))]
    ok5b = False
    if rep.floor("C10.D5", "general default range check", len(checks), 1):
        st = checks[0]
        m5 = mr.Machine(c, hooks={"as_f64": lambda mach, v: mr.some(v[1]) if isinstance(v, tuple) and v and v[0] == "json" else mr.NONE,
                                  "is_number": lambda mach, v: isinstance(v, tuple) and v and v[0] == "json"})
        mparam = None
        for i_, t_ in enumerate(c.fns[h["fn"]]["inputs"]):
            if "Metadata" in t_ and i_ < len(h.get("params", [])) and h["params"][i_].get("k") == "bind":
                mparam = h["params"][i_]["name"]
        bad = None
        nsc = 0
        if mparam is None:
            bad = "the metadata parameter was not found"
        else:
            for lo in (None, 0.0, 10.0):
                for hi in (None, 10.0, 20.0):
                    if lo is not None and hi is not None and lo > hi:
                        continue
                    probes = {5.0, -1.0, 25.0}
                    for b_ in (lo, hi):
                        if b_ is not None:
                            probes |= {b_ - 1.0, b_, b_ + 1.0}
                    for x in sorted(probes):
                        meta = mr.some(("struct", "Metadata", {"default": mr.some(("json", x)), "title": mr.NONE, "description": mr.NONE}))
                        env = mr.Env(init={mparam: meta, MIN: mr.some(lo) if lo is not None else mr.NONE, MAX: mr.some(hi) if hi is not None else mr.NONE})
                        m5.fuel = 100000
                        try:
                            try:
                                r_ = m5.ev(st if st.get("k") != "let" else st["init"], env)
                                err = isinstance(r_, tuple) and r_ and r_[0] == "Err"
                            except mr.Return as ret:
                                err = isinstance(ret.value, tuple) and ret.value and ret.value[0] == "Err"
                        except mr.Unknown as e_:
                            bad = "not evaluable (%s)" % e_
                            break
                        nsc += 1
                        want = (lo is not None and x < lo) or (hi is not None and x > hi)
                        if err != want:
                            bad = "for minimum %s / maximum %s a default of %g is %s" % ("absent" if lo is None else "%g" % lo, "absent" if hi is None else "%g" % hi, x,
                                                                                        "accepted although it lies outside the range" if want else "rejected although it lies inside the range")
                            break
                    if bad:
                        break
                if bad:
                    break
        ok5b = bad is None
        rep.ob("C10.D5", "default-range-table", ok5b, "evaluated on %d boundary scenarios: InvalidValue exactly when the default lies outside [min, max]" % nsc if ok5b else
               "the default range check is wrong: %s" % bad, st.get("sp"))
        ix = [i_ for i_, t_ in enumerate(tops) if t_ is st][0]
        late = [x for t_ in tops[ix + 1:] for x, _ in assigns_bounds(t_)]
        rep.ob("C10.D5", "default-tested-against-final-bounds", not late,
               "every assignment to the two bounds precedes the default-range test" if not late else
               "the bounds are still assigned (`%s`) after the default was compared with them: a default outside the range implied by the format is not reported" % src(late[0])[:60], (late[0] if late else st).get("sp"))
    # who may write the effective bounds: only the fill from the format's row when the schema gave none
    n_asg = 0
    for x, xa in assigns_bounds(h["body"]):
        n_asg += 1
        l = strip_refs(x["l"])
        conds = [g for g in guards(xa, x) if g[0] == "if"]
        rhs = src(x["r"])
        okw = x.get("k") == "assign" and re.fullmatch(r"Some\(\*?\w+\)", rhs) is not None and any(re.fullmatch(r"%s\.is_none\(\)" % re.escape(l["path"]), g[1]) for g in conds)
        rep.ob("C10.D6", "bound-assignment-is-format-fill#%d" % n_asg, okw,
               "`%s` under `%s.is_none()`: a missing bound is filled from the format's row" % (src(x)[:40], l["path"]) if okw else
               "the effective bound is rewritten by `%s`: after exclusive bounds were turned into inclusive ones by +/-1 any further adjustment (rounding, clamping) can exclude integers the schema admits, so NonZero or a narrower type is chosen wrongly" % src(x)[:80], x.get("sp"))

    # ------------------------------------------------------------ D5c the number (float) conversion and its default
    import minirust as mrn
    hn = [x for x in c.user_fns() if x["fn"].endswith("TypeSpace::convert_number")]
    if rep.floor("C10.D5", "number conversion", len(hn), 1):
        hN = hn[0]
        vpar = mpar = None
        for i_, t_ in enumerate(c.fns[hN["fn"]]["inputs"]):
            if i_ < len(hN.get("params", [])) and hN["params"][i_].get("k") == "bind":
                if "NumberValidation" in t_:
                    vpar = hN["params"][i_]["name"]
                elif "Metadata" in t_:
                    mpar = hN["params"][i_]["name"]

        def _m(st_, word):
            return any((x.get("k") == "field" and x.get("name") == word) or (x.get("k") == "path" and str(x.get("path", "")).endswith("::" + word)) for x, _ in walk(st_))
        from lib import top_stmts as _ts
        chk = [st for st in _ts(hN) if _m(st, "InvalidValue") and (_m(st, "default") or (mpar and reads(st, mpar)))]
        if not chk or vpar is None or mpar is None:
            rep.ob("C10.D5", "number-default-range", False,
                   "the number conversion never compares the schema's default with minimum/maximum (its validation parameter is %s): a `default` outside the admitted range of a `type: number` schema is not reported" % ("unused" if vpar and not reads(hN["body"], vpar) else "not used for the default"), c.fns[hN["fn"]].get("sp"))
        else:
            mN = mrn.Machine(c, hooks={"as_f64": lambda mach, v: mrn.some(v[1]) if isinstance(v, tuple) and v and v[0] == "json" else mrn.NONE})
            badn = None
            nsn = 0
            # the statements up to and including the check (the bounds may be computed by earlier lets)
            idx_ = [i_ for i_, t_ in enumerate(_ts(hN)) if t_ is chk[0]][0]
            prog = {"k": "block", "stmts": _ts(hN)[:idx_ + 1], "tail": None}
            for lo in (None, 0.0, 10.0):
                for hi in (None, 10.0, 20.0):
                    if lo is not None and hi is not None and lo > hi:
                        continue
                    probes = {5.0, -1.0, 25.0} | ({lo - 0.5, lo, lo + 0.5} if lo is not None else set()) | ({hi - 0.5, hi, hi + 0.5} if hi is not None else set())
                    for x in sorted(probes):
                        val = mrn.some(("struct", "NumberValidation", {"minimum": mrn.some(lo) if lo is not None else mrn.NONE, "maximum": mrn.some(hi) if hi is not None else mrn.NONE,
                                                                          "exclusive_minimum": mrn.NONE, "exclusive_maximum": mrn.NONE, "multiple_of": mrn.NONE}))
                        meta = mrn.some(("struct", "Metadata", {"default": mrn.some(("json", x))}))
                        envn = mrn.Env(init={vpar: val, mpar: meta})
                        for p_ in hN.get("params", []):
                            if p_.get("k") == "bind" and p_["name"] not in (vpar, mpar):
                                envn[p_["name"]] = mrn.NONE
                        mN.fuel = 100000
                        try:
                            try:
                                mN.ev(prog, envn)
                                err = False
                            except mrn.Return as r_:
                                err = isinstance(r_.value, tuple) and r_.value and r_.value[0] == "Err"
                        except mrn.Unknown as e_:
                            badn = "not evaluable (%s)" % e_
                            break
                        nsn += 1
                        want = (lo is not None and x < lo) or (hi is not None and x > hi)
                        if err != want:
                            badn = "for minimum %s / maximum %s a default of %g is %s" % ("absent" if lo is None else "%g" % lo, "absent" if hi is None else "%g" % hi, x, "accepted although it lies outside the range" if want else "rejected although it lies inside the range")
                            break
                    if badn:
                        break
                if badn:
                    break
            rep.ob("C10.D5", "number-default-range", badn is None, "evaluated on %d scenarios: InvalidValue exactly when the default lies outside [minimum, maximum]" % nsn if badn is None else
                   "the number conversion's default check is wrong: %s" % badn, chk[0].get("sp"))

    # ------------------------------------------------------------ D4 fallbacks
    tail = block_last(h["body"])
    s = src(tail)
    ok = tail.get("k") == "if" and 'new_integer("i64")' in src(tail.get("else"))
    rep.ob("C10.D4", "integer-last-resort-i64", ok, "no matching row -> i64" if ok else "integer fallback is not i64: %s" % s[-120:], tail.get("sp"))
    # float selector
    fl = [hh for hh in c.user_fns() if any(x.endswith("TypeEntry::new_float") for x in calls_in(hh["body"])) and "TypeEntry::" not in hh["fn"]]
    if rep.floor("C10.D4", "float selector", len(fl), 1):
        ms = [n for n, _ in nodes(fl[0]["body"], "match") if n.get("src") == "normal"]
        ok = False
        detail = "no match over the format"
        if ms:
            arms = {psrc(a["pat"]): src(block_last(a["body"])) for a in ms[-1]["arms"]}
            ok = 'new_float("f64")' in arms.get("_", "") and all(('"f32"' not in v) or k == 'Some("float")' for k, v in arms.items())
            detail = str(arms)[:160]
        rep.ob("C10.D4", "float-wildcard-f64", ok, detail, c.fns[fl[0]["fn"]].get("sp"))
    # string formats
    ss = None
    for hh in c.user_fns():
        lits = {x["v"].get("str") for x, _ in walk(hh["body"]) if x.get("k") == "lit" and "str" in x["v"]}
        if "::uuid::Uuid" in lits:
            ss = hh
    if rep.floor("C10.D4", "string format selector", 1 if ss else 0, 1):
        ms = [n for n, _ in nodes(ss["body"], "match") if n.get("src") == "normal" and any(psrc(a["pat"]).startswith('Some("') for a in n["arms"])]
        if rep.floor("C10.D4", "match over string formats", len(ms), 1):
            m = ms[0]
            got = {}
            from lib import table_is_plain
            table_is_plain(rep, "C10.D4", "string-formats", m)
            for a in m["arms"]:
                p = psrc(a["pat"])
                mm = re.match(r'Some\("([^"]+)"\)', p)
                body = src(a["body"])
                if mm:
                    ty = re.search(r'new_native\("([^"]+)"', body)
                    got[mm.group(1)] = ty.group(1) if ty else body[:60]
                elif p.startswith("Some(") and a["pat"].get("k") == "tstruct" and a["pat"]["pats"][0].get("k") == "bind":
                    ok = "TypeEntryDetails::String.into()" in body and "new_native" not in body
                    rep.ob("C10.D4", "unknown-string-format-is-String", ok, "unrecognised format -> String" if ok else "an unrecognised string format does not degrade to String: %s" % body[:100], a.get("sp"))
            for fmt, ty in sorted(got.items()):
                if fmt not in STR_FMT_SPEC:
                    rep.ob("C10.D4", "string-format-documented:%s" % fmt, False,
                           "string format `%s` is mapped to `%s`, but it is not one of the documented formats (%s): an unrecognised format must degrade to String — a narrower type rejects strings the schema admits" % (fmt, ty, ", ".join(sorted(STR_FMT_SPEC))), m.get("sp"))
            for fmt, ty in STR_FMT_SPEC.items():
                rep.ob("C10.D4", "string-format:%s" % fmt, got.get(fmt) == ty, "%s -> %s" % (fmt, got.get(fmt)), m.get("sp"))
            rep.ob("C10.D4", "unknown-string-format-arm-exists", any(o["key"].endswith("unknown-string-format-is-String") for o in rep.obligations), "a catch-all arm for unknown formats exists")

    # ------------------------------------------------------------ D6 exclusive bounds
    for which, op, comb in (("min", "Add", "max"), ("max", "Sub", "min")):
        found = None
        for n, _ in nodes(h["body"], "let"):
            if n["pat"].get("k") == "bind" and n.get("init", {}).get("k") == "match" and n["init"]["scrut"].get("k") == "tup":
                sc0 = cnh.r(n["init"]["scrut"])
                if re.fullmatch(r"\(\S*\.%simum, \S*\.exclusive_%simum\)" % (which, which), sc0):
                    found = n["init"]
        if not rep.floor("C10.D6", "%s computed from inclusive/exclusive bounds" % which, 1 if found else 0, 1):
            continue
        sc = cnh.r(found["scrut"])
        okscr = bool(re.fullmatch(r"\(\S*\.%simum, \S*\.exclusive_%simum\)" % (which, which), sc))
        arms = {}
        for a in found["arms"]:
            pk, g, b = norm_arm(a)
            arms[pk] = b
        want = [
            ("(None,None)", lambda s: s == "None"),
            ("(None,Some($0))", lambda s: s == "Some(($0 %s 1.0))" % op),
            ("(Some($0),None)", lambda s: s == "Some(*$0)"),
        ]
        good = okscr
        for k, pred in want:
            if k not in arms or not pred(arms[k]):
                good = False
        both = arms.get("(Some($0),Some($1))")
        good = good and bool(both) and both == "Some($0.%s(($1 %s 1.0)))" % (comb, op)
        rep.ob("C10.D6", "exclusive-%s" % which, good, "%s: %s" % (which, arms) if good else "exclusive-%simum handling differs from ±1 / %s(): %s" % (which, comb, arms), found.get("sp"))


# ---------------------------------------------------------------------------------------------- D7
INT_LIMITS = {}
for _w in (8, 16, 32, 64):
    INT_LIMITS["i%d" % _w] = (float(-(2 ** (_w - 1))), float(2 ** (_w - 1) - 1))
    INT_LIMITS["u%d" % _w] = (0.0, float(2 ** _w - 1))


class Unknown(Exception):
    pass


def ev(e, env):
    """evaluate a HIR expression of the search closures over concrete f64 values; raises Unknown on anything else"""
    k = e.get("k")
    if k == "block":
        for st in e.get("stmts", []):
            if st.get("k") == "let" and st["pat"].get("k") == "bind" and st.get("init") is not None:
                env = dict(env)
                env[st["pat"]["name"]] = ev(st["init"], env)
            else:
                raise Unknown("stmt " + str(st.get("k")))
        return ev(e["tail"], env) if e.get("tail") is not None else None
    if k == "if":
        if e["cond"].get("k") == "letx":
            raise Unknown("if let")
        return ev(e["then"], env) if ev(e["cond"], env) else (ev(e["else"], env) if e.get("else") is not None else None)
    if k == "bin":
        op = e["op"]
        if op == "And":
            return bool(ev(e["l"], env)) and bool(ev(e["r"], env))
        if op == "Or":
            return bool(ev(e["l"], env)) or bool(ev(e["r"], env))
        l, r = ev(e["l"], env), ev(e["r"], env)
        if op == "Sub":
            return l - r
        if op == "Add":
            return l + r
        if op in ("Le", "Lt", "Ge", "Gt", "Eq", "Ne"):
            return {"Le": l <= r, "Lt": l < r, "Ge": l >= r, "Gt": l > r, "Eq": l == r, "Ne": l != r}[op]
        raise Unknown("op " + op)
    if k == "un":
        if e["op"] == "Deref":
            return ev(e["e"], env)
        if e["op"] == "Not":
            return not ev(e["e"], env)
        if e["op"] == "Neg":
            return -ev(e["e"], env)
        raise Unknown("un " + e["op"])
    if k in ("ref", "cast"):
        return ev(e["e"], env)
    if k == "lit":
        v = e["v"]
        for t in ("float", "int", "str", "bool"):
            if t in v:
                return float(v[t]) if t in ("float", "int") else v[t]
        raise Unknown("lit")
    if k == "path":
        p_ = e.get("path", "")
        if e.get("res") == "local":
            if p_ in env:
                return env[p_]
            raise Unknown("local " + p_)
        if p_ == "f64::EPSILON":
            return 2.220446049250313e-16
        m_ = re.fullmatch(r"([iu](?:8|16|32|64))::(MIN|MAX)", p_)
        if m_:
            return INT_LIMITS[m_.group(1)][0 if m_.group(2) == "MIN" else 1]
        if p_.endswith("::None"):
            return None
        raise Unknown("path " + p_)
    if k == "mcall":
        if e["name"] == "abs":
            return abs(ev(e["recv"], env))
        if e["name"] in ("to_string", "clone", "to_owned", "into"):
            return ev(e["recv"], env)
        if e["name"] in ("ge", "le", "gt", "lt", "eq"):
            l, r = ev(e["recv"], env), ev(e["args"][0], env)
            return {"ge": l >= r, "le": l <= r, "gt": l > r, "lt": l < r, "eq": l == r}[e["name"]]
        raise Unknown("mcall " + e["name"])
    if k == "call" and e.get("res") == "ctor" and (e.get("fn") or "").endswith("::Some"):
        return ("some", ev(e["args"][0], env))
    raise Unknown(str(k))


def run_d7_eval(facts, rep, c, h, table, MIN, MAX):
    """The bounds-driven search, whatever its shape: the expression bound by the `let` that searches the format table is
    evaluated (rules/minirust.py, over the fact tree) for every boundary scenario of (minimum, maximum); each answer must
    be a type that contains the schema's range, a NonZero type only when zero is excluded. Returns False when no such `let`
    is found (the closure-shaped rule then applies)."""
    import minirust as mr
    from lib import top_stmts
    tbl_let = [n for n, _ in nodes(h["body"], "let") if n.get("init") is not None and n["pat"].get("k") == "bind" and contains_node(n["init"], table)]
    if not tbl_let:
        return False
    tname = tbl_let[0]["pat"]["name"]
    # the statement whose value is the search: a `let` of an Option<String> that runs find_map and reads the table
    cands = []
    for st in top_stmts(h):
        if st.get("k") == "let" and st.get("init") is not None and any(x.get("k") == "mcall" and x["name"] == "find_map" for x, _ in walk(st["init"])) \
                and reads(st["init"], tname) and st["pat"].get("k") == "bind" and ("String" in (c.ty(st["init"].get("ty")) or "String")):
            cands.append(st)
    if len(cands) != 1:
        return False
    init = cands[0]["init"]
    m = mr.Machine(c)
    try:
        rows_v = m.ev(tbl_let[0]["init"], mr.Env())
    except mr.Unknown as e_:
        rep.ob("C10.D7", "search-evaluable:table", False, "the format table is not a literal the evaluator can read (%s)" % e_, table.get("sp"))
        return True
    tab = []
    for r in rows_v:
        fmt, ty, nz, lo, hi = r[1]
        tab.append({"fmt": fmt, "ty": ty, "nz": nz, "lo": lo, "hi": hi})
    I64 = INT_LIMITS["i64"]
    n_eval = 0
    for has_min in (False, True):
        for has_max in (False, True):
            if not has_min and not has_max:
                continue
            cell = "(%s,%s)" % ("Some" if has_min else "None", "Some" if has_max else "None")
            lows = sorted({r_["lo"] for r_ in tab} | {1.0, 0.0, -1.0, 2.0}) if has_min else [None]
            highs = sorted({r_["hi"] for r_ in tab} | {1.0, 100.0, 255.0, 256.0}) if has_max else [None]
            if TIER == "thorough":
                # the property's full boundary lattice: every type's MIN and MAX, each +-1 and +-2, 0, +-1, +-2, small and large values
                lat = set()
                for r_ in tab:
                    for b_ in (r_["lo"], r_["hi"]):
                        lat |= {b_ - 2.0, b_ - 1.0, b_, b_ + 1.0, b_ + 2.0}
                lat |= {0.0, 1.0, -1.0, 2.0, -2.0, 10.0, 1000.0, 1e6, -1e6, 1e12, -1e12}
                if has_min:
                    lows = sorted(lat)
                if has_max:
                    highs = sorted(lat)
            bad = None
            for lo in lows:
                for hi in highs:
                    if lo is not None and hi is not None and lo > hi:
                        continue
                    env = mr.Env(init={tname: rows_v, MIN: mr.some(lo) if lo is not None else mr.NONE, MAX: mr.some(hi) if hi is not None else mr.NONE})
                    try:
                        m.fuel = 200000
                        res = m.ev(init, env)
                        n_eval += len(tab)
                    except mr.Unknown as e_:
                        rep.ob("C10.D7", "search-evaluable:%s" % cell, False, "the search uses a construct the evaluator does not model (%s): review the rule" % e_, init.get("sp"))
                        bad = "unknown"
                        break
                    except mr.Return:
                        bad = "the search returns from the function for minimum %s / maximum %s" % (lo, hi)
                        break
                    if not (isinstance(res, tuple) and res and res[0] == "Some"):
                        continue
                    chosen = res[1]
                    if chosen in INT_LIMITS:
                        tlo, thi = INT_LIMITS[chosen]
                    else:
                        mz = re.fullmatch(r"::std::num::NonZeroU(8|16|32|64)", chosen if isinstance(chosen, str) else "")
                        if not mz:
                            bad = "bound (%s, %s) selects `%s`, which is not a type of the table" % (lo, hi, chosen)
                            break
                        tlo, thi = 1.0, float(2 ** int(mz.group(1)) - 1)
                    need_lo = lo if lo is not None else I64[0]
                    need_hi = hi if hi is not None else I64[1]
                    if tlo > need_lo or thi < need_hi:
                        bad = "for minimum %s / maximum %s the search answers `%s` (range %s..=%s): admitted values %s are not representable" % (
                            "absent" if lo is None else "%g" % lo, "absent" if hi is None else "%g" % hi, chosen, "%g" % tlo, "%g" % thi,
                            "below %g" % tlo if tlo > need_lo else "above %g" % thi)
                        break
                if bad:
                    break
            if bad != "unknown":
                rep.ob("C10.D7", "search-answers-a-wide-enough-type:%s" % cell, bad is None,
                       "evaluated on %d rows x %d boundary scenarios: every answer contains the schema's range" % (len(tab), len(lows) * len(highs)) if bad is None else bad, init.get("sp"))
    rep.floor("C10.D7", "row evaluations of the bounds-driven searches", n_eval, 200)
    return True


def run_d7(facts, rep, c, h, rows, closures, MIN, MAX):
    table = []
    for r in rows:
        fmt, ty, nz, lo, hi = r["es"]
        t = ty["v"].get("str")
        z = nz["v"].get("str")
        if t not in INT_LIMITS:
            return
        table.append({"fmt": fmt["v"].get("str"), "ty": t, "nz": z, "lo": INT_LIMITS[t][0], "hi": INT_LIMITS[t][1]})
    I64 = INT_LIMITS["i64"]
    n_eval = 0
    for idx, (clo, par, anc) in enumerate(closures):
        if par.get("name") != "find_map":
            continue
        pats = clo["params"][0]["pats"]
        names = [p_["name"] if p_.get("k") == "bind" else None for p_ in pats]
        recv = src(par.get("recv"))
        order = list(reversed(table)) if recv.endswith(".rev()") else list(table)
        # which bounds exist in this arm, and under which names
        arm = [a_ for a_ in anc if a_.get("k") is None and "pat" in a_ and a_["pat"].get("k") == "tuple" and len(a_["pat"]["pats"]) == 2]
        if not arm:
            continue
        pmin, pmax = arm[-1]["pat"]["pats"]
        def bound_name(pt):
            bs = [b_["name"] for b_, _ in walk(pt) if b_.get("k") == "bind"]
            return bs[0] if bs else None
        has_min = "Some" in psrc(pmin)
        has_max = "Some" in psrc(pmax)
        nmin, nmax = bound_name(pmin), bound_name(pmax)
        cell = "(%s,%s)" % ("Some" if has_min else "None", "Some" if has_max else "None")
        lows = sorted({r_["lo"] for r_ in table} | {1.0, 0.0, -1.0, 2.0}) if has_min else [None]
        highs = sorted({r_["hi"] for r_ in table} | {1.0, 100.0, 255.0, 256.0}) if has_max else [None]
        bad = None
        for lo in lows:
            for hi in highs:
                if lo is not None and hi is not None and lo > hi:
                    continue
                chosen = None
                try:
                    for r_ in order:
                        env = {}
                        for nm_, val in zip(names, (r_["fmt"], r_["ty"], r_["nz"], r_["lo"], r_["hi"])):
                            if nm_:
                                env[nm_] = val
                        if nmin and lo is not None:
                            env[nmin] = lo
                        if nmax and hi is not None:
                            env[nmax] = hi
                        res = ev(clo["body"], env)
                        n_eval += 1
                        if isinstance(res, tuple) and res[0] == "some":
                            chosen = res[1]
                            break
                except Unknown as e_:
                    rep.ob("C10.D7", "search-evaluable:%s" % cell, False, "the search closure uses a construct the table interpreter does not model (%s): review the rule" % e_, clo.get("sp"))
                    bad = "unknown"
                    break
                if chosen is None:
                    continue
                if chosen in INT_LIMITS:
                    tlo, thi = INT_LIMITS[chosen]
                else:
                    mz = re.fullmatch(r"::std::num::NonZeroU(8|16|32|64)", chosen or "")
                    if not mz:
                        bad = "bound (%s, %s) selects `%s`, which is not a type of the table" % (lo, hi, chosen)
                        break
                    tlo, thi = 1.0, float(2 ** int(mz.group(1)) - 1)
                need_lo = lo if lo is not None else I64[0]
                need_hi = hi if hi is not None else I64[1]
                if tlo > need_lo or thi < need_hi:
                    bad = "for minimum %s / maximum %s the search answers `%s` (range %s..=%s): admitted values %s are not representable" % (
                        "absent" if lo is None else "%g" % lo, "absent" if hi is None else "%g" % hi, chosen, "%g" % tlo, "%g" % thi,
                        "below %g" % tlo if tlo > need_lo else "above %g" % thi)
                    break
            if bad:
                break
        if bad != "unknown":
            rep.ob("C10.D7", "search-answers-a-wide-enough-type:%s" % cell, bad is None,
                   "evaluated on %d rows x %d boundary scenarios: every answer contains the schema's range" % (len(order), len(lows) * len(highs)) if bad is None else bad, clo.get("sp"))
    rep.floor("C10.D7", "row evaluations of the bounds-driven searches", n_eval, 200)
