"""C01.T1 — grammar by construction.

Every quote! template of typify-impl (and typify-macro) is instantiated with placeholders and parsed
with syn as the grammar category its sink demands. What fills a hole follows the hole's rustc type;
for token-stream holes it follows the *producer* of the value: local child templates are inlined
(one alternative at a time), calls to the generator's renderers become a placeholder of that
renderer's category. A hole that cannot be resolved makes the template 'unresolved' (counted, with a
floor on the resolved share) — it is never guessed.
"""
import json
import os
import re
import subprocess
from lib import walk, nodes, src, psrc, guards, short, block_last, strip_refs
import tmplparse as tp
import extract

# category of the value returned by the generator's own renderers (callee suffix -> category)
CALL_CAT = {
    "TypeEntry::type_ident": "type", "TypeEntry::type_parameter_ident": "type",
    "TypeEntry::output_value": "expr", "value::value_for_item": "expr", "value::tuple_variant_value": "expr",
    "value::value_for_external_enum": "expr", "value::value_for_internal_enum": "expr",
    "value::value_for_adjacent_enum": "expr", "value::value_for_untagged_enum": "expr",
    "value::value_for_tuple": "expr", "value::value_for_struct_props": "fieldinit",
    "type_entry::make_doc": "attrs", "type_entry::strings_to_derives": "path", "enums::output_variant": "variant",
    "TypeSpace::to_stream": "items", "structs::generate_serde_attr": ("attrs?", None), "TypeEntry::default_fn": (None, "fnitem?"),
}
# holes whose producer the resolver does not follow, recognised by how they are produced (not by name)
def special_hole(t1, h, tnode, tanc, name):
    from lib import scope_binding, Canon
    b = scope_binding(h, tanc, name, tnode)
    if b is None:
        return None
    # token streams accumulated per module by add_item: closure parameter of the map over the grouped items
    if h["fn"].endswith("OutputSpace::into_stream") and b[0] == "closure":
        return "items"
    if b[0] == "let" and b[1].get("init") is not None:
        s = Canon(t1.c, h, 2).r(b[1]["init"])
        if "Punct::new(" in s and "format_ident!" in s:
            return "lifetime"
    return None


PLACEHOLDER = {
    "type": ["__T"], "expr": ["__e()"], "attrs": ['#[doc = "d"]'], "attrs?": ["", "#[serde(default)]"], "path": ["__p::P"],
    "variant": ["__V,"], "items": ["struct __I;"], "fnitem": ["fn __f() {}"], "fnitem?": ["", "fn __f() {}"], "fieldinit": ["__f: __e()"],
    "ident": ["__i"], "str": ['"s"'], "int": ["1"], "bool": ["true"], "lifetime": ["", "'a"], "scope": ["", "super::"], "empty": [""],
}
# sink category of root templates by the function that returns them (suffix of the qualified name)
FN_SINK = {
    "TypeEntry::type_ident": "type", "TypeEntry::type_parameter_ident": "type", "Type<'a>::builder": "type",
    "TypeEntry::output_value": "expr", "value::value_for_external_enum": "expr", "value::value_for_internal_enum": "expr",
    "value::value_for_adjacent_enum": "expr", "value::value_for_untagged_enum": "expr", "value::tuple_variant_value": "expr",
    "value::value_for_struct_props": "fieldinits", "enums::output_variant": "variants", "type_entry::make_doc": "attrs",
    "output::OutputSpace::into_stream": "file", "as std::convert::From<&DefaultImpl>>::from": "items",
    "structs::generate_serde_attr": "attrs", "TypeEntry::default_fn": "items",
}


def hole_kind(ty):
    t = ty
    t = re.sub(r"quote::__private::RepInterp<(.*)>$", r"\1", t)
    base = t.replace("&", "").replace("mut ", "").strip()
    if base.endswith("proc_macro2::Ident"):
        return "ident"
    if base in ("std::string::String", "str", "alloc::string::String"):
        return "str"
    if base in ("usize", "u8", "u16", "u32", "u64", "i8", "i16", "i32", "i64", "isize") or base.endswith("proc_macro2::Literal") or base.endswith("syn::Index"):
        return "int"
    if base == "bool":
        return "bool"
    if re.search(r"\bsyn::(Path|TypePath|Type)$", base):
        return "path"
    return "tokens"


class T1:
    def __init__(self, facts, crate):
        self.facts = facts
        self.c = crate
        self.tmpl_nodes = {}  # id(node) -> (h, node, anc, syn)
        self.children = set()
        self.unresolved = {}

    # -------------------------------------------------------------- scopes
    def binding(self, h, anc, name, before):
        """The in-scope binder of `name` for a use inside the node whose ancestor chain is `anc`.
        Returns ('let', let_node, index_in_tuple|None) | ('param', fn h, idx) | ('closure', closure, mcall) | ('pat', scrutinee) | None"""
        chain = list(anc)
        for i in range(len(chain) - 1, -1, -1):
            a = chain[i]
            child = chain[i + 1] if i + 1 < len(chain) else before
            k = a.get("k")
            if k == "block":
                stmts = a.get("stmts", [])
                ix = len(stmts)
                for j, st in enumerate(stmts):
                    if st is child or any(x is child for x, _ in walk(st)):
                        ix = j
                        break
                for st in reversed(stmts[:ix]):
                    if st.get("k") == "let":
                        p = st["pat"]
                        if p.get("k") == "bind" and p["name"] == name:
                            return ("let", st, None)
                        if p.get("k") == "tuple":
                            for ti, pp in enumerate(p["pats"]):
                                if pp.get("k") == "bind" and pp["name"] == name:
                                    return ("let", st, ti)
                        if any(b.get("k") == "bind" and b["name"] == name for b, _ in walk(p)):
                            return ("pat", st.get("init"))
            elif k == "closure":
                for pi, p in enumerate(a.get("params", [])):
                    if any(b.get("k") == "bind" and b["name"] == name for b, _ in walk(p)):
                        par = chain[i - 1] if i > 0 else {}
                        return ("closure", a, par)
            elif k is None and "pat" in a and "body" in a:
                if any(b.get("k") == "bind" and b["name"] == name for b, _ in walk(a["pat"])):
                    m = chain[i - 1] if i > 0 else {}
                    return ("pat", m.get("scrut"), psrc(a["pat"]))
            elif k == "if" and a["cond"].get("k") == "letx" and child is a["then"]:
                if any(b.get("k") == "bind" and b["name"] == name for b, _ in walk(a["cond"]["pat"])):
                    return ("pat", a["cond"]["init"], psrc(a["cond"]["pat"]))
        for pi, p in enumerate(h.get("params", [])):
            if any(b.get("k") == "bind" and b["name"] == name for b, _ in walk(p)):
                return ("param", h, pi)
        return None

    def find_anc(self, h, node):
        for n, anc in walk(h["body"]):
            if n is node:
                return anc
        return ()

    # -------------------------------------------------------------- producers
    def results(self, h, e, depth=0):
        """Alternatives an expression can evaluate to, as a list of ('tmpl', node) | ('cat', name) | ('empty',) | ('unknown', text)."""
        if e is None:
            return [("empty",)]
        if not isinstance(e, dict) or depth > 10:
            return [("unknown", "depth")]
        k = e.get("k")
        if k == "macro":
            if e["name"] in ("quote", "quote_spanned"):
                syn = self.facts.template_at(e["sp"])
                if syn is not None and not syn["tt"]:
                    return [("empty",)]
                return [("tmpl", e)]
            if e["name"] == "vec":
                out = []
                for a in e.get("args", []):
                    out += self.results(h, a, depth + 1)
                return out or [("empty",)]
            if e["name"] in ("unreachable", "panic", "todo", "unimplemented"):
                return []
            return [("unknown", "macro %s" % e["name"])]
        if k == "block":
            return self.results(h, e.get("tail"), depth + 1) if e.get("tail") is not None else [("empty",)]
        if k == "if":
            out = self.results(h, e["then"], depth + 1)
            out += self.results(h, e["else"], depth + 1) if e.get("else") is not None else [("empty",)]
            return out
        if k == "match":
            if e.get("src") == "try":
                inner = e["scrut"]["args"][0] if e["scrut"].get("args") else e["scrut"]
                return [r for r in self.results(h, inner, depth + 1) if r != ("empty",)] or [("unknown", "try")]
            out = []
            for a in e["arms"]:
                out += self.results(h, a["body"], depth + 1)
            return out
        if k == "path":
            if e.get("path", "").endswith("::None"):
                return [("empty",)]
            if e.get("res") == "local":
                return [("local", e)]
            return [("unknown", "path %s" % e.get("path"))]
        if k == "ref" or k == "cast" or (k == "un" and e.get("op") == "Deref"):
            return self.results(h, e["e"], depth + 1)
        if k == "closure":
            return self.results(h, e["body"], depth + 1)
        if k == "tup":
            return [("tuple", e["es"])]
        if k == "ret":
            return []
        if k == "call":
            fn = e.get("fn", "")
            if e.get("res") == "ctor" and fn.endswith("::Some"):
                return self.results(h, e["args"][0], depth + 1)
            if fn.endswith("TokenStream::new"):
                return [("empty",)]
            if e.get("res") == "ctor" and len(e.get("args", [])) == 1 and not fn.startswith("std::"):
                return [("ctor", fn, e["args"][0])]
            if fn.endswith("TokenStream as std::convert::From<proc_macro2::TokenTree>>::from") or fn.endswith("::from") and "Literal" in src(e):
                return [("cat", "int")]
            for suf, cat in CALL_CAT.items():
                if fn.endswith(suf):
                    return [("cat", cat)]
            return [("unknown", "call %s" % short(fn))]
        if k == "mcall":
            name = e["name"]
            fn = e.get("fn", "")
            for suf, cat in CALL_CAT.items():
                if fn.endswith(suf):
                    return [("cat", cat)]
            clos = [a for a in e.get("args", []) if isinstance(a, dict) and a.get("k") == "closure"]
            if name in ("then", "map", "and_then", "filter_map", "flat_map", "map_or_else") and clos:
                out = []
                for cl in clos:
                    out += self.results(h, cl["body"], depth + 1)
                rty = self.c.ty(e["recv"].get("ty")) if isinstance(e["recv"], dict) else ""
                optional = name in ("then", "and_then") or (name == "map" and "Option<" in rty)
                if optional:
                    out.append(("empty",))
                return out
            if name == "then_some":
                return self.results(h, e["args"][0], depth + 1) + [("empty",)]
            if name == "unwrap_or_else":
                return [x for x in self.results(h, e["recv"], depth + 1) if x != ("empty",)] or [("unknown", "unwrap_or_else")]
            if name in ("unwrap", "expect", "clone", "cloned", "collect", "into_iter", "iter", "flatten", "to_token_stream", "into_token_stream", "unwrap_or_default", "as_ref", "rev", "peekable", "copied"):
                if name in ("to_token_stream", "into_token_stream"):
                    rty = self.c.ty(e["recv"].get("ty")) if isinstance(e["recv"], dict) else ""
                    if re.search(r"syn::(Path|TypePath|Type)", rty) or "Result<syn::" in rty:
                        return [("cat", "path")]
                r = self.results(h, e["recv"], depth + 1)
                if name == "unwrap_or_default":
                    r = r + [("empty",)]
                if name in ("unwrap", "expect"):
                    r = [x for x in r if x != ("empty",)] or r
                return r
            if name == "chain":
                return self.results(h, e["recv"], depth + 1) + self.results(h, e["args"][0], depth + 1)
            if name == "into" and "DefaultImpl" in (self.c.ty(e["recv"].get("ty")) if isinstance(e["recv"], dict) else ""):
                return [("cat", "fnitem")]
            if name == "unzip":
                return [("unzip", e["recv"])]
            return [("unknown", "method %s" % name)]
        if k == "field" and e["name"] in ("0", "1", "2"):
            r = self.results(h, e["e"], depth + 1)
            out = []
            for x in r:
                if x[0] == "tuple":
                    out += self.results(h, x[1][int(e["name"])], depth + 1)
                elif x[0] == "cat" and isinstance(x[1], tuple):
                    out.append(("cat", x[1][int(e["name"])]))
                else:
                    out.append(x)
            return out
        return [("unknown", k or "?")]

    def resolve_hole(self, h, tnode, tanc, name, depth=0):
        """Alternatives for a token-stream hole `#name` of template `tnode`."""
        if depth > 8:
            return [("unknown", "depth")]
        b = self.binding(h, tanc, name, tnode)
        if b is None:
            return [("unknown", "no binder for %s" % name)]
        return self.from_binding(h, b, name, tnode, tanc, depth)

    def from_binding(self, h, b, name, usenode, useanc, depth):
        kind = b[0]
        if kind == "let":
            st, ti = b[1], b[2]
            init = st.get("init")
            # a vector filled by pushes
            if init is not None and src(init) in ("Vec::new()", "Vec<T>::new()", "vec!()"):
                out = []
                for n, a in walk(h["body"]):
                    if n.get("k") == "mcall" and n["name"] == "push" and src(n["recv"]) == name and n.get("args"):
                        out += self.expand(h, self.results(h, n["args"][0]), n, list(a) + [n], depth)
                return out or [("empty",)]
            rs = self.results(h, init)
            anc_of_let = self.find_anc(h, st)
            rs = self.expand(h, rs, st, list(anc_of_let) + [st], depth)
            if ti is not None:
                out = []
                for r in rs:
                    if r[0] == "tuple":
                        out += self.expand(h, self.results(h, r[1][ti]), st, list(anc_of_let) + [st], depth)
                    elif r[0] == "cat" and isinstance(r[1], tuple):
                        out.append(("cat", r[1][ti]) if r[1][ti] else ("unknown", "tuple member %d of %s" % (ti, name)))
                    elif r[0] == "unzip":
                        inner = self.expand(h, self.results(h, r[1]), st, list(anc_of_let) + [st], depth)
                        for x in inner:
                            if x[0] == "tuple":
                                out += self.expand(h, self.results(h, x[1][ti]), st, list(anc_of_let) + [st], depth)
                            else:
                                out.append(x)
                    else:
                        out.append(r)
                return out
            return rs
        if kind == "param":
            fh, idx = b[1], b[2]
            return self.param_sources(fh["fn"], idx) or [("unknown", "fn parameter %s" % name)]
        if kind == "closure":
            clo, par = b[1], b[2]
            if par.get("k") == "mcall":
                rs = self.results(h, par["recv"])
                panc = self.find_anc(h, par)
                return self.expand(h, rs, par, list(panc) + [par], depth)
            return [("unknown", "closure parameter %s" % name)]
        if kind == "pat":
            rs = self.results(h, b[1])
            out = self.expand(h, rs, usenode, useanc, depth)
            if len(b) > 2 and (b[2].startswith("Some(") or b[2].startswith("Ok(")):
                out = [x for x in out if x != ("empty",)] or out
            if len(b) > 2:
                m = re.search(r"(\w+)\((?:[^()]*,\s*)?%s\b" % re.escape(name), b[2])
                if m and any(x[0] == "ctor" and x[1].endswith("::" + m.group(1)) for x in out):
                    out = [x for x in out if not (x[0] == "ctor" and not x[1].endswith("::" + m.group(1)))]
            return out
        return [("unknown", kind)]

    def param_sources(self, fn, idx, visiting=None):
        """Alternatives passed for parameter `idx` of `fn` over all call sites (parameters passed along are followed)."""
        key = (fn, idx)
        memo = self.__dict__.setdefault("_psrc", {})
        if key in memo:
            return memo[key]
        visiting = visiting or set()
        if key in visiting:
            return []
        visiting = visiting | {key}
        out = []
        from lib import scope_binding
        for ch in self.c.user_fns():
            for n, a in walk(ch["body"]):
                if n.get("k") in ("call", "mcall") and n.get("fn") == fn:
                    args = list(n.get("args", []))
                    if n.get("k") == "mcall":
                        args = [n["recv"]] + args
                    if idx >= len(args):
                        continue
                    e = strip_refs(args[idx])
                    if isinstance(e, dict) and e.get("k") == "path" and e.get("res") == "local":
                        bb = scope_binding(ch, a, e["path"], n)
                        if bb and bb[0] == "param":
                            out += self.param_sources(ch["fn"], bb[1], visiting)
                            continue
                    out += self.expand(ch, self.results(ch, args[idx]), n, list(a) + [n], 2)
        uniq = []
        for x in out:
            if x not in uniq:
                uniq.append(x)
        if len(visiting) == 1:
            memo[key] = uniq
        return uniq

    def expand(self, h, rs, at_node, at_anc, depth, keep_ctor=True):
        out = []
        for r in rs:
            if r[0] == "ctor" and not keep_ctor:
                out += self.expand(h, self.results(h, r[2]), at_node, at_anc, depth, keep_ctor)
            elif r[0] == "local":
                e = r[1]
                nm = e["path"]
                ty = self.c.ty(e.get("ty"))
                hk = hole_kind(ty)
                if hk != "tokens":
                    out.append(("cat", hk))
                    continue
                anc = self.find_anc(h, e)
                b = self.binding(h, anc, nm, e)
                if b is None:
                    out.append(("unknown", "no binder for %s" % nm))
                else:
                    out += self.from_binding(h, b, nm, e, anc, depth + 1) if depth < 8 else [("unknown", "depth")]
            else:
                out.append(r)
        return out

    # -------------------------------------------------------------- instantiation
    def instantiate(self, h, tnode, tanc, reps, budget):
        """List of (text, note) instantiations of one template, or None if a hole is unresolved."""
        syn = self.facts.template_at(tnode["sp"])
        if syn is None:
            return None
        types = {}
        for a in tnode.get("args", []):
            if a.get("hole"):
                types[a["sp"].rsplit(":", 2)[1] + ":" + a["sp"].rsplit(":", 2)[2]] = self.c.ty(a.get("ty"))
        alts_cache = {}

        def hole_alts(t):
            key = "%d:%d" % (t["line"], t["col"])
            if key in alts_cache:
                return alts_cache[key]
            ty = types.get(key)
            if ty is None:
                res = None
            else:
                hk = hole_kind(ty)
                if hk != "tokens":
                    res = list(PLACEHOLDER[hk])
                else:
                    sp_cat = special_hole(self, h, tnode, tanc, t["name"])
                    rs = [("cat", sp_cat)] if sp_cat else self.resolve_hole(h, tnode, tanc, t["name"])
                    rs = self.expand(h, rs, tnode, tanc, 0, keep_ctor=False)
                    res = []
                    for r in rs:
                        if r[0] == "empty":
                            res.append("")
                        elif r[0] == "cat":
                            cat = r[1]
                            if isinstance(cat, tuple) or cat not in PLACEHOLDER:
                                res = None
                                self.unresolved.setdefault(tnode["sp"], []).append("%s: category %s" % (t["name"], cat))
                                break
                            res += PLACEHOLDER[cat]
                        elif r[0] == "tmpl":
                            child = r[1]
                            self.children.add(child["sp"])
                            canc = self.find_anc(h, child)
                            sub = self.instantiate(h, child, canc, reps, max(4, budget // 4))
                            if sub is None:
                                res = None
                                self.unresolved.setdefault(tnode["sp"], []).append("%s: child template %s unresolved" % (t["name"], child["sp"]))
                                break
                            res += [x for x in sub]
                        else:
                            res = None
                            self.unresolved.setdefault(tnode["sp"], []).append("%s: %s" % (t["name"], r[1] if len(r) > 1 else r[0]))
                            break
                    if res is not None:
                        seen = []
                        for x in res:
                            if x not in seen:
                                seen.append(x)
                        res = seen or [""]
            alts_cache[key] = res
            return res

        # collect holes in order; choose alternatives: baseline = first alternative everywhere, then vary one hole at a time
        holes = []

        def collect(tt):
            for t in tt:
                if t["t"] == "hole":
                    holes.append(t)
                elif t["t"] in ("group", "rep"):
                    collect(t["body"])
        collect(syn["tt"])
        for t in holes:
            if hole_alts(t) is None:
                return None

        def render(tt, choice, k):
            out = []
            glue = False
            for t in tt:
                kind = t["t"]
                if kind == "punct":
                    if glue and out:
                        out[-1] = out[-1] + t["s"]
                    else:
                        out.append(t["s"])
                    glue = bool(t.get("joint"))
                    continue
                tick = glue and out and out[-1].endswith("'")
                glue = False
                if kind in ("ident", "lit"):
                    if tick and kind == "ident":
                        out[-1] = out[-1] + t["s"]
                    else:
                        out.append(t["s"])
                elif kind == "hole":
                    key = "%d:%d" % (t["line"], t["col"])
                    alts = hole_alts(t)
                    out.append(alts[choice.get(key, 0) % len(alts)])
                elif kind == "group":
                    d = t["d"]
                    close = {"(": ")", "{": "}", "[": "]", "": ""}[d]
                    out.append(d + " " + render(t["body"], choice, k) + " " + close)
                elif kind == "rep":
                    parts = [render(t["body"], choice, k) for _ in range(k)]
                    sep = (" " + t["sep"] + " ") if t.get("sep") else " "
                    out.append(sep.join(parts))
            return " ".join(x for x in out if x != "")

        texts = []
        for k in reps:
            texts.append(render(syn["tt"], {}, k))
            for t in holes:
                key = "%d:%d" % (t["line"], t["col"])
                n = len(hole_alts(t))
                for ci in range(1, n):
                    if len(texts) >= budget:
                        break
                    texts.append(render(syn["tt"], {key: ci}, k))
        out = []
        for x in texts:
            if x not in out:
                out.append(x)
        return out


def sink_of(t1, h, n, anc):
    par = anc[-1] if anc else {}
    if par.get("k") == "mcall" and par["name"] == "add_item":
        return "items"
    if par.get("k") == "mcall" and par["name"] == "push":
        rv = strip_refs(par["recv"])
        if isinstance(rv, dict) and rv.get("k") == "path" and rv.get("res") == "local":
            vname = rv["path"]
            for x, _ in walk(h["body"]):
                if x.get("k") == "macro" and x["name"] == "quote" and any(a_.get("hole") and a_.get("path") == vname for a_ in x.get("args", [])):
                    tx = (t1.facts.template_at(x["sp"]) or {}).get("text", "")
                    if re.match(r"^# \[serde \(", tx):
                        return "meta"
    # let item = quote!{..}; output.add_item(.., item)
    gs = guards(anc, n)
    lets = [g[1] for g in gs if g[0] == "let"]
    if lets:
        nm = lets[-1]
        for x, _ in nodes(h["body"], "mcall"):
            if x["name"] == "add_item" and any(src(a_) == nm for a_ in x.get("args", [])):
                return "items"
    if par.get("k") == "call" and "PropDefault::" in par.get("fn", ""):
        return "expr"
    if par.get("k") == "ref" and len(anc) >= 2 and anc[-2].get("k") in ("call", "mcall") and any(anc[-2].get("fn", "").endswith(s) for s in ("TypeEntry::output_value",)):
        return "prefix"
    txt = (t1.facts.template_at(n["sp"]) or {}).get("text", "")
    if re.fullmatch(r"# \[doc = # \w+\]", txt.strip()):
        return "attrs"
    for suf, cat in FN_SINK.items():
        if h["fn"].endswith(suf):
            return cat
    return None


def rule_T1(facts, rep, c, tier):
    t1 = T1(facts, c)
    reps = (0, 1, 2) if tier == "quick" else (0, 1, 2, 3)
    budget = 40 if tier == "quick" else 400
    all_t = []
    for h in c.user_fns():
        for n, anc in walk(h["body"]):
            if n.get("k") == "macro" and n["name"] in ("quote", "quote_spanned") and facts.template_at(n["sp"]) is not None:
                all_t.append((h, n, anc))
    rep.floor("C01.T1", "quote! templates", len(all_t), 130)
    holes_total = sum(1 for (h, n, anc) in all_t for a in n.get("args", []) if a.get("hole"))
    rep.floor("C01.T1", "typed holes", holes_total, 280)
    # first pass: instantiate everything (records children)
    inst = {}
    for (h, n, anc) in all_t:
        inst[n["sp"]] = t1.instantiate(h, n, anc, reps, budget)
    requests = []
    roots = 0
    nosink = []
    unresolved_roots = []
    for (h, n, anc) in all_t:
        if n["sp"] in t1.children:
            continue
        cat = sink_of(t1, h, n, anc)
        if cat is None:
            nosink.append("%s@%s" % (h["fn"], n["sp"]))
            continue
        roots += 1
        texts = inst[n["sp"]]
        if texts is None:
            unresolved_roots.append((h, n))
            continue
        for i, x in enumerate(texts):
            if cat == "prefix":
                requests.append({"id": "%s|%d" % (n["sp"], i), "cat": "expr", "text": x + " __x", "fn": h["fn"], "shown": "prefix"})
            else:
                requests.append({"id": "%s|%d" % (n["sp"], i), "cat": cat, "text": x, "fn": h["fn"]})
    rep.floor("C01.T1", "root templates with a known sink", roots, 60)
    # run the parser
    p = subprocess.run([extract.TMPL, "parse"], input="\n".join(json.dumps(r) for r in requests) + "\n", stdout=subprocess.PIPE, stderr=subprocess.PIPE, text=True)
    results = {}
    for line in p.stdout.splitlines():
        try:
            r = json.loads(line)
            results[r["id"]] = r
        except Exception:
            pass
    rep.floor("C01.T1", "instantiations parsed", len(results), 300)
    by_t = {}
    for r in requests:
        res = results.get(r["id"])
        sp = r["id"].split("|")[0]
        d = by_t.setdefault(sp, {"fn": r["fn"], "cat": r["cat"], "n": 0, "bad": []})
        d["n"] += 1
        if res is None or not res.get("ok"):
            d["bad"].append((r["text"], (res or {}).get("err", "no answer")))
    per_fn = {}
    for sp, d in sorted(by_t.items()):
        per_fn[d["fn"]] = per_fn.get(d["fn"], 0) + 1
        key = "%s#%d" % (d["fn"], per_fn[d["fn"]])
        if d["bad"]:
            text, err = d["bad"][0]
            rep.ob("C01.T1", "parses-as-%s:%s" % (d["cat"], key), False,
                   "template at %s instantiated as `%s` does not parse as %s (%s): %d of %d instantiations fail" % (sp, text[:160], d["cat"], err[:80], len(d["bad"]), d["n"]), sp)
        else:
            rep.ob("C01.T1", "parses-as-%s:%s" % (d["cat"], key), True, "%d instantiations of the template at %s parse as %s" % (d["n"], sp.split("/")[-1], d["cat"]), sp)
    # fail closed on resolution
    n_unres = len(unresolved_roots)
    rep.ob("C01.T1", "holes-resolved", n_unres <= 3, "%d root templates have a hole whose producer could not be resolved%s" % (n_unres, (": " + "; ".join("%s (%s)" % (n["sp"], t1.unresolved.get(n["sp"], ["?"])[0]) for h, n in unresolved_roots[:4])) if n_unres else ""), nontrivial=False)
    rep.ob("C01.T1", "sinks-known", len(nosink) <= 6, "%d root templates have no known sink%s" % (len(nosink), (": " + ", ".join(nosink[:6])) if nosink else ""), nontrivial=False)
    for (h, n) in unresolved_roots[:8]:
        rep.info("T1 unresolved: %s %s" % (n["sp"], t1.unresolved.get(n["sp"], ["?"])[:2]))
    for x in nosink[:10]:
        rep.info("T1 no sink: %s" % x)
    rep.sample({"rule": "C01.T1", "templates": len(all_t), "typed_holes": holes_total, "roots": roots, "children": len(t1.children), "instantiations": len(requests),
                "example": requests[len(requests) // 2] if requests else None})
