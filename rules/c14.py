"""C14 — replacement, conversion, patch, derive and map-type settings apply everywhere (syntactic obligations)."""
import re
from lib import (Canon, option_branch, norm_arm, walk, nodes, ends, src, psrc, outcome, contains_node, pat_top_variants, short, calls_in, block_last,
                 strip_refs, guards, gtext, top_stmts, templates_in)
import emit
import tmplparse as tp

EXPLANATION = (
    "Decides syntactic obligations on the paths where settings are consulted, not that unaffected types keep their behaviour: "
    "(W1) on the branch where the replacement lookup hits, no conversion function is called and the pre-assigned id is bound to a "
    "native entry built from the replacement's type; the lookup key is the definition name sanitised exactly like type names; "
    "(W2) every constructor site of a named entry (enum/struct/newtype) takes its name and extra derives from the patch lookup; "
    "the patch lookup returns the rename (or the original name) and the patch's derives; (T1) each item template's derive list "
    "comes from the one derive assembler fed with the base set, the entry's and the settings' extra derives, and the assembler "
    "chains all three; (T2) the type renderer and the item emitters format the same `name` field, so a patched name is the only "
    "name that appears; (D1) both places that render a map type read settings.map_type and share the one exception "
    "(String -> JsonValue); (W3) in convert_schema the conversion-cache lookup dominates the structural dispatcher and ignores "
    "annotations on both sides — and nothing else: a member-wise comparison names every member of SchemaObject except metadata; (T3) enabling the builder only adds items: no template has an else-branch on the setting; "
    "(W4) every settings setter (`with_*`) and the conversion cache's insert store what they are given on every path; the only "
    "condition allowed is an exact-duplicate test (`!list.contains(&item)` on the list itself), never a test on part of the value; (W5) once a type space exists its settings are only read: every write to a field of the "
    "settings is inside one of the settings' own setters; (W6) no two setters insert into the same keyed field of the settings."
)
ASSUMPTIONS = ["conversions of synthesised sub-schemas (merged schemas) are not decided"]


SCHEMA_OBJECT_MEMBERS = {"instance_type", "format", "enum_values", "const_value", "subschemas", "number", "string", "array", "object", "reference", "extensions"}


def run(facts, rep, tier):
    c = facts.impl
    run_w4(facts, rep)

    # ------------------------------------------------------------ W5 the settings are frozen once the space exists
    from lib import field_accesses, is_write
    acc = field_accesses(c, lambda t: t.endswith("TypeSpaceSettings") or t.endswith("TypeSpaceSettings>"))
    acc += [a for a in field_accesses(c, lambda t: t.endswith("TypeSpace"), {"settings"})]
    rep.floor("C14.W5", "accesses to the settings", len(acc), 25)
    nwr = 0
    for a in acc:
        if not is_write(a["how"]):
            continue
        nwr += 1
        fnq = a["fn"]
        ok = "TypeSpaceSettings::" in fnq or (a["field"] == "settings" and fnq.endswith("TypeSpace::new"))
        key = "%s.%s:%s" % (fnq, a["field"], "/".join(str(x) for x in a["how"]))
        key += "#%d" % sum(1 for o in rep.obligations if o["key"].startswith("C14.W5/settings-write:" + key + "#"))
        rep.ob("C14.W5", "settings-write:" + key, ok, "written by a setter of the settings" if ok else
               "%s modifies settings.%s (%s) while converting: a setting is honoured for the first use only / differently from one definition to the next" % (fnq, a["field"], "/".join(str(x) for x in a["how"])), a["node"].get("sp"))
    rep.floor("C14.W5", "writes to the settings (all in setters)", nwr, 8)
    # W5b: the conversion cache holds the user's conversions and nothing else: after the space is created it is only read
    # (a cache that remembers converted schemas answers later conversions without their own checks, e.g. of the default)
    cacc = field_accesses(c, lambda t: t.endswith("TypeSpace"), {"cache"})
    rep.floor("C14.W5", "uses of the conversion cache", len(cacc), 1)
    for a in cacc:
        par = a["parent"]
        callee = c.fns.get(par.get("fn", ""), {}) if par.get("k") == "mcall" else {}
        mut_self = bool(callee.get("inputs")) and callee["inputs"][0].startswith("&mut")
        if par.get("k") == "let" and str(par.get("param_ty", "")).startswith("&mut"):
            mut_self = True  # the receiver of an inlined `&mut self` helper
        wr = is_write(a["how"]) or mut_self
        if not wr:
            continue
        okc = a["fn"].endswith("TypeSpace::new")
        rep.ob("C14.W5", "cache-write:%s:%s" % (a["fn"], "/".join(str(x) for x in a["how"])), okc, "filled from the settings when the space is created" if okc else
               "%s writes the conversion cache (%s) while converting: later occurrences of the schema are answered from the cache without the checks of their own conversion (annotations are not part of the key, so a `default` is never range-checked)" % (a["fn"], "/".join(str(x) for x in a["how"])), a["node"].get("sp"))

    # W6: two different settings do not share one keyed slot: a keyed insert by one setter must not be able to replace
    # what another setter stored (a replacement registered for a type is lost when a patch for it is registered later)
    by_field = {}
    for a in acc:
        if is_write(a["how"]) and "TypeSpaceSettings::with_" in a["fn"] and a["how"][0] == "call" and a["how"][1] in ("insert", "entry"):
            by_field.setdefault(a["field"], set()).add(a["fn"].split("::")[-1])
    for fld, setters in sorted(by_field.items()):
        ok6 = len(setters) == 1
        rep.ob("C14.W6", "one-setter-per-keyed-field:%s" % fld, ok6, "`%s` is keyed storage of %s only" % (fld, sorted(setters)[0]) if ok6 else
               "the setters %s all insert into `settings.%s` under the caller's key: registering one kind of override for a type silently replaces another kind registered earlier for the same type" % (sorted(setters), fld))
    rep.floor("C14.W6", "keyed settings fields", len(by_field), 3)

    # ------------------------------------------------------------ W1 replacement
    reps = []
    for h in c.user_fns():
        cnh = None
        for n, _ in nodes(h["body"], "mcall"):
            if n["name"] == "get" and "TypeSpaceReplace" in c.ty((strip_refs(n["recv"]) or {}).get("ty")):
                cnh = cnh or Canon(c, h, 4)
                if cnh.r(n["recv"]).endswith("settings.replace"):
                    reps.append((h, n))
    if rep.floor("C14.W1", "replacement lookup", len(reps), 1):
        h, look = reps[0]
        cn = Canon(c, h, 5)
        kinit = cn.r(look["args"][0])
        def balanced(t):
            d = 0
            for ch in t:
                d += ch == "("
                d -= ch == ")"
                if d < 0:
                    return False
            return d == 0
        mk = re.fullmatch(r"sanitize\((.+), Case::Pascal\)", kinit)
        ok = mk is not None and balanced(mk.group(1))  # one call: the whole key is the sanitised name
        rep.ob("C14.W1", "lookup-key-sanitised-like-type-names", ok, "replacement key = %s" % kinit if ok else "the replacement lookup key `%s` is not the Pascal-sanitised definition name" % kinit, look.get("sp"))
        gtn = [x for x in c.user_fns() if x["fn"].endswith("util::get_type_name")]
        if gtn:
            g = Canon(c, gtn[0], 4).r(gtn[0]["body"])
            rep.ob("C14.W1", "type-names-sanitised-pascal", g.startswith("Some(sanitize(") and g.endswith(", Case::Pascal))"), "get_type_name ends in sanitize(.., Case::Pascal)")
        # the branch on the lookup result (if-let or match, directly or through a let)
        ob = None
        for n, _ in walk(h["body"]):
            o = option_branch(n)
            if o is None:
                continue
            sc = o[0]
            if contains_node(sc, look):
                ob = o
            else:
                scs = strip_refs(sc)
                if scs.get("k") == "path" and scs.get("res") == "local":
                    from lib import scope_binding
                    bb = scope_binding(h, cn.ancestors(scs), scs["path"], scs)
                    if bb and bb[0] == "let" and contains_node(bb[1].get("init") or {}, look):
                        ob = o
        if rep.floor("C14.W1", "branch on the lookup result", 1 if ob else 0, 1):
            sc, spat, some_body, none_body = ob
            cs = calls_in(some_body)
            conv = [x for x in cs if "::convert_" in x or x.endswith("id_for_schema") or x.endswith("assign_type")]
            rep.ob("C14.W1", "hit-converts-nothing", not conv, "no conversion on the replacement branch" if not conv else "the replaced definition is still converted: %s" % conv, some_body.get("sp"))
            ins = [n for n, _ in nodes(some_body, "mcall") if n["name"] == "insert" and cn.r(n["recv"]).endswith(".id_to_entry")]
            okn = oki = False
            if ins:
                key = cn.r(ins[0]["args"][0])
                val = cn.r(ins[0]["args"][1])
                okn = bool(re.search(r"TypeEntryDetails::Native\(TypeEntryNative\{type_name: .*settings\.replace\.get\(.*~Some\.replace_type\.to_string\(\)", val)) or bool(re.search(r"new_native\(.*~Some\.replace_type", val))
                oki = bool(re.match(r"TypeId\(\(self\.next_id Add .*enumerate\(\)", key))
            rep.ob("C14.W1", "hit-binds-native-replacement", okn, "entry = native type built from the replacement's replace_type" if okn else "the replacement branch does not build the native entry from the configured type", some_body.get("sp"))
            rep.ob("C14.W1", "hit-uses-preassigned-id", oki, "stored at the id pre-assigned to this definition (base + index)" if oki else "the native entry is not stored at the pre-assigned id")
            rep.ob("C14.W1", "miss-converts", any(x.endswith("convert_ref_type") for x in calls_in(none_body)), "no replacement => the definition is converted")

    # ------------------------------------------------------------ W2 patch
    patchers = [h for h in c.user_fns() if any(src(n["recv"]).endswith("settings.patch") for n, _ in nodes(h["body"], "mcall") if n["name"] == "get")]
    if rep.floor("C14.W2", "patch lookup fn", len(patchers), 1):
        ph = patchers[0]
        g = Canon(c, ph, 5).r(ph["body"])
        ok = bool(re.fullmatch(r"match \$&TypeSpace\.settings\.patch\.get\((\$\w+)\) \{ None => \(\1, Default>::default\(\)\) \| Some\(_\) => \(\S*~Some\.rename\.unwrap_or\(\1\), \S*~Some\.derives\.iter\(\)\.cloned\(\)\.collect\(\)\) \}", g))
        rep.ob("C14.W2", "patch-lookup-semantics", ok, "no patch => (name, {}); patch => (rename or name, patch derives)" if ok else "type_patch is `%s`" % g[:200], c.fns[ph["fn"]].get("sp"))
        pfn = ph["fn"]
        sites = []
        for h in c.user_fns():
            for n, anc in nodes(h["body"], "struct"):
                if re.search(r"TypeEntry(Enum|Struct|Newtype)$", n["path"]):
                    par_ctor = [a for a in anc if a.get("k") == "call" and a.get("res") == "ctor" and re.search(r"TypeEntryDetails::(Enum|Struct|Newtype)$", a.get("fn", ""))]
                    if par_ctor:
                        sites.append((h, n))
        rep.floor("C14.W2", "constructor sites of named entries", len(sites), 6)
        from lib import scope_binding
        for h, st in sites:
            cn = Canon(c, h, 3)
            fields = {k: v for k, v in st["fields"]}
            te = [n for n, _ in nodes(h["body"], "struct") if n["path"].endswith("type_entry::TypeEntry") and "rest" not in n]
            tef = {k: v for k, v in te[0]["fields"]} if te else {}

            def from_patch(e, idx):
                e = strip_refs(e) if isinstance(e, dict) else {}
                if e.get("k") == "path" and e.get("res") == "local":
                    bb = scope_binding(h, cn.ancestors(e), e["path"], e)
                    return bool(bb) and bb[0] == "let" and bb[2] == idx and isinstance(bb[1].get("init"), dict) and bb[1]["init"].get("fn") == pfn
                return False
            ok = from_patch(fields.get("name"), 0) and from_patch(tef.get("extra_derives"), 1)
            rep.ob("C14.W2", "patched:%s" % h["fn"], ok, "name and extra_derives are the two results of the patch lookup" if ok else "named entry built in %s does not take name/derives from the patch lookup" % h["fn"], st.get("sp"))

    # ------------------------------------------------------------ T1 derives / T2 names / T3 builder
    ems = emit.find_emitters(facts, c)
    if rep.floor("C14.T1", "item emitters", len(ems), 3):
        asm = None
        for kind, em in ems.items():
            t, it = em.decl
            flat = tp.squash(tp.flat(t.tt))
            has = "#[derive( #( #derives ), * )]" in tp.flat(t.tt) or re.search(r"derive\s*\(\s*#\(\s*#derives\s*\)\s*,\s*\*\s*\)", tp.flat(t.tt)) is not None
            rep.ob("C14.T1", "derive-list-in-item:%s" % kind, has, "item template carries #[derive(#(#derives),*)]" if has else "the %s item template does not interpolate the assembled derive list" % kind, t.sp)
            hc = em.hole_canon()
            dprov = hc.get(em.actual.get("derives", "derives"), "")
            ok = bool(re.fullmatch(r"strings_to_derives\(\$BTreeSet<&str>, self\.extra_derives, \$&TypeSpace\.settings\.extra_derives\)", dprov))
            m_asm = [n for n, _ in nodes(em.h["body"], "call") if n.get("fn", "").endswith("strings_to_derives")]
            if m_asm:
                asm = m_asm[0]["fn"]
            rep.ob("C14.T1", "derives-assembled:%s" % kind, ok, "derives = %s" % dprov if ok else "the derive list is `%s`, not the assembler over (base set, entry derives, settings derives)" % dprov[:120], t.sp)
            # T2: emitter and renderer format the same field
            nprov = hc.get(em.actual.get("type_name", "type_name"), "")
            rep.ob("C14.T2", "item-name-is-entry-name:%s" % kind, bool(re.fullmatch(r"format_ident!\(\S*~TypeEntry(Enum|Struct|Newtype)\.name\)", nprov)) and it["name"] == "#type_name", "item is declared as format_ident!(<entry>.name): %s" % nprov)
            # T3
            for tt in em.templates:
                for g in tt.guards:
                    if g[0] == "else" and "struct_builder" in g[1]:
                        rep.ob("C14.T3", "builder-else-branch:%s" % kind, False, "a template is emitted only when the builder is OFF: the setting changes the remaining output", tt.sp)
        rep.ob("C14.T3", "builder-only-adds", True, "no template sits in an else-branch of the builder setting", nontrivial=False)
        if asm and asm in c.hir:
            s = src(c.hir[asm]["body"])
            p = [b["name"] for pp in c.hir[asm]["params"] for b, _ in walk(pp) if b.get("k") == "bind"]
            ok = len(p) == 3 and ("%s.clone()" % p[0]) in s and ("extend(%s.iter()" % p[1]) in s and ("extend(%s.iter()" % p[2]) in s
            rep.ob("C14.T1", "assembler-chains-all-three", ok, "combined = base ∪ type derives ∪ settings derives" if ok else "the derive assembler drops one of its inputs: %s" % s[:160], c.fns[asm].get("sp"))
    ti = [h for h in c.user_fns() if ends(h["fn"], "TypeEntry::type_ident")]
    if ti:
        m = [n for n, _ in nodes(ti[0]["body"], "match") if n.get("src") == "normal" and "TypeEntryDetails" in c.ty(n.get("scty"))][0]
        cnr = Canon(c, ti[0], 5)
        for arm in m["arms"]:
            tops = [t.split("::")[-1] for t in pat_top_variants(arm["pat"])]
            if "Struct" in tops:
                fis = [cnr.r(x) for x, _ in walk(arm["body"]) if x.get("k") == "macro" and x["name"] == "format_ident"]
                named = [x for x in fis if re.fullmatch(r"format_ident!\(self\.details~(Enum|Struct|Newtype)~TypeEntry(Enum|Struct|Newtype)\.name\)", x)]
                ok = set(tops) == {"Enum", "Struct", "Newtype"} and len(named) >= 1 and all(x in named or "Option<String>" in x for x in fis)
                rep.ob("C14.T2", "renderer-uses-entry-name", ok, "type_ident renders Enum|Struct|Newtype by their `name` field" if ok else "the renderer formats %s" % fis, arm.get("sp"))

    # ------------------------------------------------------------ D1 map type
    map_sites = []
    for h in c.user_fns():
        for n, anc in walk(h["body"]):
            if n.get("k") == "field" and n["name"] == "map_type" and "TypeSpaceSettings" in c.ty(n.get("bty")):
                if anc and anc[-1].get("k") == "assign" and anc[-1].get("l") is n:
                    continue  # the setter
                map_sites.append((h, n, anc))
    fns = sorted({h["fn"] for h, _, _ in map_sites})
    rep.floor("C14.D1", "readers of settings.map_type", len(fns), 2)
    EXC = r"\(\(\S*\.id_to_entry\.get\(.*?~Map\.0\)\.expect\(\"[^\"]*\"\)\.details Eq TypeEntryDetails::String\) And \(\S*\.id_to_entry\.get\(.*?~Map\.1\)\.expect\(\"[^\"]*\"\)\.details Eq TypeEntryDetails::JsonValue\)\)"
    from lib import PCanon
    EXC_P = r"\(\(\S*\.id_to_entry\.get\((\$P\d)\)\.expect\(\"[^\"]*\"\)\.details Eq TypeEntryDetails::String\) And \(\S*\.id_to_entry\.get\((\$P\d)\)\.expect\(\"[^\"]*\"\)\.details Eq TypeEntryDetails::JsonValue\)\)"
    for h, n, anc in map_sites:
        cnm = Canon(c, h, 5)
        arms = [g for g in guards(anc, n) if g[0] == "arm" and "TypeEntryDetails::Map" in g[1]]
        if not arms:
            # the read sits in a helper: every call of the helper must come from a Map arm and hand over that arm's key and value ids
            callers = [(hh, x, xa) for hh in c.user_fns() for x, xa in walk(hh["body"]) if x.get("k") in ("call", "mcall") and x.get("fn") == h["fn"]]
            pc = PCanon(c, h, 5)
            ifs = [(x, re.fullmatch(EXC_P, pc.r(x["cond"]))) for x, _ in nodes(h["body"], "if")]
            ifs = [(x, m_) for x, m_ in ifs if m_]
            okc = bool(callers) and bool(ifs)
            for hh, x, xa in callers:
                in_map = [g for g in guards(xa, x) if g[0] in ("arm", "if") and "TypeEntryDetails::Map" in g[1]]
                cnc = Canon(c, hh, 4)
                args = [cnc.r(a_) for a_ in (([x["recv"]] if x.get("k") == "mcall" else []) + list(x["args"]))]
                if ifs:
                    ki, vi = int(ifs[0][1].group(1)[2:]), int(ifs[0][1].group(2)[2:])
                    okc = okc and bool(in_map) and ki < len(args) and vi < len(args) and args[ki].endswith("~Map.0") and args[vi].endswith("~Map.1")
            rep.ob("C14.D1", "map-arm-reads-setting:%s" % h["fn"], okc, "read in a helper that is only called from Map arms with that arm's key and value ids" if okc else "settings.map_type is read outside a Map arm (and not in a helper called from Map arms only)", None)
            ok = bool(ifs) and "serde_json" in " ".join((facts.template_at(q["sp"]) or {}).get("text", "") for q, _ in walk(ifs[0][0]["then"]) if q.get("k") == "macro")
            ok2 = bool(ifs) and ifs[0][0].get("else") is not None and any("settings.map_type" in cnm.r(x) for x, _ in walk(ifs[0][0]["else"]) if x.get("k") in ("path", "field"))
            rep.ob("C14.D1", "map-exception-shared:%s" % h["fn"], bool(ok and ok2), "String->JsonValue => serde_json::Map, otherwise the configured map type" if ok and ok2 else "the helper %s does not use the configured map type except for String->JsonValue" % h["fn"], (ifs[0][0] if ifs else {}).get("sp"))
            continue
        rep.ob("C14.D1", "map-arm-reads-setting:%s" % h["fn"], bool(arms), "read inside the Map arm `%s`" % (arms[0][1][:60] if arms else "?"), None)
        arm_body = None
        for a in reversed(anc):
            if a.get("k") is None and "pat" in a and "TypeEntryDetails::Map" in psrc(a["pat"]):
                arm_body = a["body"]
                break
        ifs = [x for x, _ in nodes(arm_body or {}, "if") if re.fullmatch(EXC, cnm.r(x["cond"]))]
        ok = bool(ifs) and "serde_json" in " ".join((facts.template_at(q["sp"]) or {}).get("text", "") for q, _ in walk(ifs[0]["then"]) if q.get("k") == "macro")
        ok2 = bool(ifs) and ifs[0].get("else") is not None and any("settings.map_type" in cnm.r(x) for x, _ in walk(ifs[0]["else"]) if x.get("k") == "path" and x.get("res") == "local")
        rep.ob("C14.D1", "map-exception-shared:%s" % h["fn"], bool(ok and ok2), "String->JsonValue => serde_json::Map, otherwise the configured map type" if ok and ok2 else "the Map arm in %s does not use the configured map type except for String->JsonValue" % h["fn"], (ifs[0] if ifs else {}).get("sp"))

    # ------------------------------------------------------------ W3 conversions first
    cs = [h for h in c.user_fns() if ends(h["fn"], "TypeSpace::convert_schema")]
    if rep.floor("C14.W3", "convert_schema", len(cs), 1):
        h = cs[0]
        m = [n for n, _ in nodes(h["body"], "match") if n.get("src") == "normal" and "schemars::schema::Schema" in c.ty(n.get("scty"))]
        ok = False
        if m:
            for a in m[0]["arms"]:
                if "Schema::Object" in psrc(a["pat"]):
                    body = block_last(a["body"])
                    ob = option_branch(body)
                    if ob is not None and any(x.get("k") == "mcall" and x["name"] == "lookup" and "SchemaCache" in x.get("fn", "") for x, _ in walk(ob[0])):
                        hit = src(block_last(ob[2]))
                        miss = calls_in(ob[3] or {})
                        ok = hit.startswith("Ok((") and any(x.endswith("convert_schema_object") for x in miss) and not any(x.endswith("convert_schema_object") for x in calls_in(ob[2]))
        rep.ob("C14.W3", "cache-lookup-dominates-dispatch", ok, "`if let Some(entry) = self.cache.lookup(obj) { Ok(entry) } else { convert_schema_object }`" if ok else "the conversion cache is not consulted before the structural dispatcher", h.get("sp") or c.fns[h["fn"]].get("sp"))
    for meth in ("insert", "lookup"):
        hh = [h for h in c.user_fns() if h["fn"].endswith("SchemaCache::" + meth)]
        if rep.floor("C14.W3", "SchemaCache::" + meth, len(hh), 1):
            st = [n for n, _ in nodes(hh[0]["body"], "struct") if n["path"].endswith("SchemaObject")]
            ok = bool(st) and dict((k, src(v)) for k, v in st[0]["fields"]).get("metadata") == "None"
            msg = "%s strips metadata before comparing" % meth if ok else "SchemaCache::%s compares annotations" % meth
            if not ok and meth == "lookup":
                # the other way to ignore annotations: compare member by member. Then every member of schemars' SchemaObject
                # except `metadata` has to be compared - a member left out makes the conversion apply to schemas that differ
                # in it (reviewed list: schemars 0.8 SchemaObject; `metadata` is the annotations)
                cmp_ = set()
                for n, _ in nodes(hh[0]["body"], "bin"):
                    l, r = n["l"], n["r"]
                    if n["op"] == "Eq" and l.get("k") == "field" and r.get("k") == "field" and l["name"] == r["name"] \
                            and "SchemaObject" in c.ty(l["e"].get("ty")) and "SchemaObject" in c.ty(r["e"].get("ty")) and src(l["e"]) != src(r["e"]):
                        cmp_.add(l["name"])
                if cmp_:
                    missing, extra = sorted(SCHEMA_OBJECT_MEMBERS - cmp_), sorted(cmp_ - SCHEMA_OBJECT_MEMBERS)
                    ok = not missing and not extra
                    msg = ("lookup compares every member of SchemaObject except metadata (%d members)" % len(cmp_)) if ok else \
                        ("SchemaCache::lookup compares annotations (%s)" % extra if extra else
                         "SchemaCache::lookup compares member by member and leaves out %s: a conversion is applied to a schema that differs from the configured one in that member" % missing)
            rep.ob("C14.W3", "annotations-ignored:" + meth, ok, msg)
    new = [h for h in c.user_fns() if ends(h["fn"], "TypeSpace::new")]
    if new:
        s = Canon(c, new[0], 5).r(new[0]["body"])
        ok = bool(re.search(r"\$&TypeSpaceSettings\.convert\.iter\(\)\.for_each\(\|\.\.\| \S+\.insert\(elem<\S+>~TypeSpaceConversion\.schema, elem<\S+>~TypeSpaceConversion\.type_name, elem<\S+>~TypeSpaceConversion\.impls\)\)", s))
        if not ok:
            # any other loop over the configured conversions: the insert takes the element's three members and is not conditional
            cn_ = Canon(c, new[0], 5)
            ELEM = r"(elem<[^>]*\$&TypeSpaceSettings\.convert[^>]*>|Iterator::next\(IntoIterator::into_iter\(\$&TypeSpaceSettings\.convert(\.iter\(\))?\)\)~Some\.0)(~TypeSpaceConversion)?"
            for n, a in nodes(new[0]["body"], "mcall"):
                if n["name"] == "insert" and n.get("fn", "").endswith("SchemaCache::insert") and len(n.get("args", [])) == 3:
                    args = [cn_.r(x) for x in n["args"]]
                    cond = [g for g in guards(a, n) if g[0] in ("if", "else") or (g[0] == "adaptor" and g[1] in ("filter", "filter_map", "take", "skip", "take_while", "skip_while")) or (g[0] == "arm" and g[1] not in ("_",) and "Some" not in g[1])]
                    if all(re.fullmatch(ELEM + r"\." + f_, a_) for f_, a_ in zip(("schema", "type_name", "impls"), args)) and not cond:
                        ok = True
        rep.ob("C14.W3", "conversions-loaded", ok, "TypeSpace::new loads every configured conversion into the cache" if ok else "TypeSpace::new does not insert every configured conversion (schema, type_name, impls) into the cache")


def run_w4(facts, rep):
    from lib import must_pass_strict as must_pass
    c = facts.impl
    fns = [h for h in c.user_fns() if re.search(r"(TypeSpaceSettings|TypeSpacePatch)::with_\w+$", h["fn"]) or h["fn"].endswith("SchemaCache::insert")]
    rep.floor("C14.W4", "settings setters and the conversion cache's insert", len(fns), 10)
    for h in fns:
        def is_store(x):
            if x.get("k") == "assign":
                l = strip_refs(x["l"])
                return l.get("k") == "field" and src(strip_refs(l["e"])) == "self"
            if x.get("k") == "mcall" and x["name"] in ("push", "insert", "extend", "push_back", "append"):
                r = strip_refs(x["recv"])
                return r.get("k") == "field" and src(strip_refs(r["e"])) == "self"
            return False
        stores = [x for x, _ in walk(h["body"]) if is_store(x)]
        if not stores:
            rep.ob("C14.W4", "setter-stores:%s" % h["fn"], False, "the setter does not store anything into its receiver", h.get("sp") or c.fns[h["fn"]].get("sp"))
            continue
        ok = must_pass(h["body"], is_store)
        why = "the value is stored on every path"
        if not ok:
            # the one allowed condition: `if !self.f.contains(&arg) { self.f.push(arg) }`
            ok2 = False
            for n, _ in nodes(h["body"], "if"):
                cnd = n["cond"]
                if cnd.get("k") == "un" and cnd.get("op") == "Not" and cnd["e"].get("k") == "mcall" and cnd["e"]["name"] == "contains" and n.get("else") is None:
                    recv = strip_refs(cnd["e"]["recv"])
                    tgt = [strip_refs(x["recv"]) for x in stores if x.get("k") == "mcall" and contains_node(n["then"], x)]
                    exact = not re.search(r"\bstr::contains|String", cnd["e"].get("fn", "")) and ("slice" in cnd["e"].get("fn", "") or "Vec" in cnd["e"].get("fn", "") or "BTreeSet" in cnd["e"].get("fn", "") or "[T]" in cnd["e"].get("fn", ""))
                    arg = strip_refs(cnd["e"]["args"][0]) if cnd["e"].get("args") else {}
                    if tgt and src(recv) == src(tgt[0]) and exact and arg.get("k") == "path" and arg.get("res") == "local":
                        ok2 = True
            # the same guard as an early return: `if self.f.contains(&arg) { return self; } self.f.push(arg)`
            for n, _ in nodes(h["body"], "if"):
                cnd = n["cond"]
                if cnd.get("k") == "mcall" and cnd["name"] == "contains" and n.get("else") is None and outcome(n["then"]) in ("ret", "ret-none", "ret-err"):
                    recv = strip_refs(cnd["recv"])
                    tgt = [strip_refs(x["recv"]) for x in stores if x.get("k") == "mcall"]
                    exact = not re.search(r"\bstr::contains|String", cnd.get("fn", "")) and ("slice" in cnd.get("fn", "") or "Vec" in cnd.get("fn", "") or "BTreeSet" in cnd.get("fn", "") or "[T]" in cnd.get("fn", ""))
                    arg = strip_refs(cnd["args"][0]) if cnd.get("args") else {}
                    rets = [x for x, xa in walk(h["body"]) if x.get("k") == "ret" and not any(a.get("k") == "closure" for a in xa)]
                    if tgt and src(recv) == src(tgt[0]) and exact and arg.get("k") == "path" and arg.get("res") == "local" and all(contains_node(n["then"], r_) for r_ in rets):
                        ok2 = True
            ok = ok2
            why = "stored unless the list already contains exactly this item"
        rep.ob("C14.W4", "setter-stores:%s" % h["fn"], ok, why if ok else
               "`%s` can return without storing its argument (the store is under a condition that is not an exact-duplicate test): a derive / conversion / replacement the caller configured is silently dropped, so it is not applied everywhere" % h["fn"].split("::")[-1], stores[0].get("sp"))
