"""C09 — allOf means intersection: an unsatisfiable conjunction never becomes permissive (one clause)."""
import re
from lib import (norm_arm, walk, nodes, ends, src, psrc, outcome, contains_node, pat_top_variants, short, calls_in, block_last,
                 strip_refs, guards, gtext, top_stmts)

EXPLANATION = (
    "Decides one clause, not that satisfiable conjunctions accept the right instances nor order independence: (W1) every value "
    "of the merge machinery that can signal 'no instance' — a Result<_, ()> from the try_merge family, Schema::Bool(false) from "
    "merge_all — is, at each site where it is consumed, propagated with `?`, mapped to Schema::Bool(false), matched with an Err "
    "arm that builds the uninhabited type, tested, or is one of the tabled drops (a branch of anyOf/oneOf that cannot be merged "
    "is removed); at the converter's call sites the unsatisfiable outcome reaches the empty-enum constructor, directly or "
    "through convert_schema's `false` arm; the empty-enum constructor builds an enum with no variants."
)
ASSUMPTIONS = ["the pairwise merge functions compute intersections (not decided)"]

# tabled drops: (fn suffix, reason)
TABLED_DROPS = {
    "merge::try_merge_with_subschemas_not": "`not` of an unsatisfiable conjunction excludes nothing: the outer schema is kept unchanged",
    "merge::try_merge_with_each_subschema": "a branch of anyOf/oneOf that cannot be merged with the outer schema admits no instance and is removed; zero remaining branches is reported as Err by the caller",
}


def is_unit_result(t):
    return bool(re.search(r"Result<.*, \(\)>$", t))


def run(facts, rep, tier):
    c = facts.impl
    # ------------------------------------------------------------ consumption of Result<_, ()>
    n = 0
    for h in c.user_fns():
        for x, anc in walk(h["body"]):
            if x.get("k") not in ("call", "mcall"):
                continue
            if not is_unit_result(c.ty(x.get("ty"))):
                continue
            if x.get("k") == "call" and x.get("res") == "ctor":
                continue  # Ok(..)/Err(()) constructors
            if x.get("fn", "").endswith("FromResidual::from_residual") or x.get("fn", "").endswith("Try::branch"):
                continue  # desugaring of `?`
            if x.get("k") == "mcall" and x["name"] in ("map", "map_err", "and_then", "or_else", "ok_or", "transpose", "collect", "try_fold", "cloned", "copied"):
                # adaptor producing the Result: its own consumer is what matters; treat this node as the producer
                pass
            par = anc[-1] if anc else {}
            gp = anc[-2] if len(anc) > 1 else {}
            callee = x.get("fn") or x.get("name")
            n += 1
            key = "%s/%s#%d" % (h["fn"], short(callee or "?"), sum(1 for o in rep.obligations if o["key"].startswith("C09.W1/consumed:%s/%s#" % (h["fn"], short(callee or "?")))))
            how = None
            ok = False
            if par.get("k") == "call" and par.get("fn", "").endswith("Try::branch"):
                how, ok = "propagated with `?`", True
            elif par.get("k") == "mcall" and par.get("recv") is x and par["name"] in ("unwrap_or", "unwrap_or_else"):
                a = src(par["args"])
                ok = "Schema::Bool(false)" in a
                how = "mapped to %s" % a[:40]
            elif par.get("k") == "mcall" and par.get("recv") is x and par["name"] == "ok":
                fnkey = [k for k in TABLED_DROPS if h["fn"].endswith(k)]
                in_filter = any(a.get("k") == "mcall" and a["name"] in ("filter_map", "flat_map") for a in anc)
                ok = bool(fnkey) and in_filter
                how = "tabled drop: " + TABLED_DROPS[fnkey[0]] if ok else "`.ok()` discards the unsatisfiable outcome"
            elif par.get("k") == "mcall" and par.get("recv") is x and par["name"] in ("is_ok", "is_err"):
                how, ok = "tested with %s()" % par["name"], True
            elif par.get("k") == "mcall" and par.get("recv") is x and par["name"] in ("map", "map_err", "and_then", "or_else"):
                continue  # consumer is the adaptor's own consumer (visited as its own node)
            elif par.get("k") == "match" and par.get("scrut") is x:
                errs = [a for a in par["arms"] if psrc(a["pat"]).startswith("Err(")]
                s = src(errs[0]["body"]) if errs else ""
                ok = bool(errs) and ("convert_never(" in s or "Err(())" in s or "Schema::Bool(false)" in s)
                how = "matched: Err => %s" % s[:50]
                fnkey = [k for k in TABLED_DROPS if h["fn"].endswith(k)]
                if not ok and fnkey and errs:
                    ok, how = True, "tabled drop: " + TABLED_DROPS[fnkey[0]]
            elif par.get("k") == "let":
                # bound to a name: find a match on that name
                nm = par["pat"].get("name")
                ms = [m for m, _ in nodes(h["body"], "match") if src(m["scrut"]) == nm]
                if ms:
                    errs = [a for a in ms[0]["arms"] if psrc(a["pat"]).startswith("Err(")]
                    s = src(errs[0]["body"]) if errs else ""
                    ok = bool(errs) and ("convert_never(" in s or "Err(())" in s or "Schema::Bool(false)" in s)
                    how = "bound to `%s` and matched: Err => %s" % (nm, s[:50])
                else:
                    how = "bound to `%s` and not matched" % nm
            elif par.get("k") in ("block",) and (par.get("tail") is x):
                how, ok = "returned to the caller", True
            elif par.get("k") is None and par.get("body") is x:
                how, ok = "arm value returned to the caller", True
            elif par.get("k") == "closure" and par.get("body") is x:
                how, ok = "closure result (consumed by its adaptor)", True
            elif par.get("k") == "ret":
                how, ok = "returned", True
            elif par.get("k") == "if" and (par.get("then") is x or par.get("else") is x):
                how, ok = "branch value returned to the caller", True
            else:
                how = "consumed by `%s`" % src(par)[:60]
            rep.ob("C09.W1", "consumed:" + key, ok, how if ok else "an unsatisfiable merge result of %s is %s: the conjunction can become permissive" % (short(callee or "?"), how), x.get("sp"))
    rep.floor("C09.W1", "sites consuming a Result<_, ()> of the merge machinery", n, 25)

    # ------------------------------------------------------------ merge_all results at the converter
    ma = [q for q in c.hir if q.endswith("merge::merge_all")]
    if rep.floor("C09.W1", "merge_all", len(ma), 1):
        s = src(c.hir[ma[0]]["body"])
        rep.ob("C09.W1", "merge_all-maps-err-to-false", "unwrap_or(Schema::Bool(false))" in s, "merge_all = try_merge_all(..).unwrap_or(Schema::Bool(false))")
        sites = [(h, x, anc) for h in c.user_fns() for x, anc in walk(h["body"]) if x.get("k") == "call" and x.get("fn") == ma[0]]
        rep.floor("C09.W1", "call sites of merge_all", len(sites), 2)
        never = [q for q in c.hir if q.endswith("TypeSpace::convert_never")]
        for h, x, anc in sites:
            par = anc[-1]
            nm = par["pat"].get("name") if par.get("k") == "let" else (src(par["l"]) if par.get("k") == "assign" else None)
            key = "%s#%d" % (h["fn"], sum(1 for o in rep.obligations if o["key"].startswith("C09.W1/false-reaches-never:%s#" % h["fn"])))
            ok = False
            how = "result is not bound"
            if nm:
                tests = [i for i, _ in nodes(h["body"], "if") if i["cond"].get("k") == "letx" and "Schema::Bool(false)" in psrc(i["cond"]["pat"]) and nm in src(i["cond"]["init"])]
                if tests and any(q in calls_in(tests[0]["then"]) for q in never):
                    ok, how = True, "`if let Schema::Bool(false) = &%s { convert_never }`" % nm
                else:
                    conv = [y for y, _ in walk(h["body"]) if y.get("k") in ("call", "mcall") and y.get("fn", "").endswith("TypeSpace::convert_schema") and nm in src(y.get("args", []))]
                    if conv:
                        ok, how = True, "`%s` is converted by convert_schema, whose `false` arm builds the uninhabited type" % nm
            rep.ob("C09.W1", "false-reaches-never:" + key, ok, how if ok else "Schema::Bool(false) from merge_all in %s does not reach the uninhabited type (%s)" % (h["fn"], how), x.get("sp"))
    cs = [h for h in c.user_fns() if ends(h["fn"], "TypeSpace::convert_schema")]
    if cs:
        m = [n_ for n_, _ in nodes(cs[0]["body"], "match") if n_.get("src") == "normal" and "schemars::schema::Schema" in c.ty(n_.get("scty"))]
        got = {}
        if m:
            for a in m[0]["arms"]:
                got[psrc(a["pat"])] = src(a["body"])
        rep.ob("C09.W1", "false-schema-is-never", "convert_never(" in got.get("Schema::Bool(false)", ""), "convert_schema: Schema::Bool(false) => convert_never")
        rep.ob("C09.W1", "true-schema-is-permissive", "convert_permissive(" in got.get("Schema::Bool(true)", ""), "convert_schema: Schema::Bool(true) => convert_permissive")
    nv = [h for h in c.user_fns() if h["fn"].endswith("TypeSpace::convert_never")]
    if rep.floor("C09.W1", "uninhabited-type constructor", len(nv), 1):
        call = [x for x, _ in nodes(nv[0]["body"], "call") if x.get("fn", "").endswith("TypeEntryEnum::from_metadata")]
        args = [src(a) for a in call[0]["args"]] if call else []
        ok = bool(call) and "vec!()" in args and "EnumTagType::External" in args
        rep.ob("C09.W1", "never-is-an-empty-enum", ok, "convert_never = enum with no variants" if ok else "convert_never builds %s" % args)
    # try_merge_schema: false is absorbing, true is neutral
    tms = [h for h in c.user_fns() if h["fn"].endswith("merge::try_merge_schema")]
    if rep.floor("C09.W1", "try_merge_schema", len(tms), 1):
        m = [n_ for n_, _ in nodes(tms[0]["body"], "match") if n_.get("src") == "normal" and n_["scrut"].get("k") == "tup"]
        got = {}
        if m:
            for a in m[0]["arms"][:2]:
                pk, g, b = norm_arm(a)
                got[pk] = b
        rep.ob("C09.W1", "false-is-absorbing", got.get("(Schema::Bool(false),_)|(_,Schema::Bool(false))") == "Err(())", "(false, _) | (_, false) => Err(())")
        rep.ob("C09.W1", "true-is-neutral", got.get("(Schema::Bool(true),$0)|($0,Schema::Bool(true))") == "Ok($0.clone())", "(true, other) | (other, true) => Ok(other)")
    tma = [h for h in c.user_fns() if h["fn"].endswith("merge::try_merge_all")]
    if tma:
        body = tma[0]["body"]
        loops = [n_ for n_, _ in nodes(body, "match") if n_.get("src") == "for" and any(x.endswith("merge::try_merge_schema") for x in calls_in(n_))]
        from lib import Canon
        cnm = Canon(c, tma[0], 3)
        first = [x for x, _ in nodes(body, "call") if x.get("fn", "").endswith("merge::try_merge_schema") and [cnm.r(a) for a in x["args"][:2]] == ["$&[Schema].0", "$&[Schema].1"]]
        rep.ob("C09.W1", "merge_all-folds-every-subschema", bool(loops) and bool(first), "first two subschemas are merged, then every remaining one is folded in")
