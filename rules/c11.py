"""C11 — string conversions of generated types agree with their wire format (template clauses)."""
import re
from lib import (norm_arm, walk, nodes, ends, src, psrc, outcome, contains_node, pat_top_variants, short, calls_in, block_last,
                 strip_refs, guards, gtext, top_stmts, templates_in, Canon)
import emit
import tmplparse as tp

EXPLANATION = (
    "Decides that the string-conversion templates are built from the same IR fields as the serde attributes, not the behaviour "
    "of the natives' own FromStr/Display: (T1) for all-simple enums the Display arms, the FromStr arms and the variant "
    "declaration with its serde rename are generated from one iteration over the variants, pairing `ident_name` with "
    "`raw_name`; the Display literal is `raw_name` itself, only brace-escaped because it is used as a format string; "
    "(T2) every TryFrom<&str|&String|String> delegates to parse(); newtype Display/FromStr delegate to field .0; the "
    "unconstrained string newtype's FromStr is total like its transparent Deserialize; the constrained one shares its FromStr "
    "with Deserialize; (D1) the all-simple impls are offered only for tagged, non-empty, all-Simple enums and the untagged "
    "FromStr/Display only when every variant is a single item whose type has the impl, tried in declaration order; (D2) every "
    "built-in native type that the generator introduces with a literal path advertises FromStr/Display (which newtypes and "
    "untagged enums then forward to) only if that trait of the external type is tabled as agreeing with its serde string form; "
    "the table was filled by reading and running uuid, chrono and std::net (chrono's Display of DateTime/NaiveDateTime prints "
    "`2014-11-28 12:00:09 UTC`, serde writes `2014-11-28T12:00:09Z`); a type that is not in the table is reported as unvetted."
)
ASSUMPTIONS = ["the tabled behaviour of uuid 1.x, chrono 0.4 and std::net Display/FromStr (see C11.D2 table)"]

# external type -> traits whose string form equals the serde string form (vetted by running them, see DESIGN.md)
NATIVE_AGREES = {
    "::uuid::Uuid": {"Display", "FromStr"},
    "::chrono::naive::NaiveDate": {"Display", "FromStr"},
    "::chrono::NaiveDate": {"Display", "FromStr"},
    "::chrono::naive::NaiveTime": {"Display", "FromStr"},
    "::chrono::DateTime<::chrono::offset::Utc>": {"FromStr"},
    "::chrono::DateTime<::chrono::offset::FixedOffset>": {"FromStr"},
    "::chrono::naive::NaiveDateTime": {"FromStr"},
    "::chrono::NaiveDateTime": {"FromStr"},
    "::std::net::IpAddr": {"Display", "FromStr"},
    "::std::net::Ipv4Addr": {"Display", "FromStr"},
    "::std::net::Ipv6Addr": {"Display", "FromStr"},
    "::std::net::SocketAddr": {"Display", "FromStr"},
    "::std::net::SocketAddrV4": {"Display", "FromStr"},
    "::std::net::SocketAddrV6": {"Display", "FromStr"},
}


def run_d2(facts, rep):
    c = facts.impl
    n = 0
    for h in c.user_fns():
        for x, _ in nodes(h["body"], "call"):
            if not (x.get("fn") or "").endswith("TypeEntry::new_native") or len(x.get("args", [])) != 2:
                continue
            a0 = strip_refs(x["args"][0])
            if a0.get("k") != "lit" or "str" not in a0.get("v", {}):
                continue  # a type named by the user's settings: its impl list is the user's statement
            ty = a0["v"]["str"]
            traits = sorted({p_["path"].split("::")[-1] for p_, _ in walk(x["args"][1]) if p_.get("k") == "path" and "TypeSpaceImpl::" in p_.get("path", "")})
            n += 1
            for tr in traits:
                if tr not in ("Display", "FromStr"):
                    continue
                if ty not in NATIVE_AGREES:
                    rep.ob("C11.D2", "native-impl-agrees:%s/%s" % (ty, tr), False, "`%s` is introduced advertising %s, but whether its %s agrees with its serde string form has not been vetted (not in the C11.D2 table)" % (ty, tr, tr), x.get("sp"))
                else:
                    ok = tr in NATIVE_AGREES[ty]
                    rep.ob("C11.D2", "native-impl-agrees:%s/%s" % (ty, tr), ok, "%s of %s equals its serde string form" % (tr, ty) if ok else
                           "`%s` advertises %s, so newtypes/untagged enums over it forward Display to it, but its Display does not print what serialization writes" % (ty, tr), x.get("sp"))
    rep.floor("C11.D2", "native types introduced with a literal path", n, 6)


# provenance patterns (Canon renderings; local variable names do not occur in them)
VARIANTS_ZIP = r"^\S*~TypeEntryEnum\.variants\.iter\(\)\.map\(\|\.\.\| \(format_ident!\(\S*\.ident_name\.unwrap\(\)\), elem<\S*~TypeEntryEnum\.variants\.iter\(\)>\.raw_name\)\)\.unzip\(\)"


def run(facts, rep, tier):
    c = facts.impl
    run_d2(facts, rep)
    ems = emit.find_emitters(facts, c)
    if not rep.floor("C11.T1", "item emitters", len(ems), 3):
        return
    ee = ems["enum"]
    hc = ee.hole_canon()
    inv = ee.actual
    simple = [t for t in ee.templates if t.impls and any(g[0] == "adaptor" and "AllSimpleVariants" in g[2] for g in t.conds())]
    if rep.floor("C11.T1", "all-simple impl template", len(simple), 1):
        t = simple[0]
        disp = [im for im in t.impls if im["trait"] == "::std::fmt::Display"]
        frm = [im for im in t.impls if im["trait"] == "::std::str::FromStr"]
        dtxt = tp.flat(disp[0]["fns"][0]["body"]).replace(" ", "") if disp else ""
        ftxt = tp.flat(frm[0]["fns"][0]["body"]).replace(" ", "") if frm else ""
        md = re.search(r"match\*self\{#\(Self::#(\??\w+)=>write!\(f,#(\??\w+)\),\)\*\}", dtxt)
        mf = re.search(r"matchvalue\{#\(#(\??\w+)=>Ok\(Self::#(\??\w+)\),\)\*_=>Err\(", ftxt)
        rep.ob("C11.T1", "display-shape", bool(md), "Display: match *self { #(Self::#%s => write!(f, #%s),)* }" % (md.group(1), md.group(2)) if md else "Display body is `%s`" % dtxt[:100], t.sp)
        rep.ob("C11.T1", "fromstr-shape", bool(mf), "FromStr: match value { #(#%s => Ok(Self::#%s),)* _ => Err }" % (mf.group(1), mf.group(2)) if mf else "FromStr body is `%s`" % ftxt[:100], t.sp)
        if md and mf:
            dv, ds = md.group(1), md.group(2)
            fs, fv = mf.group(1), mf.group(2)
            rep.ob("C11.T1", "same-variant-vector", dv == fv, "both sides iterate #%s" % dv if dv == fv else "Display iterates #%s but FromStr #%s" % (dv, fv), t.sp)

            def prov(role):
                return hc.get(inv.get(role, role.lstrip("?")), hc.get(role.lstrip("?"), ""))
            pv, ps, pd = prov(dv), prov(fs), prov(ds)
            ok = bool(re.search(VARIANTS_ZIP + r"\.0$", pv)) and bool(re.search(VARIANTS_ZIP + r"\.1$", ps))
            rep.ob("C11.T1", "idents-and-strings-from-one-iteration", ok,
                   "(idents, strings) = variants.iter().map(|v| (format_ident!(v.ident_name), &v.raw_name)).unzip()" if ok else
                   "the Display/FromStr vectors do not come from one pairing of ident_name with raw_name: idents ← %s; strings ← %s" % (pv[:120], ps[:120]), t.sp)
            if ds == fs:
                rep.ob("C11.T1", "display-literal-is-escaped-raw-name", False, "Display passes the raw JSON string #%s to write! as a *format string*: a value containing `{` or `}` does not compile / prints something else" % ds, t.sp)
            else:
                okd = bool(re.search(VARIANTS_ZIP + r"\.1\.iter\(\)\.map\(\|\.\.\| elem<.*>\.replace\('\{', \"\{\{\"\)\.replace\('\}', \"\}\}\"\)\)\.collect\(\)$", pd)) and pd.count(".replace(") == 2
                rep.ob("C11.T1", "display-literal-is-escaped-raw-name", okd, "Display literal = raw_name with `{`/`}` doubled (format-string escape only)" if okd else "Display prints `%s`, which is not the (escaped) raw name" % pd[-160:], t.sp)
    # variant declaration: rename iff raw != ident, with the raw name
    ov = [h for h in c.user_fns() if any("rename" in (t or {}).get("text", "") for (_, _, t) in templates_in(facts, c, h)) and c.fns[h["fn"]]["inputs"] and "Variant" in c.fns[h["fn"]]["inputs"][0]]
    if rep.floor("C11.T1", "variant declaration emitter", len(ov), 1):
        h = ov[0]
        cn = Canon(c, h, 4)
        rts = [(n, anc, t) for (n, anc, t) in templates_in(facts, c, h) if t and re.sub(r"\s+", "", t["text"]).startswith("#[serde(rename=#")]
        ok = False
        detail = "no #[serde(rename = ..)] template"
        if rts:
            n, anc, t = rts[0]
            hole = [a for a in n["args"] if a.get("hole")]
            hp = cn.r(hole[0]) if hole else ""
            gs = emit.cguards(cn, anc, n)
            cond = [g for g in gs if g[0] == "adaptor" and g[1] == "then"]
            ok = bool(re.fullmatch(r"\S*Variant\.raw_name", hp)) and bool(cond) and bool(re.fullmatch(r"\(\S*Variant\.raw_name Ne \S*Variant\.ident_name\.unwrap\(\)\)", cond[0][2]))
            detail = "rename = %s under `%s`" % (hp, cond[0][2] if cond else gtext(gs))
        rep.ob("C11.T1", "rename-iff-differs-with-raw-name", ok, "#[serde(rename = raw_name)] emitted iff raw_name != ident_name" if ok else "variant rename: %s" % detail, rts[0][0].get("sp") if rts else None)
        # the declared identifier
        decl = [(n, anc, t) for (n, anc, t) in templates_in(facts, c, h) if t and t["tt"] and t["tt"][-1]["t"] == "punct" and t["tt"][-1]["s"] == ","]
        idents = set()
        for (n, anc, t) in decl:
            hs = [x for i, x in enumerate(t["tt"]) if x["t"] == "hole" and not (i + 1 < len(t["tt"]) and t["tt"][i + 1]["t"] == "punct" and t["tt"][i + 1]["s"] == ":")]
            holes_ty = {a["path"]: (c.ty(a.get("ty")), cn.r(a)) for a in n["args"] if a.get("hole")}
            for x in hs:
                ty, pr = holes_ty.get(x["name"], ("", ""))
                if ty.endswith("proc_macro2::Ident"):
                    idents.add(pr)
        ok = idents == {"format_ident!($&Variant.ident_name.unwrap())"}
        rep.ob("C11.T1", "variant-ident-is-ident_name", ok, "declared variant identifier = format_ident!(variant.ident_name)" if ok else "declared variant identifiers come from %s" % sorted(idents))

    # ------------------------------------------------------------ T2
    n_tf = 0
    bad_tf = 0
    for kind, e in ems.items():
        for t in e.templates:
            for im in t.impls:
                if re.fullmatch(r"::std::convert::TryFrom<(&str|&String|String|&::std::string::String|::std::string::String)>", im["trait"]) and im["self"] == "#type_name":
                    n_tf += 1
                    bt = tp.flat(im["fns"][0]["body"]).replace(" ", "") if im["fns"] else ""
                    if bt != "value.parse()":
                        bad_tf += 1
                        rep.ob("C11.T2", "tryfrom-delegates-to-parse:%s/%s" % (kind, im["trait"].split("<")[1].rstrip(">")), False, "TryFrom body `%s` does not delegate to FromStr" % bt, t.sp)
    rep.ob("C11.T2", "tryfrom-delegates-to-parse", n_tf >= 12 and bad_tf == 0, "%d TryFrom<string-like> impls, all `value.parse()`" % n_tf)
    ne = ems["newtype"]
    IS_STR = r"match \S*\.id_to_entry\.get\(\S*\.type_id\)\.unwrap\(\)\.details \{ TypeEntryDetails::String => true \| _ => false \}"
    seen = set()
    for t in ne.templates:
        arm = t.arm_of("constraints") or ""
        for im in t.impls:
            if im["self"] != "#type_name":
                continue
            body = tp.flat(im["fns"][0]["body"]).replace(" ", "") if im["fns"] else ""
            conds = [g for g in t.conds() if not (g[0] == "arm" and "constraints" in g[3])]
            ctext = gtext(conds)
            if im["trait"] == "::std::fmt::Display" and "None" in arm:
                ok = body == "self.0.fmt(f)" and bool(re.fullmatch(r"adaptor:then\|\S*\.has_impl\(\S* TypeSpaceImpl::Display\)", ctext))
                rep.ob("C11.T2", "newtype-display-delegates", ok, "Display = self.0.fmt(f), emitted iff the inner type has Display" if ok else "newtype Display is `%s` under `%s`" % (body, ctext[:100]), t.sp)
                seen.add("display")
            if im["trait"] == "::std::str::FromStr" and "None" in arm:
                if re.fullmatch(r"adaptor:then\|" + IS_STR, ctext):
                    ok = body == "Ok(Self(value.to_string()))" and im["assoc"].get("Err") == "::std::convert::Infallible"
                    rep.ob("C11.T2", "string-newtype-fromstr-total", ok, "FromStr of the plain string newtype is total (Err = Infallible), like its transparent Deserialize" if ok else "FromStr of the plain string newtype is `%s`" % body, t.sp)
                    seen.add("str")
                else:
                    ok = body == "Ok(Self(value.parse()?))" and bool(re.fullmatch(r"adaptor:then\|\(\S*\.has_impl\(\S* TypeSpaceImpl::FromStr\) And !" + IS_STR + r"\)", ctext))
                    rep.ob("C11.T2", "newtype-fromstr-delegates", ok, "FromStr = Ok(Self(value.parse()?)), emitted iff the inner type has FromStr and is not String" if ok else "newtype FromStr is `%s` under `%s`" % (body, ctext[:140]), t.sp)
                    seen.add("fromstr")
            if im["trait"] == "::std::str::FromStr" and "String" in arm:
                des = [i2 for t2 in ne.templates if (t2.arm_of("constraints") or "") == arm for i2 in t2.impls if i2["trait"].startswith("::serde::Deserialize<")]
                dbody = tp.flat(des[0]["fns"][0]["body"]).replace(" ", "") if des else ""
                ok = bool(des) and dbody.startswith("::std::string::String::deserialize(deserializer)?.parse()")
                rep.ob("C11.T2", "constrained-fromstr-shared-with-deserialize", ok, "Deserialize = String::deserialize(..)?.parse()" if ok else "constrained string newtype: Deserialize does not go through FromStr", t.sp)
                rep.ob("C11.T2", "constrained-fromstr-keeps-value", body.endswith("Ok(Self(value.to_string()))"), "FromStr stores the string unchanged")
                seen.add("constrained")
    rep.floor("C11.T2", "newtype string-conversion impls", len(seen), 4)

    # ------------------------------------------------------------ D1
    fin = [h for h in c.user_fns() if h["fn"].endswith("TypeEntryEnum::finalize")]
    if rep.floor("C11.D1", "TypeEntryEnum::finalize", len(fin), 1):
        cn = Canon(c, fin[0], 5)
        flags = {}
        for n, _ in nodes(fin[0]["body"], "mcall"):
            if n["name"] in ("then_some", "then") and n.get("args"):
                m = re.search(r"TypeEntryEnumImpl::(\w+)", src(n["args"]))
                if m:
                    flags[m.group(1)] = cn.r(n["recv"])
        want = "(((self.tag_type Ne EnumTagType::Untagged) And !self.variants.is_empty()) And self.variants.iter().all(|..| match elem<self.variants.iter()>.details { VariantDetails::Simple => true | _ => false }))"
        got = flags.get("AllSimpleVariants", "")
        rep.ob("C11.D1", "all-simple-flag", got == want, "AllSimpleVariants ⇔ tagged ∧ non-empty ∧ every variant Simple" if got == want else "the AllSimpleVariants flag is computed as `%s`" % got[:200])
        for tr, flag in (("FromStr", "UntaggedFromStr"), ("Display", "UntaggedDisplay")):
            got = flags.get(flag, "")
            okf = got.startswith("((self.tag_type Eq EnumTagType::Untagged) And self.variants.iter().all(|..| match elem<self.variants.iter()>.details { VariantDetails::Item(_) => Some(") and ("| _ => None }.map_or_else(|..| false, |..|" in got) and got.rstrip(")").endswith(".has_impl($&TypeSpace, TypeSpaceImpl::%s" % tr)
            # exactly two arms: `Item(t) => Some(t)` and `_ => None` (a one-element *tuple* variant is emitted as `V((T,))`, not as a newtype variant)
            mm_ = re.search(r"match elem<self\.variants\.iter\(\)>\.details \{ (.*?) \}\.map_or_else\(", got)
            okf = okf and bool(mm_) and re.fullmatch(r"VariantDetails::Item\(_\) => Some\([^|]*\) \| _ => None", mm_.group(1)) is not None
            rep.ob("C11.D1", "untagged-flag:%s" % tr, okf, "%s ⇔ untagged ∧ every variant is Item(t) with t.has_impl(%s)" % (flag, tr) if okf else "%s is computed as `%s`" % (flag, got[:220]))
    for flag, trait in (("UntaggedFromStr", "::std::str::FromStr"), ("UntaggedDisplay", "::std::fmt::Display")):
        ts = [t for t in ee.templates if t.impls and any(g[0] == "adaptor" and flag in g[2] for g in t.conds())]
        if rep.floor("C11.D1", "template under %s" % flag, len(ts), 1):
            t = ts[0]
            im = [i for i in t.impls if i["trait"] == trait]
            body = tp.flat(im[0]["fns"][0]["body"]).replace(" ", "") if im else ""
            if flag == "UntaggedFromStr":
                m = re.match(r"#\(ifletOk\(v\)=value\.parse\(\)\{Ok\(Self::#(\??\w+)\(v\)\)\}else\)\*\{Err\(", body)
            else:
                m = re.fullmatch(r"matchself\{#\(Self::#(\??\w+)\(x\)=>x\.fmt\(f\),\)\*\}", body)
            rep.ob("C11.D1", "untagged-body:%s" % flag, bool(m), "body delegates to each variant's own impl" if m else "body is `%s`" % body[:120], t.sp)
            if m:
                role = m.group(1)
                p = hc.get(inv.get(role, role.lstrip("?")), hc.get(role.lstrip("?"), ""))
                ok = bool(re.fullmatch(r"\S*~TypeEntryEnum\.variants\.iter\(\)\.map\(\|\.\.\| format_ident!\(elem<\S*~TypeEntryEnum\.variants\.iter\(\)>\.ident_name\.unwrap\(\)\)\)", p))
                rep.ob("C11.D1", "declaration-order:%s" % flag, ok, "variants are tried/printed in declaration order (variants.iter())" if ok else "variant identifiers come from `%s`" % p[:140], t.sp)
