#!/bin/bash
# Build the verification engines from files on disk only and warm the
# dependency artifacts of the analysis build. Offline.
set -e
export CARGO_NET_OFFLINE=true
cd /verif/engines/factdrv && cargo build --offline 2>&1 | tail -2
cd /verif/engines/tmpl && cargo build --offline 2>&1 | tail -2
cd /verif && python3 rules/extract.py
