use proc_macro2::{Delimiter, Group, Ident, Literal, Punct, Spacing, Span, TokenStream, TokenTree};
use std::collections::HashMap;
use syn::visit::Visit;

#[derive(Debug, Clone)]
enum Node { Tok(TokenTree), Hole(String, usize, usize), Rep(Vec<Node>, Option<char>), Group(Delimiter, Vec<Node>) }

fn parse_nodes(ts: TokenStream) -> Vec<Node> {
    let toks: Vec<TokenTree> = ts.into_iter().collect();
    let mut out = Vec::new();
    let mut i = 0;
    while i < toks.len() {
        match &toks[i] {
            TokenTree::Punct(p) if p.as_char() == '#' && i + 1 < toks.len() => {
                match &toks[i + 1] {
                    TokenTree::Ident(id) => { let s = id.span().start(); out.push(Node::Hole(id.to_string(), s.line, s.column)); i += 2; continue; }
                    TokenTree::Group(g) if g.delimiter() == Delimiter::Parenthesis => {
                        // #( ... ) sep? *
                        let mut j = i + 2; let mut sep = None;
                        let is_star = |t: &TokenTree| matches!(t, TokenTree::Punct(p) if p.as_char()=='*');
                        if j < toks.len() && is_star(&toks[j]) { out.push(Node::Rep(parse_nodes(g.stream()), None)); i = j + 1; continue; }
                        if j + 1 < toks.len() && is_star(&toks[j+1]) { if let TokenTree::Punct(p) = &toks[j] { sep = Some(p.as_char()); } j += 1; out.push(Node::Rep(parse_nodes(g.stream()), sep)); i = j + 1; continue; }
                        out.push(Node::Tok(toks[i].clone())); i += 1; continue;
                    }
                    _ => { out.push(Node::Tok(toks[i].clone())); i += 1; continue; }
                }
            }
            TokenTree::Group(g) => { out.push(Node::Group(g.delimiter(), parse_nodes(g.stream()))); i += 1; }
            t => { out.push(Node::Tok(t.clone())); i += 1; }
        }
    }
    out
}

// category codes for TokenStream holes
const CATS: &[&str] = &["empty", "type", "expr", "attr", "item", "ident"];

fn placeholder(cat: &str, n: usize) -> TokenStream {
    match cat {
        "empty" => TokenStream::new(),
        "type" => format!("__T{}", n).parse().unwrap(),
        "expr" => format!("__e{}()", n).parse().unwrap(),
        "attr" => "#[__a]".parse().unwrap(),
        "item" => format!("struct __I{};", n).parse().unwrap(),
        "ident" => format!("__i{}", n).parse().unwrap(),
        "strlit" => "\"s\"".parse().unwrap(),
        "intlit" => "1".parse().unwrap(),
        "bool" => "true".parse().unwrap(),
        "path" => format!("__p::P{}", n).parse().unwrap(),
        _ => unreachable!(),
    }
}

fn cat_of_type(ty: &str) -> Option<&'static str> {
    let t = ty.replace("quote::__private::RepInterp<", "").replace('&', "");
    let t = t.trim_end_matches('>').to_string();
    let t = if ty.contains("RepInterp<") { t } else { ty.replace('&', "") };
    let t = t.trim();
    if t.ends_with("proc_macro2::Ident") { return Some("ident"); }
    if t.ends_with("string::String") || t == "str" { return Some("strlit"); }
    if t == "usize" || t == "u32" || t == "u64" || t.ends_with("proc_macro2::Literal") || t.ends_with("syn::Index") { return Some("intlit"); }
    if t == "bool" { return Some("bool"); }
    if t.ends_with("syn::Path") || t.ends_with("syn::TypePath") || t.ends_with("syn::Type") { return Some("path"); }
    None // tokenstream-ish: unknown
}

struct Inst<'a> { holes: &'a HashMap<(usize, usize), String>, assign: &'a HashMap<String, &'static str>, reps: usize, counter: usize, unknown: Vec<String>, untyped: usize }

fn render(nodes: &[Node], st: &mut Inst) -> TokenStream {
    let mut out = TokenStream::new();
    for n in nodes {
        match n {
            Node::Tok(t) => out.extend(std::iter::once(t.clone())),
            Node::Hole(name, l, c) => {
                st.counter += 1;
                let ty = st.holes.get(&(*l, *c));
                let cat = match ty { Some(t) => cat_of_type(t), None => { st.untyped += 1; None } };
                let cat = match cat { Some(c) => c, None => { if !st.unknown.contains(name) { st.unknown.push(name.clone()); } st.assign.get(name).copied().unwrap_or("expr") } };
                out.extend(placeholder(cat, st.counter));
            }
            Node::Rep(inner, sep) => {
                for k in 0..st.reps {
                    if k > 0 { if let Some(s) = sep { out.extend(std::iter::once(TokenTree::Punct(Punct::new(*s, Spacing::Alone)))); } }
                    out.extend(render(inner, st));
                }
            }
            Node::Group(d, inner) => { let g = Group::new(*d, render(inner, st)); out.extend(std::iter::once(TokenTree::Group(g))); }
        }
    }
    out
}

fn try_parse(ts: &TokenStream) -> Option<&'static str> {
    if ts.is_empty() { return Some("empty"); }
    if syn::parse2::<syn::File>(ts.clone()).is_ok() { return Some("items"); }
    if syn::parse2::<syn::Type>(ts.clone()).is_ok() { return Some("type"); }
    if syn::parse2::<syn::Expr>(ts.clone()).is_ok() { return Some("expr"); }
    let wrap = |pre: &str, post: &str| -> TokenStream { let s = format!("{} {} {}", pre, ts, post); s.parse().unwrap_or_else(|_| "!".parse().unwrap()) };
    if syn::parse2::<syn::File>(wrap("", "struct __X;")).is_ok() { return Some("attrs"); }
    if syn::parse2::<syn::File>(wrap("enum __E {", "}")).is_ok() { return Some("variants"); }
    if syn::parse2::<syn::File>(wrap("struct __S {", "}")).is_ok() { return Some("fields"); }
    if syn::parse2::<syn::File>(wrap("fn __f() {", "}")).is_ok() { return Some("stmts"); }
    if syn::parse2::<syn::File>(wrap("fn __f() { __S {", "} }")).is_ok() { return Some("fieldinits"); }
    if syn::parse2::<syn::File>(wrap("#[x(", ")] struct __X;")).is_ok() { return Some("attrargs"); }
    if syn::parse2::<syn::File>(wrap("fn __f() -> __R<", "> {}")).is_ok() { return Some("generic-args"); }
    None
}

struct V<'a> { file: String, holes: &'a HashMap<(usize, usize), String>, stats: &'a mut Stats, fnstack: Vec<String> }
#[derive(Default)]
struct Stats { total: usize, ok: usize, fail: Vec<String>, untyped: usize, holes: usize, cats: HashMap<String, usize> }

impl<'a, 'ast> Visit<'ast> for V<'a> {
    fn visit_item_mod(&mut self, m: &'ast syn::ItemMod) {
        if m.attrs.iter().any(|a| a.path().is_ident("cfg") && a.meta.require_list().map(|l| l.tokens.to_string() == "test").unwrap_or(false)) { return; }
        syn::visit::visit_item_mod(self, m);
    }
    fn visit_item_fn(&mut self, f: &'ast syn::ItemFn) { self.fnstack.push(f.sig.ident.to_string()); syn::visit::visit_item_fn(self, f); self.fnstack.pop(); }
    fn visit_impl_item_fn(&mut self, f: &'ast syn::ImplItemFn) { self.fnstack.push(f.sig.ident.to_string()); syn::visit::visit_impl_item_fn(self, f); self.fnstack.pop(); }
    fn visit_macro(&mut self, m: &'ast syn::Macro) {
        if m.path.is_ident("quote") {
            let nodes = parse_nodes(m.tokens.clone());
            self.stats.total += 1;
            let line = m.path.segments[0].ident.span().start().line;
            // discover unknown holes
            let empty = HashMap::new();
            let mut st = Inst { holes: self.holes, assign: &empty, reps: 1, counter: 0, unknown: vec![], untyped: 0 };
            let _ = render(&nodes, &mut st);
            self.stats.untyped += st.untyped; self.stats.holes += st.counter;
            let unknown = st.unknown.clone();
            // search assignments
            let k = unknown.len();
            let mut found: Option<(Vec<&'static str>, &'static str)> = None;
            let ncomb = (CATS.len() as u64).pow(k.min(6) as u32);
            'outer: for combo in 0..ncomb {
                let mut assign = HashMap::new(); let mut c = combo; let mut v = vec![];
                for name in unknown.iter().take(6) { let cat = CATS[(c % CATS.len() as u64) as usize]; c /= CATS.len() as u64; assign.insert(name.clone(), cat); v.push(cat); }
                let mut cat_seen = None;
                for reps in [0usize, 1, 2] {
                    let mut st = Inst { holes: self.holes, assign: &assign, reps, counter: 0, unknown: vec![], untyped: 0 };
                    let ts = render(&nodes, &mut st);
                    match try_parse(&ts) { Some(c) => { if c != "empty" { cat_seen = Some(c); } } None => continue 'outer }
                }
                found = Some((v, cat_seen.unwrap_or("empty"))); break;
            }
            match found {
                Some((v, cat)) => { self.stats.ok += 1; *self.stats.cats.entry(cat.to_string()).or_default() += 1;
                    if std::env::var("VERBOSE").is_ok() { println!("OK  {}:{} fn={} cat={} unknown={:?} -> {:?}", self.file, line, self.fnstack.last().cloned().unwrap_or_default(), cat, unknown, v); } }
                None => self.stats.fail.push(format!("{}:{} fn={} unknown={:?}", self.file, line, self.fnstack.last().cloned().unwrap_or_default(), unknown)),
            }
        }
        syn::visit::visit_macro(self, m);
    }
}

fn main() {
    let holes_json: serde_json::Value = serde_json::from_str(&std::fs::read_to_string(std::env::args().nth(1).unwrap()).unwrap()).unwrap();
    let mut stats = Stats::default();
    for p in std::env::args().skip(2) {
        let rel = p.trim_start_matches("/repo/").to_string();
        let mut holes = HashMap::new();
        for h in holes_json.as_array().unwrap() { if h["file"] == rel.as_str() { holes.insert((h["line"].as_u64().unwrap() as usize, h["col"].as_u64().unwrap() as usize), h["ty"].as_str().unwrap().to_string()); } }
        let src = std::fs::read_to_string(&p).unwrap();
        let f = syn::parse_file(&src).unwrap();
        let mut v = V { file: rel, holes: &holes, stats: &mut stats, fnstack: vec![] };
        v.visit_file(&f);
    }
    println!("templates={} ok={} fail={} holes={} untyped_holes={}", stats.total, stats.ok, stats.fail.len(), stats.holes, stats.untyped);
    println!("categories: {:?}", stats.cats);
    for f in &stats.fail { println!("FAIL {}", f); }
    let _ = (Ident::new("a", Span::call_site()), Literal::u8_unsuffixed(1));
}
