use typify_impl::*;
fn main() {
    // internally tagged enum: two variants share property name "data" with different inline object schemas
    let schema = serde_json::json!({"definitions": {"E": {"oneOf":[
        {"type":"object","properties":{"t":{"type":"string","enum":["A"]},"data":{"type":"object","properties":{"x":{"type":"integer"}},"required":["x"]},"k":{"type":"integer"}},"required":["t","data","k"]},
        {"type":"object","properties":{"t":{"type":"string","enum":["B"]},"data":{"type":"object","properties":{"y":{"type":"string"}},"required":["y"]},"k":{"type":"integer"}},"required":["t","data","k"]}
    ]}}});
    let root: schemars::schema::RootSchema = serde_json::from_value(schema).unwrap();
    let mut ts = TypeSpace::default();
    ts.add_root_schema(root).unwrap();
    let f = syn::parse2::<syn::File>(ts.to_stream()).unwrap();
    let txt = prettyplease::unparse(&f);
    for l in txt.lines() { if (l.contains("data:") || l.contains("pub struct") || l.contains("pub x") || l.contains("pub y") || l.contains("    A") || l.contains("    B")) && !l.contains("///") { println!("{l}"); } }
}
