#!/bin/bash
# confirm_seed.sh <PID> <k> : independently confirm a seeded change produced by a sub-agent:
#   (1) it applies to a fresh worktree of /repo HEAD, (2) the unedited test suite passes with it,
#   (3) its demonstration fails with it and passes without it. Writes /tmp/mut/confirm/<PID>-<k>.log
# confirm_seed.sh --seeded <sid> : the same for a change kept under /verif/seeded/<sid>/ (patch.diff, demo/); log in /tmp/seeded-confirm/
if [ "$1" = "--seeded" ]; then
  SID=$2; PID=${SID%%-*}; K=${SID##*-}
  STAGE=$(mktemp -d /tmp/seeded-stage-XXXX); OUT=$STAGE
  cp /verif/seeded/$SID/patch.diff $OUT/patch$K.diff; cp -r /verif/seeded/$SID/demo $OUT/demo$K
  WT=/tmp/seeded-wt-$SID; mkdir -p /tmp/seeded-confirm; LOG=/tmp/seeded-confirm/$SID.log
else
  PID=$1; K=$2; MUT_ROOT=${MUT_ROOT:-/tmp/mut}
  OUT=$MUT_ROOT/$PID-out; WT=$MUT_ROOT/confirm-wt-$PID-$K; LOG=$MUT_ROOT/confirm/$PID-$K.log
  mkdir -p $MUT_ROOT/confirm
fi
: > $LOG
export CARGO_NET_OFFLINE=true
git -C /repo worktree add -f $WT HEAD -q >>$LOG 2>&1 || { echo "RESULT worktree-failed" >>$LOG; exit 1; }
cd $WT
if ! git apply $OUT/patch$K.diff >>$LOG 2>&1; then echo "RESULT patch-does-not-apply" >>$LOG; git -C /repo worktree remove --force $WT; exit 1; fi
echo "== test suite with the change" >>$LOG
if cargo test --workspace --no-fail-fast --offline >>$LOG.tests 2>&1; then echo "tests: PASS" >>$LOG; T=pass; else echo "tests: FAIL" >>$LOG; grep -E "^test .* FAILED|panicked" $LOG.tests | head -5 >>$LOG; T=fail; fi
# demo with the change: point its path deps at this worktree
D=$WT/_demo; rm -rf $D; cp -r $OUT/demo$K $D; rm -rf $D/target
grep -rlE "/tmp/mut[0-9]?/$PID([/\"]|\$)" $D --include=Cargo.toml --include=*.rs --include=*.json --include=*.sh 2>/dev/null | xargs -r sed -i -E "s#/tmp/mut[0-9]?/$PID([/\"]|\$)#$WT\\1#g"
cp $WT/Cargo.lock $D/Cargo.lock 2>/dev/null
( cd $D && timeout 900 cargo run --offline >>$LOG.demo_with 2>&1 ); W=$?
echo "demo with change: exit=$W $(grep -o 'PASS\|FAIL' $LOG.demo_with | tail -1)" >>$LOG
git checkout -- typify-impl typify-macro typify cargo-typify 2>>$LOG; git apply -R $OUT/patch$K.diff 2>/dev/null
git status --short | grep -v _demo >>$LOG
( cd $D && timeout 900 cargo run --offline >>$LOG.demo_without 2>&1 ); O=$?
echo "demo without change: exit=$O $(grep -o 'PASS\|FAIL' $LOG.demo_without | tail -1)" >>$LOG
if [ "$T" = pass ] && [ $W -ne 0 ] && [ $O -eq 0 ]; then echo "RESULT confirmed" >>$LOG; else echo "RESULT not-confirmed tests=$T with=$W without=$O" >>$LOG; fi
cd /; git -C /repo worktree remove --force $WT >>$LOG 2>&1; git -C /repo worktree prune
[ -n "$STAGE" ] && rm -rf $STAGE
tail -6 $LOG
