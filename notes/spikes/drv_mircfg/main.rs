#![feature(rustc_private)]
extern crate rustc_driver;
extern crate rustc_hir;
extern crate rustc_interface;
extern crate rustc_middle;
extern crate rustc_span;
extern crate rustc_abi;

use rustc_driver::Compilation;
use rustc_hir::def::DefKind;
use rustc_middle::mir::{self, Operand, Rvalue, StatementKind, TerminatorKind, AggregateKind};
use rustc_middle::ty::{self, TyCtxt, TypingEnv, Instance};

fn esc(s: &str) -> String { s.replace('\\', "\\\\").replace('"', "\\\"").replace('\n', " ") }

fn op<'tcx>(tcx: TyCtxt<'tcx>, o: &Operand<'tcx>) -> String {
    match o {
        Operand::Copy(p) | Operand::Move(p) => format!("{:?}", p),
        Operand::Constant(c) => {
            let s = format!("{}", c.const_);
            let _ = tcx; format!("const {}", s.chars().take(80).collect::<String>())
        }
        _ => "?".into(),
    }
}

struct Cb;
impl rustc_driver::Callbacks for Cb {
    fn after_analysis<'tcx>(&mut self, _c: &rustc_interface::interface::Compiler, tcx: TyCtxt<'tcx>) -> Compilation {
        let krate = tcx.crate_name(rustc_hir::def_id::LOCAL_CRATE).to_string();
        let filt = std::env::var("SPIKE_FN").unwrap_or_default();
        let filts: Vec<&str> = filt.split(',').filter(|s| !s.is_empty()).collect();
        let mut out = String::from("[\n");
        let mut first = true;
        for def in tcx.hir_body_owners() {
            if !matches!(tcx.def_kind(def), DefKind::Fn | DefKind::AssocFn | DefKind::Closure) { continue; }
            let did = def.to_def_id();
            let name = tcx.def_path_str(did);
            if !filts.is_empty() && !filts.iter().any(|f| name.contains(f)) { continue; }
            let body = tcx.optimized_mir(did);
            let tenv = TypingEnv::post_analysis(tcx, did);
            let mut blocks = Vec::new();
            for (bbi, bb) in body.basic_blocks.iter_enumerated() {
                let mut stmts = Vec::new();
                for s in &bb.statements {
                    if let StatementKind::Assign(b) = &s.kind {
                        let (pl, rv) = &**b;
                        let r = match rv {
                            Rvalue::Use(o, _) => format!("{{\"k\":\"use\",\"a\":\"{}\"}}", esc(&op(tcx, o))),
                            Rvalue::Ref(_, _, p) => format!("{{\"k\":\"ref\",\"a\":\"{}\"}}", esc(&format!("{:?}", p))),
                            Rvalue::Discriminant(p) => format!("{{\"k\":\"disc\",\"a\":\"{}\",\"ty\":\"{}\"}}", esc(&format!("{:?}", p)), esc(&p.ty(&body.local_decls, tcx).ty.to_string())),
                            Rvalue::Aggregate(k, ops) => {
                                let kn = match &**k { AggregateKind::Adt(d, vi, ..) => { let ad = tcx.adt_def(*d); format!("{}::{}", tcx.def_path_str(*d), ad.variant(*vi).name) } AggregateKind::Tuple => "tuple".into(), other => format!("{:?}", other).chars().take(40).collect() };
                                format!("{{\"k\":\"agg\",\"adt\":\"{}\",\"ops\":[{}]}}", esc(&kn), ops.iter().map(|o| format!("\"{}\"", esc(&op(tcx, o)))).collect::<Vec<_>>().join(","))
                            }
                            Rvalue::Cast(_, o, _) => format!("{{\"k\":\"cast\",\"a\":\"{}\"}}", esc(&op(tcx, o))),
                            Rvalue::BinaryOp(bo, b2) => format!("{{\"k\":\"bin\",\"op\":\"{:?}\",\"a\":\"{}\",\"b\":\"{}\"}}", bo, esc(&op(tcx, &b2.0)), esc(&op(tcx, &b2.1))),
                            other => format!("{{\"k\":\"other\",\"a\":\"{}\"}}", esc(&format!("{:?}", other).chars().take(60).collect::<String>())),
                        };
                        stmts.push(format!("{{\"lhs\":\"{}\",\"rv\":{}}}", esc(&format!("{:?}", pl)), r));
                    }
                }
                let term = match &bb.terminator().kind {
                    TerminatorKind::Goto { target } => format!("{{\"k\":\"goto\",\"t\":[{}]}}", target.index()),
                    TerminatorKind::SwitchInt { discr, targets } => {
                        let ts: Vec<String> = targets.iter().map(|(v, t)| format!("[{},{}]", v, t.index())).collect();
                        format!("{{\"k\":\"switch\",\"d\":\"{}\",\"targets\":[{}],\"otherwise\":{}}}", esc(&op(tcx, discr)), ts.join(","), targets.otherwise().index())
                    }
                    TerminatorKind::Return => "{\"k\":\"return\"}".into(),
                    TerminatorKind::Unreachable => "{\"k\":\"unreachable\"}".into(),
                    TerminatorKind::Drop { target, .. } => format!("{{\"k\":\"drop\",\"t\":[{}]}}", target.index()),
                    TerminatorKind::Assert { target, .. } => format!("{{\"k\":\"assert\",\"t\":[{}]}}", target.index()),
                    TerminatorKind::Call { func, args, destination, target, .. } => {
                        let mut cid = String::from("<indirect>"); let mut pretty = String::new();
                        if let Operand::Constant(c) = func { if let ty::FnDef(cd, ga) = c.const_.ty().kind() {
                            cid = format!("{}{}", tcx.crate_name(cd.krate), tcx.def_path(*cd).to_string_no_crate_verbose()); pretty = tcx.def_path_str(*cd);
                            if let Ok(Some(inst)) = Instance::try_resolve(tcx, tenv, *cd, ga) { cid = format!("{}{}", tcx.crate_name(inst.def_id().krate), tcx.def_path(inst.def_id()).to_string_no_crate_verbose()); pretty = tcx.def_path_str(inst.def_id()); }
                        } }
                        let mut sp = bb.terminator().source_info.span; let mut mac = String::new();
                        while sp.from_expansion() { let ed = sp.ctxt().outer_expn_data(); if let Some(n) = ed.macro_def_id { mac = tcx.def_path_str(n); } sp = ed.call_site; }
                        format!("{{\"k\":\"call\",\"cid\":\"{}\",\"pretty\":\"{}\",\"mac\":\"{}\",\"args\":[{}],\"dest\":\"{}\",\"t\":[{}]}}", esc(&cid), esc(&pretty), esc(&mac), args.iter().map(|a| format!("\"{}\"", esc(&op(tcx, &a.node)))).collect::<Vec<_>>().join(","), esc(&format!("{:?}", destination)), target.map(|t| t.index().to_string()).unwrap_or_default())
                    }
                    other => format!("{{\"k\":\"other\",\"d\":\"{}\",\"t\":[{}]}}", esc(&format!("{:?}", std::mem::discriminant(other))), other.successors().map(|t| t.index().to_string()).collect::<Vec<_>>().join(",")),
                };
                blocks.push(format!("{{\"bb\":{},\"cleanup\":{},\"stmts\":[{}],\"term\":{}}}", bbi.index(), bb.is_cleanup, stmts.join(","), term));
            }
            let argc = body.arg_count;
            let mut locals = Vec::new();
            for (li, l) in body.local_decls.iter_enumerated() { locals.push(format!("\"{}\"", esc(&format!("{:?}:{}", li, l.ty).chars().take(120).collect::<String>()))); }
            let mut dbg = Vec::new();
            for v in &body.var_debug_info { if let mir::VarDebugInfoContents::Place(p) = &v.value { dbg.push(format!("[\"{}\",\"{}\"]", v.name, esc(&format!("{:?}", p)))); } }
            if !first { out.push_str(",\n"); } first = false;
            out.push_str(&format!("{{\"fn\":\"{}\",\"argc\":{},\"locals\":[{}],\"dbg\":[{}],\"blocks\":[\n{}\n]}}", esc(&name), argc, locals.join(","), dbg.join(","), blocks.join(",\n")));
        }
        out.push_str("\n]\n");
        let dir = std::env::var("SPIKE_OUT").unwrap_or("/tmp/spike/facts".into());
        std::fs::create_dir_all(&dir).unwrap();
        std::fs::write(format!("{}/mir-{}.json", dir, krate), out).unwrap();
        Compilation::Continue
    }
}

fn main() {
    let mut args: Vec<String> = std::env::args().collect();
    if args.len() > 1 && args[1].ends_with("rustc") { args.remove(1); }
    rustc_driver::run_compiler(&args, &mut Cb);
}
