"""C14 — replacement, conversion, patch, derive and map-type settings apply everywhere (syntactic obligations)."""
import re
from lib import (norm_arm, walk, nodes, ends, src, psrc, outcome, contains_node, pat_top_variants, short, calls_in, block_last,
                 strip_refs, guards, gtext, top_stmts, templates_in)
import emit
import tmplparse as tp

EXPLANATION = (
    "Decides syntactic obligations on the paths where settings are consulted, not that unaffected types keep their behaviour: "
    "(W1) on the branch where the replacement lookup hits, no conversion function is called and the pre-assigned id is bound to a "
    "native entry built from the replacement's type; the lookup key is the definition name sanitised exactly like type names; "
    "(W2) every constructor site of a named entry (enum/struct/newtype) takes its name and extra derives from the patch lookup; "
    "the patch lookup returns the rename (or the original name) and the patch's derives; (T1) each item template's derive list "
    "comes from the one derive assembler fed with the base set, the entry's and the settings' extra derives, and the assembler "
    "chains all three; (T2) the type renderer and the item emitters format the same `name` field, so a patched name is the only "
    "name that appears; (D1) both places that render a map type read settings.map_type and share the one exception "
    "(String -> JsonValue); (W3) in convert_schema the conversion-cache lookup dominates the structural dispatcher and ignores "
    "annotations on both sides; (T3) enabling the builder only adds items: no template has an else-branch on the setting."
)
ASSUMPTIONS = ["conversions of synthesised sub-schemas (merged schemas) are not decided"]


def run(facts, rep, tier):
    c = facts.impl

    # ------------------------------------------------------------ W1 replacement
    reps = []
    for h in c.user_fns():
        for n, _ in nodes(h["body"], "mcall"):
            if n["name"] == "get" and src(n["recv"]).endswith("settings.replace"):
                reps.append((h, n))
    if rep.floor("C14.W1", "replacement lookup", len(reps), 1):
        h, look = reps[0]
        key = src(look["args"][0]).lstrip("&")
        lets = {n["pat"]["name"]: n for n, _ in nodes(h["body"], "let") if n["pat"].get("k") == "bind"}
        kinit = src(lets[key]["init"]) if key in lets else ""
        ok = re.match(r"sanitize\(\w+, Case::Pascal\)", kinit) is not None
        rep.ob("C14.W1", "lookup-key-sanitised-like-type-names", ok, "replacement key = %s" % kinit if ok else "the replacement lookup key `%s = %s` is not the Pascal-sanitised definition name" % (key, kinit), look.get("sp"))
        gtn = [x for x in c.user_fns() if x["fn"].endswith("util::get_type_name")]
        if gtn:
            rep.ob("C14.W1", "type-names-sanitised-pascal", "Some(sanitize(&name, Case::Pascal))" in src(gtn[0]["body"]), "get_type_name ends in sanitize(&name, Case::Pascal)")
        # the match on the lookup result
        bound = None
        for nme, n in lets.items():
            if contains_node(n.get("init") or {}, look):
                bound = nme
        mm = [n for n, _ in nodes(h["body"], "match") if n.get("src") == "normal" and src(n["scrut"]) == bound]
        if rep.floor("C14.W1", "match on the lookup result", len(mm), 1):
            arms = {}
            for a in mm[0]["arms"]:
                pk, g, b = norm_arm(a)
                arms[pk] = a
            some = arms.get("Some($0)")
            none = arms.get("None")
            if rep.floor("C14.W1", "Some/None arms", (1 if some else 0) + (1 if none else 0), 2):
                cs = calls_in(some["body"])
                conv = [x for x in cs if "::convert_" in x or x.endswith("id_for_schema") or x.endswith("assign_type")]
                rep.ob("C14.W1", "hit-converts-nothing", not conv, "no conversion on the replacement branch" if not conv else "the replaced definition is still converted: %s" % conv, some.get("sp"))
                b = [x["name"] for x, _ in walk(some["pat"]) if x.get("k") == "bind"][0]
                s = src(some["body"])
                okn = ("TypeEntry::new_native(%s.replace_type.clone()" % b) in s
                rep.ob("C14.W1", "hit-binds-native-replacement", okn, "entry = new_native(replacement.replace_type, impls)" if okn else "the replacement branch does not build the native entry from the configured type: %s" % s[:120], some.get("sp"))
                ins = [n for n, _ in nodes(some["body"], "mcall") if n["name"] == "insert" and src(n["recv"]).endswith("id_to_entry")]
                oki = bool(ins) and src(ins[0]["args"][0]) == "type_id"
                rep.ob("C14.W1", "hit-uses-preassigned-id", oki, "id_to_entry.insert(type_id, native) at the id references already point to" if oki else "the native entry is not stored at the pre-assigned id")
                rep.ob("C14.W1", "miss-converts", any(x.endswith("convert_ref_type") for x in calls_in(none["body"])), "no replacement => the definition is converted")

    # ------------------------------------------------------------ W2 patch
    patchers = [h for h in c.user_fns() if any(src(n["recv"]).endswith("settings.patch") for n, _ in nodes(h["body"], "mcall") if n["name"] == "get")]
    if rep.floor("C14.W2", "patch lookup fn", len(patchers), 1):
        ph = patchers[0]
        m = [n for n, _ in nodes(ph["body"], "match") if n.get("src") == "normal"]
        ok = False
        if m:
            arms = {norm_arm(a)[0]: a for a in m[0]["arms"]}
            none, some = arms.get("None"), arms.get("Some($0)")
            if none and some:
                sn = src(block_last(none["body"]))
                ss = src(some["body"])
                ok = sn.startswith("(type_name, ") and "patch.rename.clone().unwrap_or(type_name)" in ss and "patch.derives.iter().cloned().collect()" in ss and src(block_last(some["body"])) == "(name, derives)"
        rep.ob("C14.W2", "patch-lookup-semantics", ok, "no patch => (name, {}); patch => (rename or name, patch derives)" if ok else "type_patch does not return (rename-or-name, derives)", c.fns[ph["fn"]].get("sp"))
        pfn = ph["fn"]
        sites = []
        for h in c.user_fns():
            for n, anc in nodes(h["body"], "struct"):
                if re.search(r"TypeEntry(Enum|Struct|Newtype)$", n["path"]):
                    par_ctor = [a for a in anc if a.get("k") == "call" and a.get("res") == "ctor" and re.search(r"TypeEntryDetails::(Enum|Struct|Newtype)$", a.get("fn", ""))]
                    if par_ctor:
                        sites.append((h, n))
        rep.floor("C14.W2", "constructor sites of named entries", len(sites), 6)
        for h, st in sites:
            lets = [n for n, _ in nodes(h["body"], "let") if n.get("init") is not None and n["init"].get("k") in ("call", "mcall") and n["init"].get("fn") == pfn]
            fields = {k: src(v) for k, v in st["fields"]}
            ok = False
            detail = "no call to the patch lookup in %s" % h["fn"]
            if lets:
                b = [x["name"] for x, _ in walk(lets[0]["pat"]) if x.get("k") == "bind"]
                te = [n for n, _ in nodes(h["body"], "struct") if n["path"].endswith("type_entry::TypeEntry")]
                tef = {k: src(v) for k, v in te[0]["fields"]} if te else {}
                ok = len(b) == 2 and fields.get("name") == b[0] and tef.get("extra_derives") == b[1]
                detail = "name = %s, extra_derives = %s from %s(..)" % (fields.get("name"), tef.get("extra_derives"), short(pfn))
            rep.ob("C14.W2", "patched:%s" % h["fn"], ok, detail if ok else "named entry built in %s does not take name/derives from the patch lookup (%s)" % (h["fn"], detail), st.get("sp"))

    # ------------------------------------------------------------ T1 derives / T2 names / T3 builder
    ems = emit.find_emitters(facts, c)
    if rep.floor("C14.T1", "item emitters", len(ems), 3):
        asm = None
        for kind, em in ems.items():
            t, it = em.decl
            flat = tp.squash(tp.flat(t.tt))
            has = "#[derive( #( #derives ), * )]" in tp.flat(t.tt) or re.search(r"derive\s*\(\s*#\(\s*#derives\s*\)\s*,\s*\*\s*\)", tp.flat(t.tt)) is not None
            rep.ob("C14.T1", "derive-list-in-item:%s" % kind, has, "item template carries #[derive(#(#derives),*)]" if has else "the %s item template does not interpolate the assembled derive list" % kind, t.sp)
            lets = [n for n, _ in nodes(em.h["body"], "let") if n["pat"].get("k") == "bind" and n["pat"]["name"] == "derives"]
            ok = False
            if lets and lets[0]["init"].get("k") == "call":
                asm = lets[0]["init"]["fn"]
                a = [src(x) for x in lets[0]["init"]["args"]]
                ok = a == ["derive_set", "&self.extra_derives", "&type_space.settings.extra_derives"]
                detail = "%s(%s)" % (short(asm), ", ".join(a))
            else:
                detail = "derives is not bound from the derive assembler"
            rep.ob("C14.T1", "derives-assembled:%s" % kind, ok, detail, lets[0].get("sp") if lets else None)
            # T2: emitter and renderer format the same field
            s = src(em.h["body"])
            rep.ob("C14.T2", "item-name-is-entry-name:%s" % kind, 'let type_name = format_ident!(name)' in s, "type_name = format_ident!(\"{}\", name) with name destructured from the entry")
            # T3
            for tt in em.templates:
                for g in tt.guards:
                    if g[0] == "else" and "struct_builder" in g[1]:
                        rep.ob("C14.T3", "builder-else-branch:%s" % kind, False, "a template is emitted only when the builder is OFF: the setting changes the remaining output", tt.sp)
        rep.ob("C14.T3", "builder-only-adds", True, "no template sits in an else-branch of the builder setting", nontrivial=False)
        if asm and asm in c.hir:
            s = src(c.hir[asm]["body"])
            p = [b["name"] for pp in c.hir[asm]["params"] for b, _ in walk(pp) if b.get("k") == "bind"]
            ok = len(p) == 3 and ("%s.clone()" % p[0]) in s and ("extend(%s.iter()" % p[1]) in s and ("extend(%s.iter()" % p[2]) in s
            rep.ob("C14.T1", "assembler-chains-all-three", ok, "combined = base ∪ type derives ∪ settings derives" if ok else "the derive assembler drops one of its inputs: %s" % s[:160], c.fns[asm].get("sp"))
    ti = [h for h in c.user_fns() if ends(h["fn"], "TypeEntry::type_ident")]
    if ti:
        m = [n for n, _ in nodes(ti[0]["body"], "match") if n.get("src") == "normal" and "TypeEntryDetails" in c.ty(n.get("scty"))][0]
        for arm in m["arms"]:
            tops = [t.split("::")[-1] for t in pat_top_variants(arm["pat"])]
            if "Struct" in tops:
                binds = {f[0]: psrc(f[1]) for x, _ in walk(arm["pat"]) if x.get("k") == "struct" for f in x["fields"]}
                s = src(arm["body"])
                ok = set(tops) == {"Enum", "Struct", "Newtype"} and binds.get("name") == "name" and "format_ident!(name)" in s
                rep.ob("C14.T2", "renderer-uses-entry-name", ok, "type_ident renders Enum|Struct|Newtype by their `name` field", arm.get("sp"))

    # ------------------------------------------------------------ D1 map type
    map_sites = []
    for h in c.user_fns():
        for n, anc in walk(h["body"]):
            if n.get("k") == "field" and n["name"] == "map_type" and "TypeSpaceSettings" in c.ty(n.get("bty")):
                if anc and anc[-1].get("k") == "assign" and anc[-1].get("l") is n:
                    continue  # the setter
                map_sites.append((h, n, anc))
    fns = sorted({h["fn"] for h, _, _ in map_sites})
    rep.floor("C14.D1", "readers of settings.map_type", len(fns), 2)
    EXC = "((key_ty.details Eq TypeEntryDetails::String) And (value_ty.details Eq TypeEntryDetails::JsonValue))"
    for h, n, anc in map_sites:
        arms = [g for g in guards(anc, n) if g[0] == "arm" and "TypeEntryDetails::Map" in g[1]]
        rep.ob("C14.D1", "map-arm-reads-setting:%s" % h["fn"], bool(arms), "read inside the Map arm `%s`" % (arms[0][1][:60] if arms else "?"), None)
        # the exception condition in the same arm
        arm_body = None
        for a in reversed(anc):
            if a.get("k") is None and "pat" in a and "TypeEntryDetails::Map" in psrc(a["pat"]):
                arm_body = a["body"]
                break
        ifs = [x for x, _ in nodes(arm_body or {}, "if") if src(x["cond"]) == EXC]
        ok = bool(ifs) and "serde_json" in src(ifs[0]["then"]) + " ".join((facts.template_at(q["sp"]) or {}).get("text", "") for q, _ in walk(ifs[0]["then"]) if q.get("k") == "macro")
        ok2 = bool(ifs) and ifs[0].get("else") is not None and "map_to_use" in src(ifs[0]["else"])
        rep.ob("C14.D1", "map-exception-shared:%s" % h["fn"], bool(ok and ok2), "String->JsonValue => serde_json::Map, otherwise the configured map type" if ok and ok2 else "the Map arm in %s does not use the configured map type except for String->JsonValue" % h["fn"], (ifs[0] if ifs else {}).get("sp"))

    # ------------------------------------------------------------ W3 conversions first
    cs = [h for h in c.user_fns() if ends(h["fn"], "TypeSpace::convert_schema")]
    if rep.floor("C14.W3", "convert_schema", len(cs), 1):
        h = cs[0]
        m = [n for n, _ in nodes(h["body"], "match") if n.get("src") == "normal" and "schemars::schema::Schema" in c.ty(n.get("scty"))]
        ok = False
        if m:
            for a in m[0]["arms"]:
                if "Schema::Object" in psrc(a["pat"]):
                    body = block_last(a["body"])
                    if body.get("k") == "if" and body["cond"].get("k") == "letx" and "cache.lookup(" in src(body["cond"]["init"]):
                        hit = src(block_last(body["then"]))
                        miss = calls_in(body.get("else") or {})
                        ok = hit.startswith("Ok((") and any(x.endswith("convert_schema_object") for x in miss) and not any(x.endswith("convert_schema_object") for x in calls_in(body["then"]))
        rep.ob("C14.W3", "cache-lookup-dominates-dispatch", ok, "`if let Some(entry) = self.cache.lookup(obj) { Ok(entry) } else { convert_schema_object }`" if ok else "the conversion cache is not consulted before the structural dispatcher", h.get("sp") or c.fns[h["fn"]].get("sp"))
    for meth in ("insert", "lookup"):
        hh = [h for h in c.user_fns() if h["fn"].endswith("SchemaCache::" + meth)]
        if rep.floor("C14.W3", "SchemaCache::" + meth, len(hh), 1):
            st = [n for n, _ in nodes(hh[0]["body"], "struct") if n["path"].endswith("SchemaObject")]
            ok = bool(st) and dict((k, src(v)) for k, v in st[0]["fields"]).get("metadata") == "None"
            rep.ob("C14.W3", "annotations-ignored:" + meth, ok, "%s strips metadata before comparing" % meth if ok else "SchemaCache::%s compares annotations" % meth)
    new = [h for h in c.user_fns() if ends(h["fn"], "TypeSpace::new")]
    if new:
        s = src(new[0]["body"])
        rep.ob("C14.W3", "conversions-loaded", "settings.convert.iter().for_each(" in s and "cache.insert(schema, type_name, impls)" in s, "TypeSpace::new loads every configured conversion into the cache")
