"""Shared machinery of the self-test batteries: apply a patch to a scratch copy of /repo (outside /repo and /verif), run
checks against the copy with REPO=<copy>, remove the copy. The rules are run from a snapshot of /verif/rules taken when
the battery starts (so that a battery is one consistent version of the checker), the facts of each patched tree are kept
in /verif/.cache keyed by content (so that eighteen properties' thorough runs extract each tree once)."""
import glob
import json
import os
import shutil
import subprocess
import tempfile

HERE = os.path.dirname(os.path.abspath(__file__))
VERIF = os.path.dirname(HERE)
PROPS = ["C%02d" % i for i in range(1, 20)]
MAX_CACHED_TREES = 160


class Battery:
    def __init__(self):
        self.root = tempfile.mkdtemp(prefix="verif-selftest-")
        self.snap = os.path.join(self.root, "snap")
        os.makedirs(self.snap)
        shutil.copytree(os.path.join(VERIF, "rules"), os.path.join(self.snap, "rules"), ignore=shutil.ignore_patterns("__pycache__"))
        shutil.copy(os.path.join(VERIF, "check"), os.path.join(self.snap, "check"))
        self.check = os.path.join(self.snap, "check")

    def close(self):
        shutil.rmtree(self.root, ignore_errors=True)
        prune_cache()

    def __enter__(self):
        return self

    def __exit__(self, *a):
        self.close()

    def scratch(self, patch=None, reverse=False):
        """fresh copy of /repo's working tree, optionally patched; returns (dir, error)"""
        repo = os.path.join(self.root, "repo")
        if os.path.exists(repo):
            shutil.rmtree(repo)
        subprocess.check_call(["rsync", "-a", "--exclude", "target", "--exclude", ".git", "/repo/", repo + "/"])
        if patch:
            cmd = ["patch", "-p1", "-s", "-d", repo, "-i", patch]
            if reverse:
                cmd.insert(1, "-R")
            r = subprocess.run(cmd, stdout=subprocess.PIPE, stderr=subprocess.STDOUT, text=True)
            if r.returncode != 0:
                return None, "patch does not apply: " + r.stdout[-300:]
        return repo, None

    def run(self, repo, pid, extra_env=None):
        """-> (exit code, [violated keys], stdout)"""
        env = dict(os.environ, REPO=repo, VERIF_HOME=VERIF, VERIF_FACTS_BY_HASH="1", VERIF_TIER="quick")
        env.update(extra_env or {})
        out = subprocess.run(["python3", self.check, pid, "quick"], cwd=VERIF, env=env, stdout=subprocess.PIPE, stderr=subprocess.STDOUT, text=True)
        keys = [l.strip()[len("violation "):].split(": ", 1)[0] for l in out.stdout.splitlines() if l.strip().startswith("violation ")]
        return out.returncode, keys, out.stdout


def prune_cache():
    cache = os.path.join(VERIF, ".cache")
    try:
        ds = [os.path.join(cache, d) for d in os.listdir(cache) if d.startswith("facts-") or d.startswith("evidence-")]
    except OSError:
        return
    legacy = [d for d in ds if not os.path.basename(d).startswith(("facts-h", "evidence-facts-h"))]  # owned by direct REPO= runs
    keep = sorted((d for d in ds if d not in legacy), key=lambda d: os.path.getmtime(d), reverse=True)
    for d in keep[2 * MAX_CACHED_TREES:]:
        shutil.rmtree(d, ignore_errors=True)


def regression_cases():
    return json.load(open(os.path.join(HERE, "cases.json")))


def benign_patches():
    return sorted(glob.glob(os.path.join(HERE, "benign", "*.patch")))


def seeded_changes():
    out = []
    for d in sorted(glob.glob(os.path.join(VERIF, "seeded", "C??-*"))):
        try:
            meta = json.load(open(os.path.join(d, "meta.json")))
        except Exception:
            continue
        out.append((os.path.basename(d), meta, os.path.join(d, "patch.diff")))
    return out
