"""C04 — Rust -> schemars schema -> typify type is wire compatible with the original (structural clauses only)."""
import re
from lib import (Canon, walk, nodes, ends, src, psrc, outcome, contains_node, pat_top_variants, short, calls_in, block_last,
                 strip_refs, guards, gtext, top_stmts)

EXPLANATION = (
    "Decides structural necessary conditions only, not wire compatibility for all serde-derivable types (that quantifies over "
    "values and over what schemars emits, and no static rule over typify's source decides it): (W1) the two ingestion routes the "
    "property names — the root document (add_root_schema) and the definitions map (add_ref_types) — are thin wrappers over one "
    "shared implementation: each hands *every* definition, keyed RefKey::Def(<its key, unchanged>), to the same private function "
    "and converts nothing itself, so a definition cannot behave differently by route; (X, imported) the pieces of a generated "
    "type that fix its wire format are functions of the schema's own names and of the tagging mode serde used to produce the "
    "schema: the recognisers' preconditions are serde's (C02.D1), the representation attribute and its tag/content strings come "
    "from the IR's own fields (C03.D4), property and variant renames carry the raw JSON name exactly when the identifier differs "
    "(C03.D2, C08.D1), `default`/`skip_serializing_if` pair up and match the member's type (C03.D1), `deny_unknown_fields` is "
    "emitted from the IR flag and required members get no default (C05.W2), and both routes finalise every type they create "
    "(C06.W1)."
)
ASSUMPTIONS = ["schemars 0.8 emits the shapes the recognisers expect for the four tagging modes (not decided)",
               "serde's derive implements the attributes as documented"]


def run(facts, rep, tier):
    c = facts.impl
    pubs = [h for h in c.user_fns() if c.fns[h["fn"]].get("pub") and h["fn"].startswith("TypeSpace::")]
    routes = []
    for h in pubs:
        ins = c.fns[h["fn"]].get("inputs", [])
        if any("RootSchema" in t for t in ins) or (len(ins) == 2 and h["fn"].endswith("add_ref_types")):
            routes.append(h)
    if not rep.floor("C04.W1", "document ingestion routes (root document, definitions map)", len(routes), 2):
        return
    impls = {}
    for h in routes:
        cn = Canon(c, h, 3)
        local_calls = [n for n, _ in walk(h["body"]) if n.get("k") in ("call", "mcall") and n.get("fn") in c.hir and not c.fns[n["fn"]].get("pub") and n["fn"].startswith("TypeSpace::")]
        ok1 = len(local_calls) == 1
        rep.ob("C04.W1", "route-delegates-once:%s" % h["fn"], ok1, "one call to %s" % local_calls[0]["fn"] if ok1 else "the route makes %d calls into the type space's private converters (expected exactly one, to the shared implementation)" % len(local_calls), h.get("sp") or c.fns[h["fn"]].get("sp"))
        if not ok1:
            continue
        impls[h["fn"]] = local_calls[0]["fn"]
        conv = [x for x in calls_in(h["body"]) if re.search(r"TypeSpace::(convert_|id_for_|assign_type)", x)]
        rep.ob("C04.W1", "route-converts-nothing-itself:%s" % h["fn"], not conv, "no conversion in the wrapper" if not conv else "the wrapper calls %s itself" % [short(x) for x in conv])
        # every definition, keyed by its own key
        arg = cn.r(local_calls[0]["args"][0]) if local_calls[0].get("args") else ""
        maps = [n for n, _ in walk(h["body"]) if n.get("k") == "mcall" and n["name"] == "map" and n.get("args") and n["args"][0].get("k") == "closure" and "RefKey::Def" in src(n["args"][0])]
        okm = False
        why = "no `.map(|(key, schema)| (RefKey::Def(key), schema))` over the definitions"
        if maps:
            m = maps[0]
            recv = cn.r(m["recv"])
            body = cn.r(m["args"][0])
            dropped = re.search(r"\.(filter|filter_map|skip|take|skip_while|take_while|step_by)\(", recv)
            keyed = re.search(r"\(RefKey::Def\(elem<[^>]*>\.0(\.as_ref\(\)\.to_string\(\)|\.to_string\(\)|\.into\(\)|\.clone\(\))?\), elem<[^>]*>\.1\)", body)
            okm = not dropped and bool(keyed)
            why = "every definition is passed on as (RefKey::Def(key), schema)" if okm else ("definitions are filtered before conversion (`%s`)" % recv[-60:] if dropped else "definitions are re-keyed as `%s`" % body[:100])
        if not maps and local_calls[0]["fn"] in c.hir:
            # the keying may live in the shared implementation instead: then the wrapper hands over the definitions themselves
            # (unfiltered, the key unchanged) and the implementation maps *its parameter* to (RefKey::Def(key), schema)
            ih = c.hir[local_calls[0]["fn"]]
            icn = Canon(c, ih, 3)
            imaps = [n for n, _ in walk(ih["body"]) if n.get("k") == "mcall" and n["name"] == "map" and n.get("args") and n["args"][0].get("k") == "closure" and "RefKey::Def" in src(n["args"][0])]
            DROP = r"\.(filter|filter_map|skip|take|skip_while|take_while|step_by)\("
            CONV = r"(\.as_ref\(\)\.to_string\(\)|\.to_string\(\)|\.into\(\)|\.clone\(\))?"
            if imaps:
                irecv, ibody = icn.r(imaps[0]["recv"]), icn.r(imaps[0]["args"][0])
                ikeyed = re.fullmatch(r"\|\.\.\| \(RefKey::Def\(elem<[^>]*>\.0" + CONV + r"\), elem<[^>]*>\.1\)", ibody)
                from_param = re.fullmatch(r"\$[A-Z]\w*(\.into_iter\(\)|\.iter\(\))?", irecv)
                passed = re.fullmatch(r"\$\w+(~RootSchema)?(\.definitions)?(\.into_iter\(\)|\.iter\(\))?(\.map\(\|\.\.\| \(elem<[^>]*>\.0" + CONV + r", elem<[^>]*>\.1\)\))?", arg)
                okm = bool(ikeyed and from_param and passed) and not re.search(DROP, arg) and not re.search(DROP, irecv)
                why = "the wrapper hands over the definitions unfiltered (`%s`) and the shared implementation keys each as (RefKey::Def(key), schema)" % arg[:60] if okm else \
                    "the definitions do not reach the shared implementation one for one, keyed RefKey::Def(key): passed `%s`, mapped `%s` over `%s`" % (arg[:80], ibody[:80], irecv[:40])
        rep.ob("C04.W1", "route-passes-every-definition:%s" % h["fn"], okm, why, (maps[0] if maps else h).get("sp"))
    same = len(set(impls.values())) == 1 and len(impls) == len(routes)
    rep.ob("C04.W1", "routes-share-one-implementation", same, "both routes end in %s" % sorted(set(impls.values()))[0] if same else "the routes end in different implementations: %s" % impls)
