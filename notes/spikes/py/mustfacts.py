import json, re, sys, collections
D = {f['fn']: f for f in json.load(open('/tmp/spike/facts/mir-typify_impl.json'))}

VALUE_VARIANTS = {0:'Null',1:'Bool',2:'Number',3:'String',4:'Array',5:'Object'}
ALL = frozenset(['null','bool','u64','negi64','float','string','array','object'])
NUM = frozenset(['u64','negi64','float'])
KIND_OF_VARIANT = {'Null':{'null'},'Bool':{'bool'},'Number':NUM,'String':{'string'},'Array':{'array'},'Object':{'object'}}
CALL_KINDS = {  # callee suffix -> (Some/true kinds)
  'as_str':{'string'}, 'as_array':{'array'}, 'as_object':{'object'}, 'as_bool':{'bool'}, 'as_null':{'null'},
  'as_u64':{'u64'}, 'as_i64':{'u64','negi64'}, 'as_f64':NUM, 'is_number':NUM, 'is_null':{'null'}, 'is_string':{'string'},
}

class Fn:
    def __init__(self, f):
        self.f = f
        self.blocks = {b['bb']: b for b in f['blocks']}
        # single-definition map for locals
        self.defs = collections.defaultdict(list)
        for b in f['blocks']:
            for s in b['stmts']:
                self.defs[s['lhs']].append(('stmt', b['bb'], s['rv']))
            t = b['term']
            if t['k'] == 'call':
                self.defs[t['dest']].append(('call', b['bb'], t))
        self.names = {p: n for n, p in f['dbg']}
    def canon(self, place, depth=0):
        """resolve a place/operand string to a symbolic access path"""
        place = place.strip()
        if place.startswith('const '): return place
        if depth > 12: return place
        m = re.fullmatch(r'_(\d+)', place)
        if m:
            if place in self.names and int(m.group(1)) <= self.f['argc']: return self.names[place]
            ds = self.defs.get(place, [])
            if len(ds) == 1:
                kind, bb, rv = ds[0]
                if kind == 'stmt':
                    if rv['k'] in ('use', 'cast'): return self.canon(rv['a'], depth+1)
                    if rv['k'] == 'ref': return '&' + self.canon(rv['a'], depth+1)
                    if rv['k'] == 'disc': return 'disc(' + self.canon(rv['a'], depth+1) + ')'
                    if rv['k'] == 'agg' and rv['adt'] == 'tuple': return '(' + ','.join(self.canon(o, depth+1) for o in rv['ops']) + ')'
                    if rv['k'] == 'agg': return rv['adt'] + '{' + ','.join(self.canon(o, depth+1) for o in rv['ops']) + '}'
                    if rv['k'] == 'bin': return f"{rv['op']}({self.canon(rv['a'],depth+1)},{self.canon(rv['b'],depth+1)})"
                else:
                    t = rv
                    return t['pretty'].split('::')[-1] + '@' + '(' + ','.join(self.canon(a, depth+1) for a in t['args']) + ')'
            if place in self.names: return self.names[place]
            return place
        # projections: (*_3), (_5.0: T), ((_5 as Some).0: T), etc.
        m = re.fullmatch(r'\(\*(.+)\)', place)
        if m: 
            inner = self.canon(m.group(1), depth+1)
            return inner[1:] if inner.startswith('&') else '*' + inner
        m = re.fullmatch(r'\((.+)\.(\d+): [^()]*(\([^()]*\))?[^()]*\)', place)
        if m:
            base = self.canon(m.group(1), depth+1)
            idx = int(m.group(2))
            if base.startswith('(') and base.endswith(')') and ' as ' not in base:
                # tuple aggregate: pick component (naive split at top-level commas)
                parts = split_top(base[1:-1])
                if idx < len(parts): return parts[idx]
            return f'{base}.{idx}'
        m = re.fullmatch(r'\((.+) as (\w+)\)', place)
        if m: return f'{self.canon(m.group(1), depth+1)}#{m.group(2)}'
        return place

def split_top(s):
    out=[];d=0;cur=''
    for c in s:
        if c in '([{': d+=1
        if c in ')]}': d-=1
        if c==',' and d==0: out.append(cur); cur=''
        else: cur+=c
    if cur: out.append(cur)
    return out

def edge_facts(fn, b):
    """facts generated on each outgoing edge of block b: dict target -> set(facts)"""
    t = b['term']; res = collections.defaultdict(set)
    if t['k'] != 'switch': return res
    c = fn.canon(t['d'])
    vals = [v for v,_ in t['targets']]
    for v, tgt in t['targets']:
        res[tgt].add((c, v))
    # otherwise edge: negative knowledge
    res[t['otherwise']].add((c, ('not', tuple(vals))))
    return res

def must_facts(fn):
    blocks = fn.blocks
    succs = {}
    for i,b in blocks.items():
        if b['cleanup']: continue
        t=b['term']
        if t['k']=='switch': s=[x for _,x in t['targets']]+[t['otherwise']]
        else: s=[x for x in t.get('t',[]) if x!='' ]
        succs[i]=[int(x) for x in s if int(x) in blocks and not blocks[int(x)]['cleanup']]
    IN={i:None for i in succs}; IN[0]=frozenset()
    work=[0]
    while work:
        i=work.pop()
        ef=edge_facts(fn, blocks[i])
        for s in succs[i]:
            # a block may be targeted by several edges of the same switch; intersect those too
            out=IN[i] | frozenset(ef.get(s,set())) if list(succs[i]).count(s)==1 else IN[i]
            new = out if IN[s] is None else IN[s] & out
            if new != IN[s]: IN[s]=new; work.append(s)
    return IN

def kinds_from_facts(facts, subject='default'):
    k=set(ALL)
    for c,v in facts:
        if isinstance(v, tuple): continue
        # discriminant of the Value itself
        m=re.fullmatch(r'disc\(\*?'+subject+r'\)', c)
        if m and v in VALUE_VARIANTS: k&=set(KIND_OF_VARIANT[VALUE_VARIANTS[v]]); continue
        # call results: disc(as_str@(default)) == 1 (Some) ; bool is_number@(default) != 0
        m=re.fullmatch(r'(?:disc\()?(\w+)@\(&?\*?'+subject+r'\)\)?', c)
        if m and m.group(1) in CALL_KINDS:
            if v==1: k&=set(CALL_KINDS[m.group(1)])
            elif v==0 and m.group(1).startswith('as_'): k-=set(CALL_KINDS[m.group(1)])
    return frozenset(k)

def arm_of(facts):
    """which TypeEntryDetails variant arm are we in? look for disc((*self).details)-like fact"""
    for c,v in facts:
        if isinstance(v,int) and c=='disc(*self.0)': return v
    return None

DETAILS = ['Enum','Struct','Newtype','Native','Option','Box','Vec','Map','Set','Array','Tuple','Unit','Boolean','Integer','Float','String','JsonValue','Reference']

def success_sites(fn, ok_adts):
    """blocks that build a success value: aggregate Ok/Some assigned (anywhere); or calls whose result is returned (delegation)"""
    sites=[]
    for i,b in fn.blocks.items():
        if b['cleanup']: continue
        for s in b['stmts']:
            rv=s['rv']
            if rv['k']=='agg' and any(rv['adt'].endswith(x) for x in ok_adts): sites.append((i,'ctor:'+rv['adt'].split('::')[-1]))
        t=b['term']
        if t['k']=='call' and t['dest']=='_0': sites.append((i,'deleg:'+t['pretty'].split('::')[-1]))
    return sites

def analyse(name, ok_adts, subject):
    fn=Fn(D[name]); IN=must_facts(fn)
    res=collections.defaultdict(lambda: [set(),[]])
    for i,what in success_sites(fn, ok_adts):
        f=IN.get(i)
        if f is None: continue
        arm=arm_of(f)
        ks=kinds_from_facts(f, subject)
        res[arm][0] |= ks; res[arm][1].append((what, sorted(ks) if ks!=ALL else 'ALL'))
    return res

if __name__=='__main__':
    v=analyse('defaults::<impl type_entry::TypeEntry>::validate_value', ['Result::Ok'], 'default')
    r=analyse('value::<impl type_entry::TypeEntry>::output_value', ['Option::Some'], 'value')
    for arm in sorted(set(v)|set(r), key=lambda x:(x is None, x)):
        nm = DETAILS[arm] if arm is not None and arm < len(DETAILS) else str(arm)
        vk = v[arm][0] if arm in v else None; rk = r[arm][0] if arm in r else None
        def show(k): return 'none' if k is None else ('ALL' if k==ALL else ','.join(sorted(k)))
        verdict = ''
        if vk is not None and rk is not None: verdict = 'OK' if vk <= rk else 'VIOLATION validator accepts '+','.join(sorted(vk-rk))+' renderer does not'
        print(f"{nm:10} validator={show(vk):40} renderer={show(rk):40} {verdict}")
        if '-v' in sys.argv:
            for w in (v[arm][1] if arm in v else []): print("      V", w)
            for w in (r[arm][1] if arm in r else []): print("      R", w)
