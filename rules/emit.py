"""Model of the three item emitters (enum / struct / newtype) shared by the template rules."""
import re
from lib import walk, nodes, src, psrc, guards, gtext, templates_in, pat_top_variants
import tmplparse as tp


class Tmpl:
    def __init__(self, node, anc, syn):
        self.node = node
        self.anc = anc
        self.syn = syn
        self.sp = node["sp"]
        self.tt = syn["tt"] if syn else []
        self.text = tp.squash(tp.flat(self.tt))
        self.guards = guards(anc, node)
        self.items = tp.split_items(self.tt)
        self.impls = tp.find_impls(self.tt)
        self.let = None
        for g in self.guards:
            if g[0] == "let":
                self.let = g[1]
        # innermost let wins for "bound to"
        lets = [g[1] for g in self.guards if g[0] == "let"]
        self.bound = lets[-1] if lets else None
        self.bound_outer = lets[0] if lets else None

    def conds(self):
        """Guards other than let-bindings."""
        return [g for g in self.guards if g[0] != "let"]

    def arm_of(self, scrut_sub):
        """Pattern text of the enclosing arm of a match whose scrutinee mentions scrut_sub."""
        for g in self.guards:
            if g[0] == "arm" and scrut_sub in g[3]:
                return g[1]
        return None

    def holes(self):
        return tp.holes(self.tt)


class Emitter:
    def __init__(self, facts, crate, h):
        self.h = h
        self.fn = h["fn"]
        self.templates = [Tmpl(n, anc, syn) for (n, anc, syn) in templates_in(facts, crate, h) if syn]
        self.decl = None
        for t in self.templates:
            for it in t.items:
                if it["kind"] in ("struct", "enum") and str(it.get("name", "")).startswith("#") and not any(g[0] == "if" and "struct_builder" in g[1] for g in t.guards):
                    if self.decl is None:
                        self.decl = (t, it)

    def used_as_hole(self, name):
        return [t for t in self.templates if any(h[0] == name for h in t.holes())]


def find_emitters(facts, crate):
    """{'enum': Emitter, 'struct': Emitter, 'newtype': Emitter} located by the shape of their item template."""
    out = {}
    for h in crate.user_fns():
        hasq = any(n.get("k") == "macro" and n["name"] == "quote" for n, _ in walk(h["body"]))
        if not hasq:
            continue
        e = Emitter(facts, crate, h)
        if e.decl is None:
            continue
        t, it = e.decl
        if it["kind"] == "enum":
            out.setdefault("enum", e)
        elif it["kind"] == "struct" and it["tuple"]:
            out.setdefault("newtype", e)
        elif it["kind"] == "struct":
            out.setdefault("struct", e)
    return out


TRAIT_PATHS = {
    "Default": "::std::default::Default",
    "FromStr": "::std::str::FromStr",
    "Display": "::std::fmt::Display",
}
