typify::import_types!(
    schema = "schema.json",
    crates = {
        "aaa" = "x@1.0.0",
        "bbb" = "x@1.0.0",
    }
);
fn main() {}
