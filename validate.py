#!/usr/bin/env python3
"""Validate MANIFEST.json and evidence/*.json against the given schemas (uses the tooling venv's jsonschema)."""
import glob, json, sys
import jsonschema
ok = True
def chk(doc, schema, name):
    global ok
    try:
        jsonschema.validate(doc, schema)
        print("ok   ", name)
    except jsonschema.ValidationError as e:
        ok = False
        print("FAIL ", name, e.message[:200])
chk(json.load(open("/verif/MANIFEST.json")), json.load(open("/root/.vp/MANIFEST.schema.json")), "MANIFEST.json")
es = json.load(open("/root/.vp/EVIDENCE.schema.json"))
for p in sorted(glob.glob("/verif/evidence/C*.json")):
    chk(json.load(open(p)), es, p)
sys.exit(0 if ok else 1)
