"""C05 — constraints represented in a generated type cannot be bypassed (template clauses)."""
import re
from lib import (norm_arm, walk, nodes, ends, src, psrc, outcome, contains_node, pat_top_variants, short, calls_in, block_last,
                 strip_refs, guards, gtext, top_stmts, templates_in)
import emit
import tmplparse as tp

EXPLANATION = (
    "Decides the shape of the constrained-newtype templates and two generator-side siblings, not serde's run-time enforcement: "
    "(T1) the field of the newtype is `pub` only in the unconstrained arm; (T2) in the constrained arms there is no "
    "`impl From<inner>`, no DerefMut, no inherent constructor, and every fn body that builds `Self(..)` performs the check first "
    "(the membership test with an Err branch, or the length/pattern checks); (T3) the arm that emits `impl Deserialize` is "
    "exactly the arm that drops the derive, that impl goes through try_from()/parse(), and every TryFrom<&str|&String|String> "
    "body is `value.parse()`; (T4) every length check, in the templates and in the generator's own filter of enum values, counts "
    "`chars()`, never bytes; (D1) the membership test is negated exactly for allow-lists (EnumValue); (W1) every construction of "
    "an allow/deny-list constraint is preceded by validation of each listed value against the inner type; (W2) required "
    "properties get no serde default and `deny_unknown_fields` is emitted from the IR flag; (W3) where the closedness of an "
    "enum is accumulated over its variants the accumulation can only close (`|=` / `= true`): a plain reassignment forgets a "
    "closed variant converted earlier; (W4) a string schema is given the unconstrained `String` only when its validation is "
    "absent or has no `maxLength`, no `pattern` and no `minLength` other than 0; anything else goes to the constrained newtype; (W5) the generator-side string filter (which decides which enum values "
    "become variants) consults every constraint it holds — maxLength, minLength and pattern — on every path on which it accepts a "
    "value; (W6) a definition that is a bare `$ref` alias becomes a newtype over the *referenced type itself* (the id the "
    "Reference carries), never over that type's inner type — which would shed the referenced type's constraints."
    " (W7) the inner schema of a `[T, null]` type is the outer one (`..schema`) with only metadata / instance_type / enum_values overridden; (T4, sources) the maxLength check is emitted for every stated bound (no filter before it), the minLength check may skip only 0."
    " (W4, evaluated) convert_string is evaluated over max/min/pattern scenarios and answers the unconstrained String only when no bound is stated (minLength 0 aside); the arm-shaped W4 rule is advisory where that is possible; (W8, evaluated) the closure that builds the per-type schema of a `type` array, run for the seven types with marked inputs, keeps string+format for string, number+format for number/integer, object and array validation for theirs."
)
ASSUMPTIONS = ["serde enforces tuple arity, tags and scalar JSON types", "regress implements ECMA-262 patterns"]


def arm_name(t):
    a = t.arm_of("constraints")
    if a is None:
        return None
    names = re.findall(r"TypeEntryNewtypeConstraints::(\w+)", a)
    return "|".join(sorted(names))


def _walk_values(v):
    yield v
    if isinstance(v, (tuple, list)):
        for x in v:
            for y in _walk_values(x):
                yield y
    elif isinstance(v, dict):
        for x in v.values():
            for y in _walk_values(x):
                yield y


def run(facts, rep, tier):
    c = facts.impl
    ems = emit.find_emitters(facts, c)
    if not rep.floor("C05.T1", "newtype emitter", 1 if "newtype" in ems else 0, 1):
        return
    em = ems["newtype"]
    decl_t, decl = em.decl
    body = tp.flat(decl["body"])
    rep.ob("C05.T1", "field-visibility-is-a-hole", body.replace(" ", "") == "#vis#inner_type_name", "newtype is `struct #type_name(#vis #inner_type_name)`" if body.replace(" ", "") == "#vis#inner_type_name" else "newtype field is `%s`: visibility is not controlled by the constraint" % body, decl_t.sp)
    # T1: vis
    vis_lets = em.let_of("vis")
    if rep.floor("C05.T1", "binding of the visibility hole", len(vis_lets), 1):
        m = vis_lets[0]["init"]
        ok = False
        detail = "vis is not a match on the constraints"
        if m.get("k") == "match" and "constraints" in em.canon().r(m["scrut"]):
            pub_arms = []
            for a in m["arms"]:
                has_pub = any((facts.template_at(x["sp"]) or {}).get("text", "").strip() == "pub" for x, _ in walk(a["body"]) if x.get("k") == "macro")
                if has_pub:
                    pub_arms += [t.split("::")[-1] for t in pat_top_variants(a["pat"])]
            ok = pub_arms == ["None"]
            detail = "`pub` is produced in arms %s" % pub_arms
        rep.ob("C05.T1", "pub-only-unconstrained", ok, detail if ok else "the inner field is public for constrained newtypes (%s): callers can build violating values" % detail, vis_lets[0].get("sp"))

    # templates by constraint arm
    by_arm = {}
    for t in em.templates:
        by_arm.setdefault(arm_name(t), []).append(t)
    constrained = [k for k in by_arm if k and k != "None"]
    rep.floor("C05.T2", "constrained arms of the newtype emitter", len(constrained), 2)
    rep.sample({"rule": "C05", "arms": {str(k): [t.sp for t in v] for k, v in by_arm.items()}})

    # T2
    for t in em.templates:
        for im in t.impls:
            if "DerefMut" in im["trait"]:
                rep.ob("C05.T2", "no-deref-mut:%s" % (arm_name(t) or "item"), False, "`impl DerefMut` lets callers mutate the validated value in place", t.sp)
    rep.ob("C05.T2", "no-deref-mut", not any("DerefMut" in im["trait"] for t in em.templates for im in t.impls), "no DerefMut impl in any newtype template")
    for arm in constrained:
        for t in by_arm[arm]:
            for im in t.impls:
                key = "%s/%s" % (arm, im["trait"] or "inherent")
                if im["self"] != "#type_name":
                    continue
                if re.fullmatch(r"::std::convert::From<#inner_type_name>", im["trait"]):
                    rep.ob("C05.T2", "no-unchecked-from:" + arm, False, "`impl From<inner> for #type_name` in the %s arm builds a value without checking the constraint" % arm, t.sp)
                if im["trait"] == "":
                    for f in im["fns"]:
                        if "Self (" in tp.flat(f["body"]) or "-> Self" in f["sig"]:
                            rep.ob("C05.T2", "no-inherent-ctor:" + arm, False, "inherent fn `%s` constructs the constrained newtype" % f["name"], t.sp)
                for f in im["fns"]:
                    bt = tp.flat(f["body"])
                    if "Self (" not in bt:
                        continue
                    pos = bt.index("Self (")
                    before = bt[:pos]
                    if "String" in arm:
                        ok = all(h in before for h in ("#max", "#min", "#pat"))
                        why = "`#max #min #pat` precede `Self(..)`"
                    else:
                        ok = re.search(r"if\s+#not\s+\[.*\]\s*\.\s*contains\s*\(\s*&\s*value\s*\)\s*\{\s*Err\s*\(", before) is not None and "else" in before
                        why = "`Self(value)` sits in the else-branch of `if #not [..].contains(&value) { Err(..) }`"
                    rep.ob("C05.T2", "checked-before-construct:%s/%s" % (key, f["name"]), ok, why if ok else "fn %s of `%s` builds Self(..) without the constraint check before it" % (f["name"], im["trait"]), t.sp)
        rep.ob("C05.T2", "no-unchecked-from:" + arm, not any(re.fullmatch(r"::std::convert::From<#inner_type_name>", im["trait"]) and im["self"] == "#type_name" for t in by_arm[arm] for im in t.impls), "no `impl From<inner>` in the %s arm" % arm)
    # the unconditional item template must not add a constructor either
    for im in decl_t.impls:
        if im["self"] == "#type_name" and re.fullmatch(r"::std::convert::From<#inner_type_name>", im["trait"]):
            rep.ob("C05.T2", "no-unchecked-from:item", False, "the item template (all constraints) has `impl From<inner>`", decl_t.sp)
    rep.ob("C05.T2", "no-unchecked-from:item", not any(im["self"] == "#type_name" and re.fullmatch(r"::std::convert::From<#inner_type_name>", im["trait"]) for im in decl_t.impls), "the shared item template has no constructor from the inner type")

    # T3
    for arm in constrained:
        des = [(t, im) for t in by_arm[arm] for im in t.impls if im["trait"].startswith("::serde::Deserialize<") and im["self"] == "#type_name"]
        rm = [n for (op, lits, gs, n) in em.derive_set_ops()[0] if op == "remove" and any(g[0] == "arm" and all(x in g[1] for x in arm.split("|")) for g in gs)]
        rep.ob("C05.T3", "deserialize-pairing:" + arm, bool(des) and bool(rm), "derive removed and validating impl emitted in the %s arm" % arm if des and rm else "the %s arm %s" % (arm, "keeps the derived Deserialize (bypasses validation)" if not rm else "emits no Deserialize impl"), (des[0][0].sp if des else None))
        for t, im in des:
            bt = tp.squash(tp.flat(im["fns"][0]["body"])) if im["fns"] else ""
            ok = ("Self::try_from" in bt.replace(" ", "") or ".parse()" in bt.replace(" ", "")) and "Self(" not in bt.replace(" ", "")
            rep.ob("C05.T3", "deserialize-validates:" + arm, ok, "deserialize goes through %s" % ("try_from" if "try_from" in bt else "parse()") if ok else "the hand-written Deserialize does not go through the validating constructor: %s" % bt[:100], t.sp)
    n_tf = 0
    for kind, e in ems.items():
        for t in e.templates:
            for im in t.impls:
                if re.fullmatch(r"::std::convert::TryFrom<(&str|&String|String|&::std::string::String|::std::string::String)>", im["trait"]) and im["self"] == "#type_name":
                    n_tf += 1
                    bt = tp.flat(im["fns"][0]["body"]).replace(" ", "") if im["fns"] else ""
                    rep.ob("C05.T3", "tryfrom-str-is-parse:%s/%s/%s" % (kind, arm_name(t) or gtext(t.conds())[:40], im["trait"].split("<")[1].rstrip(">")), bt == "value.parse()", "body `%s`" % bt, t.sp)
    rep.floor("C05.T3", "TryFrom<string-like> impls", n_tf, 12)

    # T4: which of the stated bounds get a check
    def adaptors(text, start):
        """[(method, argument text)] of the call chain that starts at text[start] == '.'"""
        out = []
        i_ = start
        while i_ < len(text) and text[i_] == ".":
            m_ = re.match(r"\.(\w+)\(", text[i_:])
            if not m_:
                break
            k_ = i_ + m_.end()
            depth = 1
            while k_ < len(text) and depth:
                depth += text[k_] == "("
                depth -= text[k_] == ")"
                k_ += 1
            out.append((m_.group(1), text[i_ + m_.end():k_ - 1]))
            i_ = k_
        return out
    nt = ems.get("newtype")
    if nt is not None:
        for name, cs in sorted(nt.hole_canon().items()):
            mm = re.match(r"^\S*String\.(max|min)_length\b", cs)
            if not (mm and "quote!" in cs):
                continue
            which = mm.group(1)
            chain = adaptors(cs, mm.end())
            upto = []
            for meth, arg in chain:
                if meth == "map" and arg.startswith("|..| quote!"):
                    break
                upto.append((meth, arg))
            bad = []
            for ix, (meth, arg) in enumerate(upto):
                if meth == "map" and re.fullmatch(r"\|\.\.\| elem<.*>", arg):
                    continue  # a cast
                if which == "min" and ix == 0 and meth == "filter" and re.fullmatch(r"\|\.\.\| \(elem<.*> (Gt|Ne) 0\)", arg):
                    continue  # minLength 0 is vacuous
                bad.append("%s(%s)" % (meth, arg[:60]))
            rep.ob("C05.T4", "bound-source:%s" % which, not bad, "every stated %sLength gets a check%s" % (which, " (only the vacuous minLength 0 is skipped)" if which == "min" else "") if not bad else
                   "the %sLength check is emitted only after `.%s`: a stated bound is dropped before the check is generated, so strings that violate it are accepted" % (which, bad[0]))
    for arm in constrained:
        if "String" not in arm:
            continue
        for t in by_arm[arm]:
            txt = tp.flat(t.tt).replace(" ", "")
            if "#v" in txt and ("returnErr" in txt) and ("count()" in txt or "len()" in txt):
                ok = "value.chars().count()" in txt and "len()" not in txt
                rep.ob("C05.T4", "length-in-chars:template@%s" % t.bound, ok, "`value.chars().count()` compared with the bound" if ok else "the length check counts bytes: %s" % txt[:80], t.sp)
        mx = [t for t in by_arm[arm] if t.bound in ("max", "min")]
        rep.floor("C05.T4", "length-check templates", len(mx), 2)
        cmpops = {t.bound: re.search(r"count\(\)([<>]=?)#v", tp.flat(t.tt).replace(" ", "")) for t in mx}
        rep.ob("C05.T4", "length-comparisons", (cmpops.get("max") and cmpops["max"].group(1) == ">") and (cmpops.get("min") and cmpops["min"].group(1) == "<"), "max: `> #v` rejects, min: `< #v` rejects")
    sv = [h for h in c.user_fns() if h["fn"].endswith("StringValidator::is_valid")]
    if rep.floor("C05.T4", "generator-side string filter", len(sv), 1):
        h = sv[0]
        lens = [n for n, _ in nodes(h["body"], "mcall") if n["name"] in ("len", "count")]
        for i, n in enumerate(lens):
            ok = n["name"] == "count" and n["recv"].get("k") == "mcall" and n["recv"]["name"] == "chars"
            rep.ob("C05.T4", "length-in-chars:generator#%d" % i, ok, "`%s`" % src(n) if ok else "the generator's filter measures `%s` (bytes) while the generated code counts chars: valid enum values with non-ASCII text are dropped" % src(n), n.get("sp"))
        rep.floor("C05.T4", "length measurements in the filter", len(lens), 1)

    # D1
    nots = em.let_of("not")
    if rep.floor("C05.D1", "binding of the negation hole", len(nots), 1):
        s = em.canon().r(nots[0]["init"])
        m = re.match(r"match \S*constraints \{ TypeEntryNewtypeConstraints::(\w+)\(_\) => true \| _ => false \}\.then\(", s)
        has_bang = any((facts.template_at(x["sp"]) or {}).get("text", "").strip() == "!" for x, _ in walk(nots[0]["init"]) if x.get("k") == "macro")
        ok = bool(m) and m.group(1) == "EnumValue" and has_bang
        rep.ob("C05.D1", "negate-iff-allow-list", ok, "`!` is emitted exactly for EnumValue: values NOT in the list are rejected" if ok else "negation hole is `%s`" % s[:120], nots[0].get("sp"))

    # W1
    n_sites = 0
    for h in c.user_fns():
        for n, anc in walk(h["body"]):
            if n.get("k") == "call" and re.search(r"from_metadata_with_(enum|deny)_values$", n.get("fn", "")):
                n_sites += 1
                vals = src(n["args"][4]) if len(n.get("args", [])) > 4 else ""
                vals_name = vals.lstrip("&")
                # statements before this call in the enclosing blocks
                ok = False
                for a in reversed(anc):
                    if a.get("k") == "block":
                        for st in a.get("stmts", []):
                            if contains_node(st, n):
                                break
                            for x, xa in walk(st):
                                if x.get("k") == "mcall" and x["name"] == "try_for_each" and src(x["recv"]) == "%s.iter()" % vals_name:
                                    validated = any(y.endswith("TypeEntry::validate_value") for y in calls_in(x["args"]))
                                    tried = any(p.get("k") == "match" and p.get("src") == "try" for p in xa)
                                    if validated and tried:
                                        ok = True
                        if ok:
                            break
                key = "%s#%d" % (h["fn"], sum(1 for o in rep.obligations if o["key"].startswith("C05.W1/values-validated:%s#" % h["fn"])))
                rep.ob("C05.W1", "values-validated:" + key, ok, "each of `%s` is validated against the inner type (with `?`) before the constraint is built" % vals_name if ok else "allow/deny list `%s` reaches the constraint without validation: an unrenderable value makes the list literal silently shorter" % vals_name, n.get("sp"))
    rep.floor("C05.W1", "constructions of allow/deny-list constraints", n_sites, 3)

    # W2
    gsa = [h for h in c.user_fns() if h["fn"].endswith("generate_serde_attr")]
    if rep.floor("C05.W2", "serde attribute selector", len(gsa), 1):
        m = [n for n, _ in nodes(gsa[0]["body"], "match") if n.get("src") == "normal" and n["scrut"].get("k") == "tup"]
        ok = False
        if m:
            for a in m[0]["arms"]:
                if "StructPropertyState::Required" in psrc(a["pat"]):
                    ok = src(a["body"]) == "DefaultFunction::None"
        rep.ob("C05.W2", "required-has-no-default", ok, "(Required, _) => no serde default, DefaultFunction::None" if ok else "a required property is given a serde default: documents missing it are accepted", gsa[0].get("sp") or c.fns[gsa[0]["fn"]].get("sp"))
    for kind in ("enum", "struct"):
        e = ems.get(kind)
        if not e:
            continue
        ts = [t for t in e.templates if tp.flat(t.tt).strip() == "deny_unknown_fields"]
        ok = bool(ts) and any(g[0] == "if" and re.fullmatch(r"\S*~TypeEntry(Enum|Struct)\.deny_unknown_fields", g[1]) for g in ts[0].conds())
        rep.ob("C05.W2", "closed-objects:%s" % kind, ok, "`deny_unknown_fields` pushed under `if *deny_unknown_fields`" if ok else "the %s emitter does not emit deny_unknown_fields from the IR flag" % kind, ts[0].sp if ts else None)
        serde_t = [t for t in e.templates if t.bound == "serde"]
        rep.ob("C05.W2", "serde-options-emitted:%s" % kind, bool(serde_t) and tp.flat(serde_t[0].tt).replace(" ", "") == "#[serde(#(#serde_options),*)]" and bool(e.used_as_hole("serde")), "#[serde(#(#serde_options),*)] is interpolated into the item")

    # W3: closedness accumulates monotonically over the variants
    import c02
    n_j = 0
    for hh in c.user_fns():
        for n, how, kind in c02.closed_flag_joins(c, hh):
            n_j += 1
            key = "%s#%d" % (hh["fn"], sum(1 for o in rep.obligations if o["key"].startswith("C05.W3/closedness-accumulates:%s#" % hh["fn"])))
            rep.ob("C05.W3", "closedness-accumulates:" + key, kind == "or", "`%s` can only close" % how if kind == "or" else
                   "`%s` overwrites the flag on every variant: a variant with additionalProperties:false that is not the last one loses #[serde(deny_unknown_fields)] and accepts unknown members" % how, n.get("sp"))
    rep.floor("C05.W3", "accumulations of deny_unknown_fields over variants", n_j, 4)

    # W4 by evaluation: convert_string answers the unconstrained String only for a vacuous validation
    import minirust as mr5
    evaluated4 = False
    cs_ = [x for x in c.user_fns() if x["fn"].endswith("TypeSpace::convert_string")]
    if cs_:
        hh4 = cs_[0]
        ins4 = c.fns[hh4["fn"]]["inputs"]

        def run4(mx, mn, pat):
            val = mr5.some(("struct", "StringValidation", {"max_length": mr5.some(float(mx)) if mx is not None else mr5.NONE, "min_length": mr5.some(float(mn)) if mn is not None else mr5.NONE,
                                                             "pattern": mr5.some(pat) if pat else mr5.NONE}))
            args = []
            for t_ in ins4:
                if "TypeSpace" in t_:
                    args.append(("struct", "TypeSpace", {"uses_regress": False, "settings": ("struct", "S", {})}))
                elif "StringValidation" in t_:
                    args.append(val)
                elif t_.endswith("Name"):
                    args.append("Name")
                elif "Option<" in t_:
                    args.append(mr5.NONE)
                else:
                    args.append(("opaque",))
            hooks = {"Regex::new": lambda m_, *a_: ("Ok", ("re",)), "from_metadata_with_string_validation": lambda m_, *a_: ("newtype",), "assign_type": lambda m_, *a_: ("id",),
                     "new_native": lambda m_, *a_: ("native",), "new_native_params": lambda m_, *a_: ("native",)}
            return mr5.Machine(c, hooks=hooks).run_fn(hh4, args)
        bad4w = None
        n4 = 0
        try:
            for mx in (None, 0, 1, 5):
                for mn in (None, 0, 1):
                    for pat in (None, "a+"):
                        r_ = run4(mx, mn, pat)
                        n4 += 1
                        plain = isinstance(r_, tuple) and r_[0] == "Ok" and isinstance(r_[1], tuple) and r_[1][0] == "tup" and r_[1][1][0] == ("ctor", "String", [])
                        vac = mx is None and pat is None and mn in (None, 0)
                        if plain and not vac:
                            bad4w = "a string schema with %s becomes the unconstrained `String`: the bound it states is not represented, so values that violate it are accepted by Deserialize, FromStr and TryFrom" % ", ".join(
                                x for x in ("maxLength %s" % mx if mx is not None else "", "minLength %s" % mn if mn not in (None, 0) else "", "a pattern" if pat else "") if x)
                            break
                    if bad4w:
                        break
                if bad4w:
                    break
            evaluated4 = True
        except mr5.Unknown as e_:
            rep.info("C05.W4 not evaluable (%s): the arm-shaped rule decides" % e_)
        if evaluated4:
            rep.ob("C05.W4", "plain-string-iff-vacuous", bad4w is None, "evaluated on %d validations: the unconstrained String is answered only when no bound is stated (minLength 0 aside)" % n4 if bad4w is None else bad4w, c.fns[hh4["fn"]].get("sp"))
    # W4: only vacuous string validations become plain String
    sites = []
    for hh in c.user_fns():
        for m, _ in nodes(hh["body"], "match"):
            if m.get("src") == "normal" and "StringValidation" in c.ty(m.get("scty")):
                sites.append((hh, m))
    class _Adv4:
        def ob(self, rule, key, ok, detail="", where=None, nontrivial=True):
            return rep.ob(rule, key, ok, detail, where, nontrivial) if ok else (rep.info("advisory (decided by evaluation): %s/%s" % (rule, key)) or False)

        def floor(self, rule, what, count, minimum):
            return rep.floor(rule, what, count, minimum) if count >= minimum else (rep.info("advisory: anchor `%s` not found" % what) or False)
    R4w = _Adv4() if evaluated4 else rep
    if R4w.floor("C05.W4", "case analysis of a string schema's validation", len(sites), 1):
        hh, m = sites[0]
        n_plain = 0
        for a in m["arms"]:
            res = src(block_last(a["body"]))
            if "TypeEntryDetails::String" not in res or "from_metadata" in res:
                continue
            n_plain += 1
            pats = a["pat"]["pats"] if a["pat"].get("k") == "or" else [a["pat"]]
            for alt in pats:
                structs = [x for x, _ in walk(alt) if x.get("k") == "struct" and x["path"].endswith("StringValidation")]
                key = "plain-string-only-if-vacuous#%d" % sum(1 for o in rep.obligations if o["key"].startswith("C05.W4/plain-string-only-if-vacuous#"))
                if not structs:
                    ok = psrc(alt) == "None"
                    R4w.ob("C05.W4", key, ok, "`None` (no validation)" if ok else "alternative `%s` sends a string schema to the unconstrained String without looking at its validation" % psrc(alt)[:60], a.get("sp"))
                    continue
                bad = []
                seen = set()
                for fname, fp in structs[0]["fields"]:
                    seen.add(fname)
                    t = psrc(fp)
                    if fname in ("max_length", "pattern") and t != "None":
                        bad.append("%s: %s" % (fname, t))
                    if fname == "min_length" and t not in ("None", "Some(0)", "None | Some(0)", "Some(0) | None"):
                        bad.append("%s: %s" % (fname, t))
                if structs[0].get("rest") or not {"max_length", "min_length", "pattern"} <= seen:
                    bad.append("pattern does not name all of max_length, min_length, pattern")
                R4w.ob("C05.W4", key, not bad, "StringValidation{max_length: None, min_length: None, pattern: None}" if not bad else
                       "a string schema with %s becomes the unconstrained `String`: the bound it states is not represented, so values that violate it are accepted by Deserialize, FromStr and TryFrom" % ", ".join(bad), a.get("sp"))
        R4w.floor("C05.W4", "arms yielding the unconstrained String", n_plain, 1)

    # W5: the string filter reads every constraint on every accepting path
    sv = [h for h in c.user_fns() if h["fn"].endswith("StringValidator::is_valid")]
    adt = c.adt("StringValidator")
    if rep.floor("C05.W5", "generator-side string filter and its constraint fields", (1 if sv else 0) + (1 if adt else 0), 2):
        fields = [f["name"] for f in adt["variants"][0]["fields"]]

        def freads(e):
            return {x["name"] for x, _ in walk(e) if x.get("k") == "field" and x["name"] in fields and src(strip_refs(x["e"])) == "self"} if isinstance(e, dict) else set()

        def accept(e):
            """fields certainly read on every path on which `e` is evaluated to an accepting (true) result"""
            if not isinstance(e, dict):
                return set()
            k = e.get("k")
            if k == "bin" and e.get("op") == "And":
                return accept(e["l"]) | accept(e["r"])
            if k == "bin" and e.get("op") == "Or":
                return accept(e["l"]) & (freads(e["l"]) | accept(e["r"]))
            if k == "block":
                got = set()
                stmts = list(e.get("stmts", [])) + ([e["tail"]] if e.get("tail") is not None else [])
                alts = []
                for st in stmts:
                    if st.get("k") == "if" and any(x.get("k") == "ret" for x, _ in walk(st["then"])):
                        # an early answer: what was read so far, the condition, and the returned expression
                        rets = [x for x, _ in walk(st["then"]) if x.get("k") == "ret"]
                        for r_ in rets:
                            alts.append(got | freads(st["cond"]) | accept(r_.get("e") or {}))
                        got = got | freads(st["cond"])
                    elif st.get("k") == "let":
                        got = got | freads(st.get("init") or {})
                    elif st is stmts[-1]:
                        got = got | accept(st)
                    else:
                        got = got | freads(st)
                out = got
                for a_ in alts:
                    out = out & a_
                return out
            if k == "if":
                t = accept(e["then"])
                f_ = accept(e["else"]) if e.get("else") is not None else set()
                return freads(e["cond"]) | (t & f_)
            return freads(e)
        got = accept(sv[0]["body"])
        for f in fields:
            rep.ob("C05.W5", "filter-consults:%s" % f, f in got, "`%s` is consulted on every accepting path" % f if f in got else
                   "the string filter can accept a value without consulting `%s`: an enum value that violates it stays a variant, so Deserialize, FromStr and TryFrom all accept a string the schema rejects" % f, sv[0].get("sp") or c.fns[sv[0]["fn"]].get("sp"))

    # W7: `type: [T, null]` becomes Option<T> where T is converted from the *same* schema with the type narrowed: every other
    # keyword (enum, allOf/oneOf/not, $ref, validations) still constrains T
    from lib import binding_let, Canon
    n7 = 0
    for h7 in c.user_fns():
        for n_, _ in walk(h7["body"]):
            if n_.get("k") in ("call", "mcall") and (n_.get("fn") or "").endswith("TypeSpace::convert_option"):
                for a_ in n_.get("args", []):
                    bl = binding_let(h7, a_)
                    if bl is None:
                        continue
                    for x_, _ in walk(bl.get("init") or {}):
                        if x_.get("k") == "struct" and x_["path"].endswith("schema::SchemaObject") and any(f_[0] == "instance_type" for f_ in x_["fields"]):
                            n7 += 1
                            bt = Canon(c, h7, 3).r(x_.get("base")) if x_.get("base") is not None else ""
                            okb = re.fullmatch(r"\$&?(schemars::schema::)?SchemaObject", bt) is not None
                            extra = sorted({f_[0] for f_ in x_["fields"]} - {"metadata", "instance_type", "enum_values"})
                            rep.ob("C05.W7", "nullable-rewrite-keeps-the-rest:%s" % h7["fn"], okb and not extra,
                                   "the inner schema is the outer one with the type narrowed (and the null enum value / null default removed)" if okb and not extra else
                                   "the inner schema of a `[T, null]` type is built from `%s`%s, not from the schema itself: sibling keywords (allOf / oneOf / not / $ref, validations) are dropped and values they forbid are accepted" % (bt[:90] or "nothing", (" overriding %s" % extra) if extra else ""), x_.get("sp"))
    rep.floor("C05.W7", "rewrites of a nullable type array into Option<T>", n7, 1)

    # W8: `type: [A, B, ..]` is split into one schema per type; each keeps the validation (and format) that belongs to its
    # type - evaluated: the closure that builds the per-type schema is run for each of the seven types with marked inputs
    import minirust as mr8
    cso = [x for x in c.user_fns() if x["fn"].endswith("TypeSpace::convert_schema_object")]
    done8 = False
    if cso:
        h8 = cso[0]
        for n_, anc_ in walk(h8["body"]):
            if not (n_.get("k") == "mcall" and n_["name"] == "map" and n_.get("args") and n_["args"][0].get("k") == "closure"):
                continue
            cl = n_["args"][0]
            if not any(x.get("k") == "struct" and x["path"].endswith("SubschemaValidation") for x, _ in walk(cl["body"])):
                continue
            # the enclosing arm's pattern names the parts of the schema
            names = {}
            for a_ in anc_:
                if a_.get("k") is None and "pat" in a_:
                    for sp_, _ in walk(a_["pat"]):
                        if sp_.get("k") == "struct" and sp_["path"].endswith("SchemaObject"):
                            for fname, fp in sp_["fields"]:
                                if fp.get("k") == "bind":
                                    names[fname] = fp["name"]
            need = {"String": ("string", "format"), "Number": ("number", "format"), "Integer": ("number", "format"), "Object": ("object",), "Array": ("array",), "Null": (), "Boolean": ()}
            # the schema itself (a helper may read the parts from it instead of from the pattern's bindings)
            sparam = None
            for i8, t8 in enumerate(c.fns[h8["fn"]]["inputs"]):
                if t8.replace("&", "").replace("'a ", "").strip().endswith("schema::SchemaObject") and i8 < len(h8.get("params", [])) and h8["params"][i8].get("k") == "bind":
                    sparam = h8["params"][i8]["name"]
            mach8 = mr8.Machine(c)
            bad8 = None
            try:
                for T, req in need.items():
                    marks = {k_: mr8.some(("mark", k_)) for k_ in ("format", "number", "string", "array", "object")}
                    init8 = {names[k_]: marks[k_] for k_ in marks if k_ in names}
                    if sparam:
                        init8[sparam] = ("struct", "SchemaObject", dict(marks, metadata=mr8.NONE, instance_type=mr8.NONE, enum_values=mr8.NONE, const_value=mr8.NONE, subschemas=mr8.NONE, reference=mr8.NONE, extensions=("map", {})))
                    env8 = mr8.Env(init=init8)
                    mach8.fuel = 50000
                    r_ = mach8.apply(("closure", cl, env8), [("ctor", T, [])])
                    inner = None
                    for x_ in _walk_values(r_):
                        if isinstance(x_, tuple) and len(x_) == 3 and x_[0] == "struct" and x_[1] == "SchemaObject" and "instance_type" in x_[2]:
                            inner = x_[2]
                    if inner is None:
                        bad8 = "no per-type schema is built for `%s`" % T.lower()
                        break
                    for k_ in req:
                        if inner.get(k_) != mr8.some(("mark", k_)):
                            bad8 = "the schema built for the `%s` member of a type array does not carry the schema's `%s` validation: values that violate it are accepted by that alternative" % (T.lower(), k_)
                            break
                    if bad8:
                        break
            except mr8.Unknown as e_:
                rep.info("C05.W8 not evaluable (%s)" % e_)
                continue
            done8 = True
            rep.ob("C05.W8", "per-type-schema-keeps-its-validation", bad8 is None, "evaluated for the seven types: string keeps string+format, number/integer keep number+format, object/array keep theirs" if bad8 is None else bad8, cl.get("sp") or n_.get("sp"))
            break
    rep.floor("C05.W8", "per-type schema builder of a type array (evaluated)", 1 if done8 else 0, 1)

    # W6: aliases wrap the referenced type itself
    from lib import Canon
    n6 = 0
    for hh in c.user_fns():
        cn6 = None
        for m, _ in nodes(hh["body"], "match"):
            if m.get("src") != "normal":
                continue
            for a in m["arms"]:
                if [v.split("::")[-1] for v in pat_top_variants(a["pat"])] != ["Reference"]:
                    continue
                calls = [x for x, _ in walk(a["body"]) if x.get("k") == "call" and (x.get("fn") or "").endswith("TypeEntryNewtype::from_metadata")]
                if not calls:
                    continue
                cn6 = cn6 or Canon(c, hh, 4)
                n6 += 1
                ids = [cn6.r(x) for x in calls[0]["args"] if (c.ty(x.get("ty")) or "").endswith("TypeId")]
                ok = len(ids) == 1 and re.fullmatch(r".*~Reference(\.clone\(\))?", ids[0]) is not None and "id_to_entry" not in ids[0].split("~Reference")[-1]
                # the projected id must be the Reference's own payload, not something looked up through it
                ok = ok and re.search(r"id_to_entry\.get\([^)]*~Reference", ids[0]) is None
                rep.ob("C05.W6", "alias-wraps-the-referenced-type:%s" % hh["fn"], ok, "newtype over the id the Reference carries" if ok else
                       "an alias definition is built over `%s` instead of the referenced type's own id: the alias sheds the constraints (pattern, length, allow/deny list) of the type it refers to, and offers an unchecked constructor for it" % (ids[0][:140] if ids else "?"), calls[0].get("sp"))
    rep.floor("C05.W6", "alias arms (Reference => newtype)", n6, 1)
