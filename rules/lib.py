"""Shared library for the static rules: fact base access, HIR/MIR helpers,
report / evidence / known-findings protocol."""
import json
import os
import sys
import time

sys.path.insert(0, os.path.dirname(os.path.abspath(__file__)))
import extract  # noqa: E402

VERIF = extract.VERIF
REPO = extract.REPO


# --------------------------------------------------------------------------- facts
class Crate:
    def __init__(self, data):
        self.d = data
        self.name = data["crate"]
        self.types = data["types"]
        self.hir = {}
        for h in data["hir"]:
            self.hir.setdefault(h["fn"], h)
        self.fns = {}
        for f in data["fns"]:
            self.fns.setdefault(f["fn"], f)
        self.mir = {}
        for m in data["mir"]:
            self.mir.setdefault(m["fn"], m)
        self.adts = {a["path"]: a for a in data["adts"]}

    def ty(self, node_or_ix):
        ix = node_or_ix.get("ty") if isinstance(node_or_ix, dict) else node_or_ix
        if ix is None:
            return ""
        return self.types[ix]

    def adt(self, suffix):
        """The unique local ADT whose path ends with ::suffix."""
        c = [a for p, a in self.adts.items() if p == suffix or p.endswith("::" + suffix)]
        if len(c) != 1:
            return None
        return c[0]

    def fn_named(self, suffix, derived=False):
        """HIR records of fns whose qualified name ends with `suffix`."""
        out = []
        for q, h in self.hir.items():
            if h.get("derived") and not derived:
                continue
            if q == suffix or q.endswith("::" + suffix) or q.endswith(suffix):
                out.append(h)
        return out

    def user_fns(self):
        for q, h in self.hir.items():
            if h.get("derived") or h.get("const"):
                continue
            yield h


class Facts:
    def __init__(self, repo=None):
        self.repo = repo or REPO
        self.dir = extract.ensure(self.repo)
        self.crates = {}
        raw = {f: open(os.path.join(self.dir, f)).read() for f in extract.EXPECTED}
        if os.environ.get("VERIF_RENAME_FNS"):
            # metamorphic self-test: rename every private, non-trait fn of the analysed crates (every resolved reference to
            # it) before the facts are read; rules/fnalias.py must map them back, and no verdict may change
            import re as _re
            import fnalias as _fa
            self.renamed_fns = []
            for f in list(raw):
                d0 = json.loads(raw[f])
                mp = {}
                for fn in d0["fns"]:
                    q = fn["fn"]
                    last = q.split("::")[-1]
                    if not fn.get("pub") and not fn.get("derived") and not q.startswith("<") and _re.fullmatch(r"[a-z_][a-z0-9_]*", last) and last != "main":
                        mp[q] = q + "_zz"
                _fa.apply(d0, mp)
                self.renamed_fns += sorted(mp)
                raw[f] = json.dumps(d0)
        import fnalias
        self.aliases = {}
        for f in extract.EXPECTED:
            d = json.loads(raw[f])
            key = d["crate"] + ("-bin" if d["crate_type"] == "bin" else "")
            if not os.environ.get("VERIF_NO_FNALIAS"):
                # a renamed/moved fn is aliased back to the name the rules know (rules/fnalias.py); ambiguous cases are left alone
                d, mp = fnalias.recover(key, d)
                self.aliases.update(mp)
            if not os.environ.get("VERIF_NO_UNEXTRACT"):
                # a helper the baseline does not know is inlined back into its callers (rules/unextract.py)
                import unextract
                d, inl = unextract.undo(key, d)
                self.unextracted = getattr(self, "unextracted", []) + inl
            self.crates[key] = Crate(d)
        self.templates = json.load(open(os.path.join(self.dir, "templates.json")))
        self._tmpl_ix = {}
        for m in self.templates["macros"]:
            self._tmpl_ix["%s:%d:%d" % (m["file"], m["line"], m["col"])] = m
        self.stamp = json.load(open(os.path.join(self.dir, "STAMP")))
        if os.environ.get("VERIF_RENAME_LOCALS"):
            # metamorphic self-test: alpha-rename every local variable (and therefore every template hole) in the
            # fact base; no verdict may change. Never set by the registered checks.
            self._rename_locals(os.environ["VERIF_RENAME_LOCALS"])

    def _rename_locals(self, suffix):
        import re as _re

        import hashlib as _hl

        def f(name):
            if name in ("self", "_"):
                return name
            if suffix == "@opaque":
                # every local gets a meaningless name: a rule that recognises a local by a word in its name loses it
                return "v" + _hl.md5(name.encode()).hexdigest()[:7]
            return name + suffix

        for c in self.crates.values():
            for h in list(c.hir.values()):
                for n, _ in walk(h):
                    k = n.get("k")
                    if k == "bind":
                        n["name"] = f(n["name"])
                    elif k == "path" and n.get("res") == "local":
                        n["path"] = f(n["path"])

        def ren_tt(tt):
            for t in tt:
                if t["t"] == "hole":
                    t["name"] = f(t["name"])
                elif t["t"] in ("group", "rep"):
                    ren_tt(t["body"])

        for m in self.templates["macros"]:
            if "tt" in m and m["name"] in ("quote", "quote_spanned"):
                ren_tt(m["tt"])
                m["text"] = _re.sub(r"# (\w+)", lambda mm: "# " + f(mm.group(1)), m["text"])

    def __getitem__(self, k):
        return self.crates[k]

    @property
    def impl(self):
        return self.crates["typify_impl"]

    def template_at(self, sp):
        return self._tmpl_ix.get(sp)

    def all_crates(self):
        return list(self.crates.values())


# --------------------------------------------------------------------------- tree walking
CHILD_KEYS = (
    "body", "stmts", "tail", "init", "else", "args", "recv", "fields", "base", "scrut", "arms", "guard",
    "cond", "then", "e", "l", "r", "i", "es", "f", "params", "pat", "sub", "pats",
)


def children(n):
    """Direct child nodes (dicts) of a HIR node, in source order as dumped."""
    out = []
    if isinstance(n, dict):
        for k, v in n.items():
            if isinstance(v, dict):
                out.append(v)
            elif isinstance(v, list):
                for x in v:
                    if isinstance(x, dict):
                        out.append(x)
                    elif isinstance(x, list):  # struct fields: [name, expr]
                        for y in x:
                            if isinstance(y, dict):
                                out.append(y)
    return out


def walk(n, anc=()):
    """Pre-order (node, ancestors-tuple) over dict nodes."""
    if isinstance(n, dict):
        yield n, anc
        a2 = anc + (n,)
        for v in n.values():
            if isinstance(v, (dict, list)):
                yield from walk(v, a2)
    elif isinstance(n, list):
        for x in n:
            if isinstance(x, (dict, list)):
                yield from walk(x, anc)


def nodes(n, kind=None, pred=None):
    for x, anc in walk(n):
        if kind is not None and x.get("k") != kind:
            continue
        if pred is not None and not pred(x):
            continue
        yield x, anc


def calls_in(n):
    """All resolved callee names in a subtree (calls, method calls, macro-internal calls)."""
    out = []
    for x, _ in walk(n):
        k = x.get("k")
        if k in ("call", "mcall") and x.get("fn"):
            out.append(x["fn"])
        elif k == "macro":
            out.extend(x.get("calls", []))
    return out


def ends(name, suffix):
    return name == suffix or name.endswith("::" + suffix) or name.endswith(suffix)


def pat_paths(p):
    """All resolved constructor paths mentioned in a pattern tree."""
    out = []
    for x, _ in walk(p):
        if x.get("k") in ("struct", "tstruct", "path") and x.get("path"):
            out.append(x["path"])
    return out


def pat_top_variants(p):
    """Constructor paths at the top of a pattern (through or-patterns / bindings)."""
    k = p.get("k")
    if k == "or":
        out = []
        for q in p["pats"]:
            out.extend(pat_top_variants(q))
        return out
    if k == "bind":
        return pat_top_variants(p["sub"]) if p.get("sub") else ["_"]
    if k in ("struct", "tstruct", "path"):
        return [p["path"]]
    if k == "wild":
        return ["_"]
    if k == "lit":
        return ["lit:" + json.dumps(p.get("v"), sort_keys=True)]
    if k == "tuple":
        return ["tuple"]
    return ["?" + str(k)]


def short(path):
    """Last two segments of a path, for keys: TypeEntryDetails::Box."""
    parts = path.split("::")
    if len(parts) >= 2 and parts[-2][:1].isupper():
        return "::".join(parts[-2:])
    if len(parts) >= 2 and parts[-2].startswith("<"):
        return "::".join(parts[-2:])
    return parts[-1]


def lit_str(n):
    if isinstance(n, dict) and n.get("k") == "lit":
        return n["v"].get("str")
    return None


def strip_refs(n):
    while isinstance(n, dict) and n.get("k") in ("ref",) or (isinstance(n, dict) and n.get("k") == "un" and n.get("op") == "Deref"):
        n = n["e"]
    return n


# --------------------------------------------------------------------------- MIR helpers
class Cfg:
    def __init__(self, body, ignore_cleanup=True):
        self.body = body
        self.blocks = body["blocks"]
        self.n = len(self.blocks)
        self.succ = {}
        for b in self.blocks:
            i = b["bb"]
            t = b["term"]
            if t["k"] == "switch":
                s = [x[1] for x in t["targets"]] + [t["otherwise"]]
            else:
                s = list(t.get("t", []))
            if ignore_cleanup:
                s = [x for x in s if not self.blocks[x].get("cleanup")]
            self.succ[i] = s
        self.pred = {i: [] for i in range(self.n)}
        for i, ss in self.succ.items():
            for x in ss:
                self.pred[x].append(i)

    def reachable(self, start=0, removed=()):
        removed = set(removed)
        seen = set()
        st = [start]
        while st:
            b = st.pop()
            if b in seen or b in removed:
                continue
            seen.add(b)
            st.extend(self.succ[b])
        return seen

    def dominators(self):
        reach = self.reachable()
        dom = {b: set(reach) for b in reach}
        dom[0] = {0}
        changed = True
        order = sorted(reach)
        while changed:
            changed = False
            for b in order:
                if b == 0:
                    continue
                ps = [p for p in self.pred[b] if p in reach]
                if not ps:
                    continue
                new = set.intersection(*(dom[p] for p in ps)) | {b}
                if new != dom[b]:
                    dom[b] = new
                    changed = True
        return dom

    def calls(self):
        for b in self.blocks:
            t = b["term"]
            if t["k"] == "call":
                yield b["bb"], t

    def returns(self):
        return [b["bb"] for b in self.blocks if b["term"]["k"] == "return" and not b.get("cleanup")]


def call_graph(crates):
    """qname -> set of resolved callee qnames (closures attributed separately)."""
    g = {}
    for c in crates:
        for q, m in c.mir.items():
            s = g.setdefault(q, set())
            for b in m["blocks"]:
                t = b["term"]
                if t["k"] == "call":
                    s.add(t["fn"])
                for st in b["stmts"]:
                    if st.get("k") == "agg" and st.get("adt", "").startswith("closure "):
                        s.add(st["adt"][len("closure "):])
    return g


# --------------------------------------------------------------------------- report
def load_known():
    p = os.path.join(VERIF, "known-findings.json")
    try:
        return json.load(open(p))
    except Exception:
        return {"findings": [], "fixed": []}


class Report:
    def __init__(self, pid, tier, explanation, assumptions=None, design_ref=None):
        self.pid = pid
        self.tier = tier
        self.t0 = time.time()
        self.explanation = explanation
        self.assumptions = assumptions or []
        self.obligations = []  # dicts: rule,key,ok,detail,where
        self.samples = []
        self.infos = []
        self.rule_counts = {}
        self.extra = {}

    # an obligation instance: `ok` False => violation
    def ob(self, rule, key, ok, detail="", where=None, nontrivial=True):
        self.obligations.append({"rule": rule, "key": "%s/%s" % (rule, key), "ok": bool(ok), "detail": detail, "where": where, "nontrivial": nontrivial})
        self.rule_counts[rule] = self.rule_counts.get(rule, 0) + 1
        return ok

    def floor(self, rule, what, count, minimum):
        """Fail closed when an anchor is lost or a site count falls below what was confirmed by hand."""
        return self.ob(rule, "anchor:%s" % what, count >= minimum, "found %d %s, floor %d%s" % (count, what, minimum, "" if count >= minimum else " (anchor-lost)"), nontrivial=False)

    def sample(self, obj):
        if len(self.samples) < 12:
            self.samples.append(obj)

    def info(self, text):
        self.infos.append(text)

    def finish(self):
        known = load_known()
        kf = {}
        for f in known.get("findings", []):
            if f.get("property") == self.pid:
                kf[f["key"]] = f
        viol = [o for o in self.obligations if not o["ok"]]
        unlisted = [o for o in viol if o["key"] not in kf]
        listed = [o for o in viol if o["key"] in kf]
        evdir = os.path.join(VERIF, "evidence")
        if os.path.abspath(REPO) != "/repo" or os.environ.get("VERIF_RENAME_LOCALS") or os.environ.get("VERIF_RENAME_FNS"):
            # a scratch copy is being analysed (selftest): never touch the evidence of the real tree
            evdir = os.path.join(extract.CACHE, "evidence-" + os.path.basename(extract.facts_dir()))
        os.makedirs(os.path.join(evdir, "replay"), exist_ok=True)
        seen = set()
        for o in listed:
            if o["key"] in seen:
                continue
            seen.add(o["key"])
            print("KNOWN-FINDING: property=%s %s %s" % (self.pid, o["key"], kf[o["key"]].get("what", o["detail"])))
        replay = os.path.join(evdir, "replay", "%s.json" % self.pid)
        if unlisted:
            json.dump({"property": self.pid, "violations": unlisted, "rerun": "./check %s %s" % (self.pid, self.tier)}, open(replay, "w"), indent=1)
            for o in unlisted:
                print("  violation %s: %s%s" % (o["key"], o["detail"], (" at " + o["where"]) if o.get("where") else ""))
            print("VIOLATION property=%s replay=%s" % (self.pid, replay))
        else:
            try:
                os.remove(replay)
            except OSError:
                pass
        n = len(self.obligations)
        distinct = len({o["key"] for o in self.obligations if o["nontrivial"]})
        ev = {
            "property_id": self.pid,
            "tier": self.tier,
            "seed": int(os.environ.get("VERIF_SEED", "0") or 0),
            "level": "other",
            "coverage": {
                "explanation": self.explanation,
                "evaluations": n,
                "distinct_nontrivial": distinct,
                "obligations": n,
                "discharged": n - len(viol),
                "rule": "one obligation per rule instance (effect site, decision-table cell, template) found in /repo's current source; distinct = distinct instance keys",
                "per_rule": self.rule_counts,
                "known_findings_reported": sorted(seen),
                "samples": self.samples[:12] or [o for o in self.obligations[:5]],
                "info": self.infos[:40],
                "facts": {"repo": self.repo_info()},
                **self.extra,
            },
            "assumptions": self.assumptions,
            "wall_s": round(time.time() - self.t0, 3),
            "violations": len(unlisted),
        }
        json.dump(ev, open(os.path.join(evdir, "%s.json" % self.pid), "w"), indent=1)
        print("[%s %s] %d obligations, %d violated (%d known), %d distinct instances, %.1fs" % (self.pid, self.tier, n, len(viol), len(listed), distinct, time.time() - self.t0))
        return 1 if unlisted else 0

    def repo_info(self):
        try:
            st = json.load(open(os.path.join(extract.facts_dir(), "STAMP")))
            return {"path": st.get("repo"), "tree_hash": st.get("hash")}
        except Exception:
            return {}


# --------------------------------------------------------------------------- field access discipline
MUTATING = {
    "insert", "remove", "entry", "extend", "clear", "retain", "get_mut", "values_mut", "iter_mut", "append", "pop_first",
    "pop_last", "push", "pop", "drain", "truncate", "split_off", "first_entry", "last_entry", "take", "replace", "sort",
    "sort_by", "dedup", "swap", "get_or_insert_with", "remove_entry", "try_insert", "and_modify",
}


def field_accesses(crate, owner_ty_pred, fields=None):
    """Every `<expr of owner type>.field` access in non-derived fns with how it is used:
    ('call', method) | ('assign', op) | ('refmut',) | ('read',)"""
    out = []
    for h in crate.user_fns():
        for n, anc in walk(h["body"]):
            if n.get("k") != "field":
                continue
            if fields is not None and n["name"] not in fields:
                continue
            if not owner_ty_pred(crate.ty(n.get("bty"))):
                continue
            par = anc[-1] if anc else {}
            k = par.get("k")
            how = ("read",)
            if k == "mcall" and par.get("recv") is n:
                how = ("call", par["name"])
            elif k == "ref" and par.get("e") is n:
                how = ("refmut",) if par.get("mut") else ("read",)
                # &mut self.f passed as receiver of a method: look one level up
                if par.get("mut") and len(anc) >= 2 and anc[-2].get("k") == "mcall" and anc[-2].get("recv") is par:
                    how = ("call", anc[-2]["name"])
            elif k == "assign" and par.get("l") is n:
                how = ("assign", "=")
            elif k == "assignop" and par.get("l") is n:
                how = ("assign", par.get("op"))
            out.append({"fn": h["fn"], "field": n["name"], "how": how, "node": n, "parent": par, "anc": anc})
    return out


def is_write(how):
    return how[0] in ("assign", "refmut") or (how[0] == "call" and how[1] in MUTATING)


def contains_node(tree, node):
    for x, _ in walk(tree):
        if x is node:
            return True
    return False


def has_return(tree):
    for x, _ in walk(tree):
        if x.get("k") == "ret":
            return True
        if x.get("k") == "match" and x.get("src") == "try":
            return True
        if x.get("k") == "macro" and x.get("name") in ("panic", "unreachable", "todo", "unimplemented"):
            return True
    return False


# --------------------------------------------------------------------------- compact rendering / outcomes
def src(n, depth=0):
    """Compact source-like rendering of a HIR node (for messages and simple matching)."""
    if n is None:
        return ""
    if isinstance(n, list):
        return ", ".join(src(x, depth + 1) for x in n)
    if not isinstance(n, dict) or depth > 12:
        return "…"
    k = n.get("k")
    if k == "path":
        return n.get("path", "").split("::")[-1] if n.get("res") == "local" else short(n.get("path", ""))
    if k == "lit":
        v = n["v"]
        if "str" in v:
            return json.dumps(v["str"])
        if "char" in v:
            return "'%s'" % v["char"]
        if "bool" in v:
            return "true" if v["bool"] else "false"
        return str(list(v.values())[0])
    if k == "field":
        return "%s.%s" % (src(n["e"], depth + 1), n["name"])
    if k == "mcall":
        return "%s.%s(%s)" % (src(n["recv"], depth + 1), n["name"], src(n.get("args", []), depth + 1))
    if k == "call":
        f = short(n["fn"]) if n.get("fn") else src(n.get("f"), depth + 1)
        return "%s(%s)" % (f, src(n.get("args", []), depth + 1))
    if k == "ref":
        return "&%s%s" % ("mut " if n.get("mut") else "", src(n["e"], depth + 1))
    if k == "un":
        return "%s%s" % ({"Not": "!", "Deref": "*", "Neg": "-"}.get(n.get("op"), n.get("op", "")), src(n["e"], depth + 1))
    if k == "bin":
        return "(%s %s %s)" % (src(n["l"], depth + 1), n["op"], src(n["r"], depth + 1))
    if k == "macro":
        return "%s!(%s)" % (n["name"], src(n.get("args", []), depth + 1))
    if k == "struct":
        return "%s{%s}" % (short(n["path"]), ", ".join("%s: %s" % (f[0], src(f[1], depth + 1)) for f in n.get("fields", [])))
    if k == "block":
        parts = [src(x, depth + 1) for x in n.get("stmts", [])]
        if n.get("tail"):
            parts.append(src(n["tail"], depth + 1))
        return "{ %s }" % "; ".join(parts)
    if k == "ret":
        return "return %s" % src(n.get("e"), depth + 1)
    if k == "let":
        return "let %s = %s" % (psrc(n["pat"]), src(n.get("init"), depth + 1))
    if k == "letx":
        return "let %s = %s" % (psrc(n["pat"]), src(n.get("init"), depth + 1))
    if k == "if":
        return "if %s %s else %s" % (src(n["cond"], depth + 1), src(n["then"], depth + 1), src(n.get("else"), depth + 1))
    if k == "match":
        if n.get("src") == "try":
            inner = n["scrut"].get("args", [None])[0] if n["scrut"].get("k") == "call" else n["scrut"]
            return "%s?" % src(inner, depth + 1)
        return "match %s { %s }" % (src(n["scrut"], depth + 1), " | ".join("%s => %s" % (psrc(a["pat"]), src(a["body"], depth + 1)) for a in n["arms"]))
    if k == "closure":
        return "|%s| %s" % (", ".join(psrc(p) for p in n.get("params", [])), src(n["body"], depth + 1))
    if k == "index":
        return "%s[%s]" % (src(n["e"], depth + 1), src(n["i"], depth + 1))
    if k == "tup":
        return "(%s)" % src(n.get("es", []), depth + 1)
    if k == "array":
        return "[%s]" % src(n.get("es", []), depth + 1)
    if k == "cast":
        return "%s as _" % src(n["e"], depth + 1)
    if k in ("assign", "assignop"):
        return "%s %s %s" % (src(n["l"], depth + 1), n.get("op", "="), src(n["r"], depth + 1))
    if k == "loop":
        return "loop %s" % src(n["body"], depth + 1)
    return "<%s>" % k


def psrc(p):
    if not isinstance(p, dict):
        return "?"
    k = p.get("k")
    if k == "wild":
        return "_"
    if k == "bind":
        return p["name"] + ("@" + psrc(p["sub"]) if p.get("sub") else "")
    if k == "struct":
        return "%s{%s%s}" % (short(p["path"]), ", ".join("%s: %s" % (f[0], psrc(f[1])) for f in p["fields"]), ", .." if p.get("rest") else "")
    if k == "tstruct":
        return "%s(%s%s)" % (short(p["path"]), ", ".join(psrc(x) for x in p["pats"]), ", .." if p.get("rest") else "")
    if k == "path":
        return short(p["path"])
    if k == "or":
        return " | ".join(psrc(x) for x in p["pats"])
    if k == "tuple":
        return "(%s)" % ", ".join(psrc(x) for x in p["pats"])
    if k == "lit":
        v = p["v"]
        if "bool" in v:
            return "true" if v["bool"] else "false"
        return json.dumps(v.get("str")) if "str" in v else str(list(v.values())[0])
    if k == "slice":
        return "[%s]" % ", ".join(psrc(x) for x in p["pats"])
    return "<%s>" % k


def is_none_path(n):
    return isinstance(n, dict) and n.get("k") == "path" and n.get("path", "").endswith("::None")


def is_ret_none(n):
    return isinstance(n, dict) and n.get("k") == "ret" and is_none_path(n.get("e"))


def block_last(n):
    """The value-producing / last node of a block-like body."""
    while isinstance(n, dict) and n.get("k") == "block":
        if n.get("tail") is not None:
            n = n["tail"]
        elif n.get("stmts"):
            n = n["stmts"][-1]
        else:
            return n
    return n


def outcome(body):
    """Classify an arm body: 'ret-none' | 'ret-err' | 'ret' | 'panic' | 'unit' | 'value'."""
    last = block_last(body)
    if not isinstance(last, dict):
        return "unit"
    k = last.get("k")
    if k == "ret":
        e = last.get("e")
        if is_none_path(e):
            return "ret-none"
        if isinstance(e, dict) and e.get("k") == "call" and e.get("fn", "").endswith("::Err"):
            return "ret-err"
        return "ret"
    if k == "macro" and last.get("name") in ("panic", "unreachable", "todo", "unimplemented"):
        return "panic"
    if k == "block" and not last.get("stmts") and last.get("tail") is None:
        return "unit"
    if k == "tup" and not last.get("es"):
        return "unit"
    return "value"


def top_stmts(h):
    b = h["body"]
    if b.get("k") != "block":
        return [b]
    return list(b.get("stmts", [])) + ([b["tail"]] if b.get("tail") is not None else [])


def must_pass_strict(body, pred):
    """must_pass, and no `return` (outside closures) can be executed before the node that satisfies `pred` in a block"""
    if not isinstance(body, dict):
        return False
    if body.get("k") == "block":
        for st in list(body.get("stmts", [])) + ([body["tail"]] if body.get("tail") is not None else []):
            if must_pass_strict(st, pred) if st.get("k") in ("block", "if", "match") else must_pass(st, pred):
                return True
            if any(x.get("k") == "ret" and not any(a.get("k") == "closure" for a in xa) for x, xa in walk(st)) or st.get("k") == "ret":
                return False
        return False
    return must_pass(body, pred)


def must_pass(body, pred):
    """Every path through `body` (a block / if / match / expression, early exits aside) evaluates a node
    satisfying `pred` — the syntactic must-pass-through: a statement of a block, both branches of an if,
    every arm of a match, or the node itself (sub-expressions that are evaluated unconditionally count)."""
    if not isinstance(body, dict):
        return False
    k = body.get("k")
    if pred(body):
        return True
    if k == "block":
        for st in list(body.get("stmts", [])) + ([body["tail"]] if body.get("tail") is not None else []):
            if must_pass(st, pred):
                return True
        return False
    if k == "if":
        if must_pass(body["cond"], pred):
            return True
        return body.get("else") is not None and must_pass(body["then"], pred) and must_pass(body["else"], pred)
    if k == "match":
        if must_pass(body["scrut"], pred):
            return True
        if body.get("src") == "for":
            return False
        return bool(body["arms"]) and all(must_pass(a["body"], pred) or outcome(a["body"]) in ("ret-none", "ret-err", "ret", "panic") for a in body["arms"])
    if k == "let":
        return body.get("init") is not None and must_pass(body["init"], pred)
    if k in ("closure", "loop"):
        return False
    # plain expressions: operands are evaluated unconditionally (short-circuit operators aside)
    if k == "bin" and body.get("op") in ("And", "Or"):
        return must_pass(body["l"], pred)
    for v in body.values():
        if isinstance(v, dict) and must_pass(v, pred):
            return True
        if isinstance(v, list):
            for x in v:
                if isinstance(x, dict) and x.get("k") and must_pass(x, pred):
                    return True
                if isinstance(x, list):
                    for y in x:
                        if isinstance(y, dict) and y.get("k") and must_pass(y, pred):
                            return True
    return False


def plain_arms(m, allow_guard=()):
    """None if the match has one unguarded arm per pattern (guards allowed on the variants named in `allow_guard`), else a
    description of the first offending arm. A rule that tabulates a match by variant name calls this first: a guarded or
    duplicate arm in front of the tabulated one would otherwise be invisible to it."""
    seen = set()
    for a in m["arms"]:
        vs = [v.split("::")[-1] for v in (pat_top_variants(a["pat"]) or ["_"])]
        if a.get("guard") is not None and not any(v in allow_guard for v in vs):
            return "arm `%s` is guarded by `%s`" % (psrc(a["pat"])[:60], src(a["guard"])[:80])
        pk = norm_arm(a)[0]
        for alt in pk.split("|"):
            if alt in seen and alt not in ("_", "$0"):
                return "pattern `%s` has more than one arm" % alt
            seen.add(alt)
    return None


def table_is_plain(rep, rule, what, m, allow_guard=()):
    why = plain_arms(m, allow_guard)
    return rep.ob(rule, "table-arms-plain:%s" % what, why is None, "one unguarded arm per case" if why is None else
                  "the %s table has a guarded or duplicate arm (%s): the case it intercepts is decided outside the table this rule reads" % (what, why), m.get("sp"), nontrivial=False)


def arms_by_variant(m):
    """{variant short name: [arms]} for a match, keeping *every* arm (guarded duplicates included)."""
    out = {}
    for a in m["arms"]:
        vs = pat_top_variants(a["pat"]) or ["_"]
        for v in vs:
            out.setdefault(v.split("::")[-1], []).append(a)
    return out


# --------------------------------------------------------------------------- guard contexts
def guards(anc, node):
    """Conditions under which `node` is evaluated, read off its ancestor chain:
    ('arm', pattern, guard, scrutinee) | ('if'|'else', cond) | ('adaptor', method, receiver) | ('let', name)"""
    out = []
    chain = list(anc) + [node]
    for i, a in enumerate(chain[:-1]):
        child = chain[i + 1]
        k = a.get("k")
        if k is None and "pat" in a and "body" in a:
            if child is a["body"]:
                scrut = ""
                if i > 0 and chain[i - 1].get("k") == "match":
                    scrut = src(chain[i - 1]["scrut"])
                    if chain[i - 1].get("src") in ("for", "try"):
                        continue
                out.append(("arm", psrc(a["pat"]), src(a.get("guard")) if a.get("guard") else "", scrut))
        elif k == "if":
            if child is a["then"]:
                out.append(("if", src(a["cond"])))
            elif child is a.get("else"):
                out.append(("else", src(a["cond"])))
        elif k == "mcall" and isinstance(child, dict) and child.get("k") == "closure" and child is not a.get("recv"):
            out.append(("adaptor", a["name"], src(a["recv"])))
        elif k == "let" and child is a.get("init"):
            names = [b["name"] for b, _ in walk(a["pat"]) if b.get("k") == "bind"]
            out.append(("let", ",".join(names)))
    return out


def gtext(gs, skip_let=True):
    return " & ".join("%s:%s" % (g[0], "|".join(x for x in g[1:] if x)) for g in gs if not (skip_let and g[0] == "let"))


def templates_in(facts, crate, h):
    """(macro node, ancestors, syn template) for every quote! in a fn."""
    out = []
    for n, anc in walk(h["body"]):
        if n.get("k") == "macro" and n["name"] in ("quote", "quote_spanned"):
            out.append((n, anc, facts.template_at(n["sp"])))
    return out


def norm_arm(arm):
    """(pattern, guard, body-last) of a match arm with binder names replaced by $0, $1 .. in order of appearance,
    so that rules do not depend on the names chosen for pattern bindings."""
    import re as _re
    names = []
    for b, _ in walk(arm["pat"]):
        if b.get("k") == "bind" and b["name"] not in names:
            names.append(b["name"])

    def sub(s):
        for i, n in enumerate(names):
            s = _re.sub(r"(?<![\w.])%s(?!\w)" % _re.escape(n), "$%d" % i, s)
        return s

    return (sub(psrc(arm["pat"])).replace(" ", ""), sub(src(arm["guard"])) if arm.get("guard") else "", sub(src(block_last(arm["body"]))))


# --------------------------------------------------------------------------- name-independent rendering
def scope_binding(h, anc, name, before):
    """The in-scope binder of local `name` for a use whose ancestor chain is `anc` (scope-aware, shadowing-aware).
    ('let', let_stmt, tuple_index|None) | ('pat', scrutinee, pattern_node) | ('closure', closure, parent, param_index) | ('param', index) | None"""
    chain = list(anc)
    for i in range(len(chain) - 1, -1, -1):
        a = chain[i]
        child = chain[i + 1] if i + 1 < len(chain) else before
        k = a.get("k")
        if k == "block":
            stmts = a.get("stmts", [])
            ix = len(stmts)
            for j, st in enumerate(stmts):
                if st is child:
                    ix = j
                    break
            for st in reversed(stmts[:ix]):
                if st.get("k") == "let":
                    p = st["pat"]
                    if p.get("k") == "bind" and p["name"] == name:
                        return ("let", st, None)
                    if p.get("k") == "tuple":
                        for ti, pp in enumerate(p["pats"]):
                            if pp.get("k") == "bind" and pp["name"] == name:
                                return ("let", st, ti)
                    if any(b.get("k") == "bind" and b["name"] == name for b, _ in walk(p)):
                        return ("pat", st.get("init"), p)
        elif k == "closure":
            for pi, p in enumerate(a.get("params", [])):
                if any(b.get("k") == "bind" and b["name"] == name for b, _ in walk(p)):
                    return ("closure", a, chain[i - 1] if i > 0 else {}, pi)
        elif k is None and "pat" in a and "body" in a:
            if child is a["body"] or child is a.get("guard"):
                if any(b.get("k") == "bind" and b["name"] == name for b, _ in walk(a["pat"])):
                    m = chain[i - 1] if i > 0 else {}
                    return ("pat", m.get("scrut"), a["pat"])
        elif k == "if" and a["cond"].get("k") == "letx" and child is a["then"]:
            if any(b.get("k") == "bind" and b["name"] == name for b, _ in walk(a["cond"]["pat"])):
                return ("pat", a["cond"]["init"], a["cond"]["pat"])
        elif k == "bin" and a.get("op") == "And" and child is a.get("r"):
            # `let PAT = e && use`
            for x, _ in walk(a.get("l")):
                if x.get("k") == "letx" and any(b.get("k") == "bind" and b["name"] == name for b, _ in walk(x["pat"])):
                    return ("pat", x["init"], x["pat"])
    for pi, p in enumerate(h.get("params", [])):
        if any(b.get("k") == "bind" and b["name"] == name for b, _ in walk(p)):
            return ("param", pi)
    return None


def pat_projection(p, name):
    """Path from the root of a pattern to the binder of `name`: '.field', '.0', '?Variant'."""
    k = p.get("k")
    if k == "bind":
        if p["name"] == name:
            return ""
        if p.get("sub"):
            return pat_projection(p["sub"], name)
        return None
    if k == "struct":
        for fname, fp in p["fields"]:
            r = pat_projection(fp, name)
            if r is not None:
                v = p["path"].split("::")[-1]
                return "~%s.%s%s" % (v, fname, r)
        return None
    if k == "tstruct":
        for i, fp in enumerate(p["pats"]):
            r = pat_projection(fp, name)
            if r is not None:
                v = p["path"].split("::")[-1]
                return "~%s%s%s" % (v, "" if len(p["pats"]) == 1 else ".%d" % i, r)
        return None
    if k in ("tuple", "slice"):
        for i, fp in enumerate(p["pats"]):
            r = pat_projection(fp, name)
            if r is not None:
                return ".%d%s" % (i, r)
        return None
    if k == "or":
        for fp in p["pats"]:
            r = pat_projection(fp, name)
            if r is not None:
                return r
    return None


class Canon:
    """Renders expressions with local variable names replaced by what they are bound to, so that a rule's
    expectation survives renaming of locals, extraction of a `let`, or of a one-expression helper fn."""

    def __init__(self, crate, h, max_depth=5):
        self.c = crate
        self.h = h
        self.max_depth = max_depth
        self.anc = {}
        for n, a in walk(h["body"]):
            self.anc[id(n)] = a

    def ancestors(self, node):
        return self.anc.get(id(node), ())

    def param_name(self, idx):
        f = self.c.fns.get(self.h["fn"], {})
        tys = f.get("inputs", [])
        p = self.h.get("params", [])
        if idx < len(p) and p[idx].get("k") == "bind" and p[idx]["name"] == "self":
            return "self"
        t = tys[idx] if idx < len(tys) else "?"
        t = re_sub_lifetimes(t)
        import re as _re
        t = _re.sub(r"\b(?:[a-z_][a-z0-9_]*::)+", "", t)
        return "$" + t

    def local(self, node, depth, env):
        name = node["path"]
        if env and name in env:
            return env[name]
        b = scope_binding(self.h, self.ancestors(node), name, node)
        if b is None:
            return name
        if b[0] == "param":
            return self.param_name(b[1])
        if depth >= self.max_depth:
            import re as _re
            return "$" + _re.sub(r"\b(?:[a-z_][a-z0-9_]*::)+", "", re_sub_lifetimes(self.c.ty(node.get("ty")) or name)).replace("&", "")
        if b[0] == "let":
            init = b[1].get("init")
            if init is not None and b[2] is None and src(init) in ("Vec::new()", "Vec<T>::new()", "vec!()"):
                # a vector filled by pushes: what is pushed is what it holds
                pushed = []
                for x, xa in walk(self.h["body"]):
                    if x.get("k") == "mcall" and x["name"] == "push" and x.get("args") and isinstance(x["recv"], dict):
                        rv = strip_refs(x["recv"])
                        if rv.get("k") == "path" and rv.get("res") == "local" and rv["path"] == name:
                            bb = scope_binding(self.h, self.ancestors(rv), name, rv)
                            if bb and bb[0] == "let" and bb[1] is b[1]:
                                pushed.append(self.r(x["args"][0], depth + 1, env))
                return "vec[%s]" % " | ".join(pushed)
            s = self.r(init, depth + 1, env)
            return "%s%s" % (s, "" if b[2] is None else ".%d" % b[2])
        if b[0] == "pat":
            proj = pat_projection(b[2], name)
            return "%s%s" % (self.r(b[1], depth + 1, env), proj if proj is not None else "~?")
        if b[0] == "closure":
            par = b[2]
            proj = pat_projection(b[1]["params"][b[3]], name) or ""
            if par.get("k") == "mcall":
                return "elem<%s>%s" % (self.r(par["recv"], depth + 1, env), proj)
            return "$closure%d%s" % (b[3], proj)
        return name

    def r(self, n, depth=0, env=None):
        if n is None:
            return ""
        if isinstance(n, list):
            return ", ".join(self.r(x, depth, env) for x in n)
        if not isinstance(n, dict):
            return "…"
        k = n.get("k")
        if k == "path" and n.get("res") == "local":
            return self.local(n, depth, env)
        if k == "path":
            return short(n.get("path", ""))
        if k == "lit":
            return src(n)
        if k == "field":
            return "%s.%s" % (self.r(n["e"], depth, env), n["name"])
        if k == "mcall":
            recv = self.r(n["recv"], depth, env)
            if n["name"] in ("clone", "as_ref", "as_str", "as_deref", "to_owned", "borrow") and not n.get("args"):
                return recv
            return "%s.%s(%s)" % (recv, n["name"], self.r(n.get("args", []), depth, env))
        if k == "call":
            fn = n.get("fn")
            # inline one-expression helpers of the same crate
            if fn and fn in self.c.hir and depth < self.max_depth and n.get("res") in ("fn", "assocfn"):
                ch = self.c.hir[fn]
                body = ch.get("body", {})
                pnames = {p.get("name") for p in ch.get("params", []) if p.get("k") == "bind"}
                straight = (getattr(self, "inline_lets", False) or not body.get("stmts")) and all(st.get("k") == "let" and st.get("init") is not None and not any(b.get("k") == "bind" and b["name"] in pnames for b, _ in walk(st["pat"]))
                               for st in body.get("stmts", [])) if body.get("k") == "block" else False
                if body.get("k") == "block" and straight and body.get("tail") is not None and len(ch.get("params", [])) == len(n.get("args", [])):
                    sub = Canon(self.c, ch, self.max_depth)
                    sub.inline_lets = getattr(self, "inline_lets", False)
                    env2 = {}
                    for p, a in zip(ch["params"], n["args"]):
                        if p.get("k") == "bind":
                            env2[p["name"]] = self.r(a, depth + 1, env)
                    if len(env2) == len(ch["params"]):
                        return sub.r(body["tail"], depth + 1, env2)
            if n.get("res") == "local" and isinstance(n.get("f"), dict) and depth < self.max_depth:
                # a call of a closure bound by `let`: its body, with the parameters replaced by the arguments
                fp = strip_refs(n["f"])
                if fp.get("k") == "path" and fp.get("res") == "local" and not (env and fp["path"] in env):
                    b = scope_binding(self.h, self.ancestors(fp), fp["path"], fp)
                    if b and b[0] == "let" and b[2] is None and isinstance(b[1].get("init"), dict) and b[1]["init"].get("k") == "closure":
                        clo = b[1]["init"]
                        ps = clo.get("params", [])
                        if len(ps) == len(n.get("args", [])) and all(p_.get("k") == "bind" for p_ in ps):
                            env2 = dict(env or {})
                            for p_, a_ in zip(ps, n["args"]):
                                env2[p_["name"]] = self.r(a_, depth + 1, env)
                            return self.r(clo["body"], depth + 1, env2)
            f = short(fn) if fn else self.r(n.get("f"), depth, env)
            return "%s(%s)" % (f, self.r(n.get("args", []), depth, env))
        if k == "ref":
            return self.r(n["e"], depth, env)
        if k == "un":
            if n.get("op") == "Deref":
                return self.r(n["e"], depth, env)
            return "%s%s" % ({"Not": "!", "Neg": "-"}.get(n.get("op"), n.get("op", "")), self.r(n["e"], depth, env))
        if k == "bin":
            return "(%s %s %s)" % (self.r(n["l"], depth, env), n["op"], self.r(n["r"], depth, env))
        if k == "macro":
            return "%s!(%s)" % (n["name"], self.r(n.get("args", []), depth, env))
        if k == "struct":
            return "%s{%s}" % (short(n["path"]), ", ".join("%s: %s" % (f[0], self.r(f[1], depth, env)) for f in n.get("fields", [])))
        if k == "block":
            parts = [self.r(x, depth, env) for x in n.get("stmts", []) if x.get("k") != "let"]
            if n.get("tail") is not None:
                parts.append(self.r(n["tail"], depth, env))
            return "{ %s }" % "; ".join(parts) if len(parts) != 1 else parts[0]
        if k == "ret":
            return "return %s" % self.r(n.get("e"), depth, env)
        if k in ("let",):
            return ""
        if k == "letx":
            return "let %s = %s" % (cpat(n["pat"]), self.r(n.get("init"), depth, env))
        if k == "if":
            return "if %s %s else %s" % (self.r(n["cond"], depth, env), self.r(n["then"], depth, env), self.r(n.get("else"), depth, env))
        if k == "match":
            if n.get("src") == "try":
                inner = n["scrut"].get("args", [None])[0] if n["scrut"].get("k") == "call" else n["scrut"]
                return "%s?" % self.r(inner, depth, env)
            return "match %s { %s }" % (self.r(n["scrut"], depth, env), " | ".join("%s%s => %s" % (cpat(a["pat"]), (" if " + self.r(a["guard"], depth, env)) if a.get("guard") else "", self.r(a["body"], depth, env)) for a in n["arms"]))
        if k == "closure":
            return "|..| %s" % self.r(n["body"], depth, env)
        if k == "index":
            return "%s[%s]" % (self.r(n["e"], depth, env), self.r(n["i"], depth, env))
        if k == "tup":
            return "(%s)" % self.r(n.get("es", []), depth, env)
        if k == "array":
            return "[%s]" % self.r(n.get("es", []), depth, env)
        if k == "cast":
            return self.r(n["e"], depth, env)
        if k in ("assign", "assignop"):
            return "%s %s %s" % (self.r(n["l"], depth, env), n.get("op", "="), self.r(n["r"], depth, env))
        return "<%s>" % k


def cpat(p):
    """Pattern rendering with binder names erased."""
    if not isinstance(p, dict):
        return "?"
    k = p.get("k")
    if k in ("wild", "bind"):
        if k == "bind" and p.get("sub"):
            return cpat(p["sub"])
        return "_"
    if k == "struct":
        return "%s{%s%s}" % (short(p["path"]), ", ".join("%s: %s" % (f[0], cpat(f[1])) for f in p["fields"]), ", .." if p.get("rest") else "")
    if k == "tstruct":
        return "%s(%s)" % (short(p["path"]), ", ".join(cpat(x) for x in p["pats"]))
    if k == "path":
        return short(p["path"])
    if k == "or":
        return " | ".join(cpat(x) for x in p["pats"])
    if k in ("tuple", "slice"):
        return "(%s)" % ", ".join(cpat(x) for x in p["pats"])
    if k == "lit":
        return psrc(p)
    return "<%s>" % k


def re_sub_lifetimes(t):
    import re as _re
    return _re.sub(r"'[a-z_]+ ?", "", t).replace("&mut ", "&mut ").strip()


def option_branch(n):
    """Normalise `if let Some(x) = E {A} else {B}` and `match E { Some(x) => A, None|_ => B }`:
    returns (scrutinee, some_pattern, some_body, none_body) or None."""
    if not isinstance(n, dict):
        return None
    if n.get("k") == "if" and n["cond"].get("k") == "letx":
        p = n["cond"]["pat"]
        if p.get("k") == "tstruct" and p["path"].endswith("::Some"):
            return (n["cond"]["init"], p, n["then"], n.get("else"))
    if n.get("k") == "match" and n.get("src") == "normal":
        some = none = None
        for a in n["arms"]:
            p = a["pat"]
            if p.get("k") == "tstruct" and p["path"].endswith("::Some") and a.get("guard") is None:
                some = a
            elif (p.get("k") == "path" and p["path"].endswith("::None")) or p.get("k") == "wild":
                none = a
        if some is not None and none is not None and len(n["arms"]) == 2:
            return (n["scrut"], some["pat"], some["body"], none["body"])
    return None


def cguards(cn, anc, node, rolemap=None):
    """Like lib.guards but with conditions rendered name-independently (Canon) and let-names mapped to roles."""
    out = []
    chain = list(anc) + [node]
    for i, a in enumerate(chain[:-1]):
        child = chain[i + 1]
        k = a.get("k")
        if k is None and "pat" in a and "body" in a:
            if child is a["body"]:
                scrut = ""
                if i > 0 and chain[i - 1].get("k") == "match":
                    if chain[i - 1].get("src") in ("for", "try"):
                        continue
                    scrut = cn.r(chain[i - 1]["scrut"])
                out.append(("arm", cpat(a["pat"]), cn.r(a.get("guard")) if a.get("guard") else "", scrut))
        elif k == "if":
            if child is a["then"]:
                out.append(("if", cn.r(a["cond"])))
            elif child is a.get("else"):
                out.append(("else", cn.r(a["cond"])))
        elif k == "mcall" and isinstance(child, dict) and child.get("k") == "closure" and child is not a.get("recv"):
            out.append(("adaptor", a["name"], cn.r(a["recv"])))
        elif k == "let" and child is a.get("init"):
            names = [b["name"] for b, _ in walk(a["pat"]) if b.get("k") == "bind"]
            out.append(("let", ",".join((rolemap or {}).get(x, x) for x in names)))
    return out




class PCanon(Canon):
    """Canon with positional parameter names ($P0, $P1, ..), for rules that must tell same-typed parameters apart."""

    def param_name(self, idx):
        return "$P%d" % idx

    def r(self, n, depth=0, env=None):
        t = Canon.r(self, n, depth, env)
        # `match (a, b) { (Some(aa), Some(bb)) => ..` : project the tuple literal
        t = t.replace("($P0, $P1).0", "$P0").replace("($P0, $P1).1", "$P1")
        # `let (x, y) = (e1, e2);` / `match ((a, b), (c, d)) { ((p, q), (r, s)) => ..`: project tuple literals
        return project_tuples(t)


def _anc_index(h):
    ix = h.get("_anc_ix")
    if ix is None:
        ix = {id(n): a for n, a in walk(h["body"])}
        h["_anc_ix"] = ix
    return ix


def binding_let(h, use):
    """the `let` statement a use of a local resolves to (scope- and shadowing-aware), or None"""
    use = strip_refs(use) if isinstance(use, dict) else {}
    if use.get("k") != "path" or use.get("res") != "local":
        return None
    b = scope_binding(h, _anc_index(h).get(id(use), ()), use["path"], use)
    return b[1] if b and b[0] == "let" else None


def alias_root(h, e, depth=0):
    """the local a (possibly re-bound) reference stands for: follows `let x = &y;` / `let x = y;` chains; returns the source
    text of the root expression (a local's name when the chain ends in one)"""
    e0 = strip_refs(e) if isinstance(e, dict) else {}
    if depth < 6 and e0.get("k") == "path" and e0.get("res") == "local":
        b = scope_binding(h, _anc_index(h).get(id(e0), ()), e0["path"], e0)
        if b and b[0] == "let" and b[2] is None and isinstance(b[1].get("init"), dict):
            init = strip_refs(b[1]["init"])
            if init.get("k") == "path" and init.get("res") == "local":
                return alias_root(h, init, depth + 1)
    return src(e0)


def depends_on(h, expr, source, depth=0, seen=None):
    """does the value of `expr` depend (through locals) on `source`? `source` is a closure node (its parameters) or the
    scrutinee node of a `for` loop (the loop's element). Decided on bindings, not on rendered text."""
    if not isinstance(expr, dict) or depth > 8:
        return False
    seen = seen if seen is not None else set()
    anc_ix = _anc_index(h)
    for x, _ in walk(expr):
        if x is source:
            return True
        if x.get("k") == "path" and x.get("res") == "local":
            b = scope_binding(h, anc_ix.get(id(x), ()), x["path"], x)
            if not b:
                continue
            if b[0] == "closure":
                if b[1] is source:
                    return True
                continue
            tgt = b[1]
            if b[0] == "let":
                tgt = b[1].get("init")
            if isinstance(tgt, dict) and id(tgt) not in seen:
                seen.add(id(tgt))
                if tgt is source or depends_on(h, tgt, source, depth + 1, seen):
                    return True
    return False


def param_sources(c, fnq, idx):
    """[(caller hir, argument node)] for parameter `idx` (receiver = 0 for methods) of the crate-local fn `fnq`"""
    out = []
    for hh in c.user_fns():
        for x, _ in walk(hh["body"]):
            if x.get("k") in ("call", "mcall") and x.get("fn") == fnq:
                args = ([x["recv"]] if x.get("k") == "mcall" else []) + list(x.get("args", []))
                if idx < len(args):
                    out.append((hh, args[idx]))
    return out


def dominating_conditions(anc, node):
    """condition expressions that hold (or were tested) on every path reaching `node`: the conditions of the enclosing
    `if`s / guarded arms, and of the early exits (`if C { return/iret/panic }`, `let .. else { exit }`) that precede it in
    an enclosing block"""
    out = []
    chain = list(anc) + [node]
    for i, a in enumerate(chain[:-1]):
        child = chain[i + 1]
        k = a.get("k")
        if k == "if":
            out.append(a["cond"])
        elif k is None and "pat" in a and a.get("guard") is not None and child is a.get("body"):
            out.append(a["guard"])
        elif k == "block":
            for st in list(a.get("stmts", [])) + ([a["tail"]] if a.get("tail") is not None else []):
                if st is child:
                    break
                if st.get("k") == "if" and st.get("else") is None:
                    last = block_last(st["then"])
                    if isinstance(last, dict) and (last.get("k") in ("ret", "iret", "break", "continue") or (last.get("k") == "macro" and last.get("name") in ("panic", "unreachable", "todo"))):
                        out.append(st["cond"])
                if st.get("k") == "let" and st.get("else") is not None and st.get("init") is not None:
                    out.append(st["init"])
                if st.get("k") in ("match", "block"):
                    # an early exit nested in an earlier statement (e.g. inside the one arm of a decided match)
                    for x, xa in walk(st):
                        if x.get("k") == "if" and x.get("else") is None and not any(y.get("k") == "closure" for y in xa):
                            last = block_last(x["then"])
                            if isinstance(last, dict) and last.get("k") in ("ret", "iret"):
                                out.append(x["cond"])
    return out


def uses_of_let(h, let_stmt):
    """every use of a local that resolves to `let_stmt`"""
    out = []
    for n, anc in walk(h["body"]):
        if n.get("k") == "path" and n.get("res") == "local":
            b = scope_binding(h, anc, n["path"], n)
            if b and b[0] == "let" and b[1] is let_stmt:
                out.append(n)
    return out


def neighbour_tests(h):
    """`X.windows(2)` / `X.chunks(2)` iterations in `h` whose closure compares the two members of the pair, with whether `X` was
    sorted earlier in the function (a neighbour comparison finds every equal pair only in sorted data).
    -> [(windows node, receiver text, sorted_before)]"""
    out = []
    stmts = top_stmts(h)

    def top_ix(x):
        for i_, t_ in enumerate(stmts):
            if t_ is x or contains_node(t_, x):
                return i_
        return -1
    for n, anc in walk(h["body"]):
        if n.get("k") == "mcall" and n["name"] in ("windows", "array_windows") and isinstance(n.get("recv"), dict):
            recv = src(strip_refs(n["recv"]))
            sorts = [x for x, _ in walk(h["body"]) if x.get("k") == "mcall" and x["name"].startswith("sort") and isinstance(x.get("recv"), dict) and src(strip_refs(x["recv"])) == recv]
            dedups = [x for x, _ in walk(h["body"]) if x.get("k") == "mcall" and x["name"] == "sorted"]
            out.append((n, recv, any(0 <= top_ix(x) <= top_ix(n) for x in sorts)))
    return out


def project_tuples(t):
    """rewrite `(e0, e1, ..).k` (a projection of a tuple literal) to `ek`, innermost first, until nothing changes"""
    for _ in range(8):
        changed = False
        i = 0
        while i < len(t):
            if t[i] == "(":
                # find the matching close
                depth = 0
                j = i
                parts = []
                start = i + 1
                while j < len(t):
                    ch = t[j]
                    if ch in "([{<" and not (ch == "<" and (j == 0 or not (t[j - 1].isalnum() or t[j - 1] in "_:"))):
                        depth += 1
                    elif ch in ")]}" or (ch == ">" and depth > 1 and t[j - 1] not in "=-"):
                        depth -= 1
                        if depth == 0:
                            break
                    elif ch == "," and depth == 1:
                        parts.append(t[start:j])
                        start = j + 1
                    j += 1
                if j < len(t) and depth == 0 and parts:
                    parts.append(t[start:j])
                    mproj = None
                    if t[j + 1:j + 2] == "." and t[j + 2:j + 3].isdigit() and not t[j + 3:j + 4].isdigit() and (i == 0 or not (t[i - 1].isalnum() or t[i - 1] in "_!>")):
                        mproj = int(t[j + 2])
                    if mproj is not None and mproj < len(parts):
                        rep_ = parts[mproj].strip()
                        t = t[:i] + rep_ + t[j + 3:]
                        changed = True
                        continue
            i += 1
        if not changed:
            break
    return t
