use typify_impl::*;
fn main() {
    let args: Vec<String> = std::env::args().collect();
    let text = std::fs::read_to_string(&args[1]).unwrap();
    let v: serde_json::Value = serde_json::from_str(&text).unwrap();
    let mut settings = TypeSpaceSettings::default();
    if args.iter().any(|a| a == "--builder") { settings.with_struct_builder(true); }
    let mut i = 2;
    while i + 1 < args.len() {
        match args[i].as_str() {
            "--type-mod" => { settings.with_type_mod(&args[i + 1]); }
            "--derive" => { settings.with_derive(args[i + 1].clone()); }
            "--patch" => { let (a, b) = args[i + 1].split_once('=').unwrap(); settings.with_patch(a, TypeSpacePatch::default().with_rename(b)); }
            "--crate" => { // name=rename  (version *): settings.with_crate(name, Any, Some(rename))
                let (a, b) = args[i + 1].split_once('=').unwrap();
                settings.with_crate(a, typify_impl::CrateVers::Any, Some(&b.to_string())); }
            "--convert" => { // every {"type":"string","format":"conv"} schema is converted to the named type
                let so: schemars::schema::SchemaObject = serde_json::from_value(serde_json::json!({"type":"string","format":"conv"})).unwrap();
                settings.with_conversion(so, &args[i + 1], [].into_iter()); }
            "--replace" => { let (a, b) = args[i + 1].split_once('=').unwrap(); settings.with_replacement(a, b, [].into_iter()); }
            _ => {}
        }
        i += 1;
    }
    let mut ts = TypeSpace::new(&settings);
    let r = std::panic::catch_unwind(std::panic::AssertUnwindSafe(|| {
        let root: schemars::schema::RootSchema = serde_json::from_value(v.clone()).unwrap();
        match ts.add_root_schema(root) {
            Ok(_) => {
                println!("ADD: ok");
                println!("{}", ts.to_stream());
                println!("FLAGS: serde_json={} uuid={} chrono={} regress={}", ts.uses_serde_json(), ts.uses_uuid(), ts.uses_chrono(), ts.uses_regress());
                for t in ts.iter_types() {
                    println!("IDENT {}", t.ident());
                    println!("TYPE {} : Display={} FromStr={} Default={} builder={}", t.name(), t.has_impl(TypeSpaceImpl::Display), t.has_impl(TypeSpaceImpl::FromStr), t.has_impl(TypeSpaceImpl::Default), t.builder().is_some());
                }
            }
            Err(e) => println!("ADD: Err({})", e),
        }
    }));
    if r.is_err() { println!("PANIC"); }
}
