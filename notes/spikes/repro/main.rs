use std::panic::{catch_unwind, AssertUnwindSafe};
use typify_impl::*;

fn gen(name: &str, schema: serde_json::Value, settings: TypeSpaceSettings, grep: &[&str]) {
    println!("\n=== {name}");
    let r = catch_unwind(AssertUnwindSafe(|| {
        let root: schemars::schema::RootSchema = serde_json::from_value(schema).unwrap();
        let mut ts = TypeSpace::new(&settings);
        match ts.add_root_schema(root) {
            Err(e) => { println!("add_root_schema Err: {e}"); return; }
            Ok(_) => {}
        }
        let s = ts.to_stream();
        match syn::parse2::<syn::File>(s.clone()) {
            Ok(f) => {
                let txt = prettyplease::unparse(&f);
                for line in txt.lines() {
                    if grep.iter().any(|g| line.contains(g)) { println!("  | {line}"); }
                }
                println!("parse OK; uses_serde_json={} uses_regress={}", ts.uses_serde_json(), ts.uses_regress());
            }
            Err(e) => {
                println!("PARSE FAIL: {e}");
                let t = s.to_string();
                for g in grep { if let Some(i) = t.find(g) { println!("  ctx: {}", &t[i.saturating_sub(80)..(i+120).min(t.len())]); } }
            }
        }
        for t in ts.iter_types() {
            let n = t.name();
            if grep.iter().any(|g| n.contains(g)) {
                println!("  type {n}: Display={} FromStr={} Default={}", t.has_impl(TypeSpaceImpl::Display), t.has_impl(TypeSpaceImpl::FromStr), t.has_impl(TypeSpaceImpl::Default));
            }
        }
    }));
    if let Err(e) = r {
        let msg = e.downcast_ref::<String>().cloned().or_else(|| e.downcast_ref::<&str>().map(|s| s.to_string())).unwrap_or_default();
        println!("PANIC: {}", msg.lines().next().unwrap_or(""));
    }
}

fn main() {
    use serde_json::json;
    std::panic::set_hook(Box::new(|_| {}));
    let d = TypeSpaceSettings::default;
    gen("a untagged two nulls", json!({"definitions": {"E": {"oneOf":[{"type":"null"},{"type":"null"},{"type":"string"},{"type":"integer"}]}}}), d(), &["enum E", "Variant"]);
    gen("m adjacent 1-tuple default", json!({"definitions": {"S": {"type":"object","properties":{"e":{"$ref":"#/definitions/E","default":{"t":"A","c":[1]}}}}, "E": {"oneOf":[{"type":"object","properties":{"t":{"type":"string","enum":["A"]},"c":{"type":"array","items":[{"type":"integer"}],"minItems":1,"maxItems":1}},"required":["t","c"]},{"type":"object","properties":{"t":{"type":"string","enum":["B"]},"c":{"type":"string"}},"required":["t","c"]}]}}}), d(), &["A(", "E::A", "Self::A"]);
    gen("7 colliding defs", json!({"definitions": {"foo": {"type":"object","properties":{"a":{"type":"string"}}}, "Foo": {"type":"object","properties":{"b":{"type":"string"}}}}}), d(), &["pub struct Foo"]);
    gen("k named nullable oneOf", json!({"definitions": {"Foo": {"oneOf":[{"type":"object","properties":{"a":{"type":"string"}}},{"type":"null"}]}}}), d(), &["pub struct Foo"]);
    gen("l lone min -128 / max 255", json!({"definitions": {"S": {"type":"object","properties":{"n":{"type":"integer","minimum":-128},"m":{"type":"integer","maximum":255},"p":{"type":"integer","minimum":0},"q":{"type":"integer","minimum":1}},"required":["n","m","p","q"]}}}), d(), &["pub n", "pub m", "pub p", "pub q"]);
}
