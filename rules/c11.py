"""C11 — string conversions of generated types agree with their wire format (template clauses)."""
import re
from lib import (norm_arm, walk, nodes, ends, src, psrc, outcome, contains_node, pat_top_variants, short, calls_in, block_last,
                 strip_refs, guards, gtext, top_stmts, templates_in)
import emit
import tmplparse as tp

EXPLANATION = (
    "Decides that the string-conversion templates are built from the same IR fields as the serde attributes, not the behaviour "
    "of the natives' own FromStr/Display: (T1) for all-simple enums the Display arms, the FromStr arms and the variant "
    "declaration with its serde rename are generated from one iteration over the variants, pairing `ident_name` with "
    "`raw_name`; the Display literal is `raw_name` itself, only brace-escaped because it is used as a format string; "
    "(T2) every TryFrom<&str|&String|String> delegates to parse(); newtype Display/FromStr delegate to field .0; the "
    "unconstrained string newtype's FromStr is total like its transparent Deserialize; the constrained one shares its FromStr "
    "with Deserialize; (D1) the all-simple impls are offered only for tagged, non-empty, all-Simple enums and the untagged "
    "FromStr/Display only when every variant is a single item whose type has the impl, tried in declaration order."
)
ASSUMPTIONS = ["FromStr/Display of uuid, chrono and std::net types agree with their serde string form"]


def run(facts, rep, tier):
    c = facts.impl
    ems = emit.find_emitters(facts, c)
    if not rep.floor("C11.T1", "item emitters", len(ems), 3):
        return
    ee = ems["enum"]
    simple = [t for t in ee.templates if any("AllSimpleVariants" in g[-1] or "AllSimpleVariants" in " ".join(g) for g in t.guards if g[0] == "adaptor") and t.impls]
    if rep.floor("C11.T1", "all-simple impl template", len(simple), 1):
        t = simple[0]
        disp = [im for im in t.impls if im["trait"] == "::std::fmt::Display"]
        frm = [im for im in t.impls if im["trait"] == "::std::str::FromStr"]
        dtxt = tp.flat(disp[0]["fns"][0]["body"]).replace(" ", "") if disp else ""
        ftxt = tp.flat(frm[0]["fns"][0]["body"]).replace(" ", "") if frm else ""
        md = re.search(r"match\*self\{#\(Self::#(\w+)=>write!\(f,#(\w+)\),\)\*\}", dtxt)
        mf = re.search(r"matchvalue\{#\(#(\w+)=>Ok\(Self::#(\w+)\),\)\*_=>Err\(", ftxt)
        rep.ob("C11.T1", "display-shape", bool(md), "Display: match *self { #(Self::#%s => write!(f, #%s),)* }" % (md.group(1), md.group(2)) if md else "Display body is `%s`" % dtxt[:100], t.sp)
        rep.ob("C11.T1", "fromstr-shape", bool(mf), "FromStr: match value { #(#%s => Ok(Self::#%s),)* _ => Err }" % (mf.group(1), mf.group(2)) if mf else "FromStr body is `%s`" % ftxt[:100], t.sp)
        if md and mf:
            dv, ds = md.group(1), md.group(2)
            fs, fv = mf.group(1), mf.group(2)
            rep.ob("C11.T1", "same-variant-vector", dv == fv, "both sides iterate #%s" % dv if dv == fv else "Display iterates #%s but FromStr #%s" % (dv, fv), t.sp)
            # where the two vectors come from: one unzip of one map over variants
            clo = [a for a in t.anc if a.get("k") == "closure"]
            scope = clo[-1]["body"] if clo else ee.h["body"]
            unz = [n for n, _ in nodes(scope, "let") if n["pat"].get("k") == "tuple" and "unzip()" in src(n.get("init"))]
            ok = False
            detail = "the variant/str vectors are not produced by one unzip"
            if unz:
                names = [p.get("name") for p in unz[0]["pat"]["pats"]]
                init = src(unz[0]["init"])
                m2 = re.search(r"variants\.iter\(\)\.map\(\|(\w+)\| \{ (.*) \}\)\.unzip\(\)", init)
                if m2 and names[0] == dv and names[1] == fs:
                    v = m2.group(1)
                    inner = m2.group(2)
                    ok = ("%s.ident_name.as_ref().unwrap()" % v) in inner and ("&%s.raw_name" % v) in inner and "format_ident!(" in inner
                    detail = "(#%s, #%s) = variants.iter().map(|v| (format_ident!(v.ident_name), &v.raw_name)).unzip()" % (names[0], names[1])
            rep.ob("C11.T1", "idents-and-strings-from-one-iteration", ok, detail, unz[0].get("sp") if unz else None)
            # the Display literal
            if ds == fs:
                rep.ob("C11.T1", "display-literal-is-escaped-raw-name", False, "Display passes the raw JSON string #%s to write! as a *format string*: a value containing `{` or `}` does not compile / prints something else" % ds, t.sp)
            else:
                lets = [n for n, _ in nodes(scope, "let") if n["pat"].get("k") == "bind" and n["pat"]["name"] == ds]
                init = src(lets[0]["init"]) if lets else ""
                ok = init.startswith("%s.iter().map(|" % fs) and ".replace('{', \"{{\").replace('}', \"}}\")" in init and init.count(".replace(") == 2
                rep.ob("C11.T1", "display-literal-is-escaped-raw-name", ok, "#%s = #%s with `{`/`}` doubled (format-string escape only)" % (ds, fs) if ok else "Display prints #%s = `%s`, which is not the raw name (escaped)" % (ds, init[:100]), lets[0].get("sp") if lets else t.sp)
    # variant declaration: rename iff raw != ident, with the raw name
    ov = [h for h in c.user_fns() if h["fn"].endswith("enums::output_variant")]
    if rep.floor("C11.T1", "variant declaration emitter", len(ov), 1):
        h = ov[0]
        lets = {n["pat"]["name"]: n for n, _ in nodes(h["body"], "let") if n["pat"].get("k") == "bind"}
        s_serde = src(lets["serde"]["init"]) if "serde" in lets else ""
        ok = s_serde.startswith("(&variant.raw_name Ne ident_name).then(") and "let s = &variant.raw_name" in s_serde
        rep.ob("C11.T1", "rename-iff-differs-with-raw-name", ok, "#[serde(rename = #s)] with s = &variant.raw_name, emitted iff raw_name != ident_name" if ok else "variant rename is `%s`" % s_serde[:120], lets.get("serde", {}).get("sp"))
        rt = [t for (n, anc, t) in templates_in(facts, c, h) if t and "rename" in t["text"]]
        rep.ob("C11.T1", "rename-template", bool(rt) and rt[0]["text"].replace(" ", "") == "#[serde(rename=#s)]", "template `%s`" % (rt[0]["text"] if rt else "?"))
        rep.ob("C11.T1", "variant-ident-is-ident_name", src(lets["ident_name"]["init"]) == "variant.ident_name.as_ref().unwrap()" and src(lets["variant_name"]["init"]) == "format_ident!(ident_name)", "variant_name = format_ident!(variant.ident_name)")

    # ------------------------------------------------------------ T2
    n_tf = 0
    for kind, e in ems.items():
        for t in e.templates:
            for im in t.impls:
                if re.fullmatch(r"::std::convert::TryFrom<(&str|&String|String|&::std::string::String|::std::string::String)>", im["trait"]) and im["self"] == "#type_name":
                    n_tf += 1
                    bt = tp.flat(im["fns"][0]["body"]).replace(" ", "") if im["fns"] else ""
                    ok = bt == "value.parse()"
                    if not ok:
                        rep.ob("C11.T2", "tryfrom-delegates-to-parse:%s/%s" % (kind, t.sp.split(":")[-2]), False, "TryFrom body `%s` does not delegate to FromStr" % bt, t.sp)
    rep.ob("C11.T2", "tryfrom-delegates-to-parse", n_tf >= 12 and not any(o["key"].startswith("C11.T2/tryfrom-delegates-to-parse:") for o in rep.obligations), "%d TryFrom<string-like> impls, all `value.parse()`" % n_tf)
    ne = ems["newtype"]
    for t in ne.templates:
        arm = t.arm_of("constraints") or ""
        for im in t.impls:
            if im["self"] != "#type_name":
                continue
            body = tp.flat(im["fns"][0]["body"]).replace(" ", "") if im["fns"] else ""
            conds = gtext([g for g in t.conds() if not (g[0] == "arm" and "constraints" in g[3])])
            if im["trait"] == "::std::fmt::Display" and "None" in arm:
                rep.ob("C11.T2", "newtype-display-delegates", body == "self.0.fmt(f)", "Display = self.0.fmt(f)", t.sp)
            if im["trait"] == "::std::str::FromStr" and "None" in arm:
                if conds.endswith("is_str"):
                    ok = body == "Ok(Self(value.to_string()))" and im["assoc"].get("Err") == "::std::convert::Infallible"
                    rep.ob("C11.T2", "string-newtype-fromstr-total", ok, "FromStr of the plain string newtype is total (Err = Infallible), like its transparent Deserialize" if ok else "FromStr of the plain string newtype is `%s`" % body, t.sp)
                else:
                    rep.ob("C11.T2", "newtype-fromstr-delegates", body == "Ok(Self(value.parse()?))", "FromStr = Ok(Self(value.parse()?))", t.sp)
            if im["trait"] == "::std::str::FromStr" and "String" in arm:
                # shared with Deserialize: checked in C05.T3 too
                des = [i2 for t2 in ne.templates if (t2.arm_of("constraints") or "") == arm for i2 in t2.impls if i2["trait"].startswith("::serde::Deserialize<")]
                dbody = tp.flat(des[0]["fns"][0]["body"]).replace(" ", "") if des else ""
                ok = bool(des) and dbody.startswith("::std::string::String::deserialize(deserializer)?.parse()")
                rep.ob("C11.T2", "constrained-fromstr-shared-with-deserialize", ok, "Deserialize = String::deserialize(..)?.parse()" if ok else "constrained string newtype: Deserialize does not go through FromStr", t.sp)
                rep.ob("C11.T2", "constrained-fromstr-keeps-value", body.endswith("Ok(Self(value.to_string()))"), "FromStr stores the string unchanged")
    # inner-type delegation conditions
    s = src(ne.h["body"])
    rep.ob("C11.T2", "delegating-impls-need-inner-impl", "(inner_type.has_impl(type_space, TypeSpaceImpl::FromStr) And !is_str).then(" in s and "inner_type.has_impl(type_space, TypeSpaceImpl::Display).then(" in s, "delegating FromStr/Display are emitted only when the inner type has the impl")

    # ------------------------------------------------------------ D1
    fin = [h for h in c.user_fns() if h["fn"].endswith("TypeEntryEnum::finalize")]
    if rep.floor("C11.D1", "TypeEntryEnum::finalize", len(fin), 1):
        s = src(fin[0]["body"])
        flagn = [n for n, _ in nodes(fin[0]["body"], "mcall") if n["name"] in ("then_some", "then") and "AllSimpleVariants" in src(n["args"])]
        cond = src(flagn[0]["recv"]) if flagn else ""
        want = "(((self.tag_type Ne EnumTagType::Untagged) And !self.variants.is_empty()) And self.variants.iter().all(|variant| match variant.details { VariantDetails::Simple => true | _ => false }))"
        rep.ob("C11.D1", "all-simple-flag", cond.replace("&", "") == want, "AllSimpleVariants ⇔ tagged ∧ non-empty ∧ every variant Simple" if cond.replace("&", "") == want else "the AllSimpleVariants flag is computed as `%s`" % cond[:200], flagn[0].get("sp") if flagn else None)
        for tr, flag in (("FromStr", "UntaggedFromStr"), ("Display", "UntaggedDisplay")):
            m = re.search(r"untagged_newtype_variants\(type_space, &self\.tag_type, &self\.variants, TypeSpaceImpl::%s\)\.then_some\(TypeEntryEnumImpl::%s\)" % (tr, flag), s)
            rep.ob("C11.D1", "untagged-flag:%s" % tr, bool(m), "%s ⇔ untagged_newtype_variants(.., %s)" % (flag, tr))
    un = [h for h in c.user_fns() if h["fn"].endswith("untagged_newtype_variants")]
    if rep.floor("C11.D1", "untagged_newtype_variants", len(un), 1):
        s = src(un[0]["body"])
        ok = s.startswith("{ ((tag_type Eq &EnumTagType::Untagged) And variants.iter().all(") and "VariantDetails::Item(type_id) => Some(type_id) | _ => None" in s and "type_entry.has_impl(type_space, req_impl)" in s and "|| false" in s
        rep.ob("C11.D1", "untagged-needs-all-items-with-impl", ok, "untagged ∧ every variant is Item(t) with t.has_impl(req)" if ok else "predicate is `%s`" % s[:160])
    for flag, trait in (("UntaggedFromStr", "::std::str::FromStr"), ("UntaggedDisplay", "::std::fmt::Display")):
        ts = [t for t in ee.templates if any(flag in " ".join(g) for g in t.guards if g[0] == "adaptor") and t.impls]
        if rep.floor("C11.D1", "template under %s" % flag, len(ts), 1):
            t = ts[0]
            clo = [a for a in t.anc if a.get("k") == "closure"]
            lets = [n for n, _ in nodes(clo[-1]["body"], "let") if n["pat"].get("k") == "bind" and n["pat"]["name"] == "variant_name"]
            init = src(lets[0]["init"]) if lets else ""
            ok = init.startswith("variants.iter().map(|variant| format_ident!(") and "rev()" not in init and "sort" not in init
            rep.ob("C11.D1", "declaration-order:%s" % flag, ok, "variants are tried/printed in declaration order (variants.iter())" if ok else "variant order differs: %s" % init[:100], t.sp)
            im = [i for i in t.impls if i["trait"] == trait]
            body = tp.flat(im[0]["fns"][0]["body"]).replace(" ", "") if im else ""
            if flag == "UntaggedFromStr":
                ok = body.startswith("#(ifletOk(v)=value.parse(){Ok(Self::#variant_name(v))}else)*{Err(")
            else:
                ok = body == "matchself{#(Self::#variant_name(x)=>x.fmt(f),)*}"
            rep.ob("C11.D1", "untagged-body:%s" % flag, ok, "body delegates to each variant's own impl" if ok else "body is `%s`" % body[:120], t.sp)
