"""Light-weight structural reader for quote! token trees (as dumped by engines/tmpl).

Enough Rust item syntax to answer the T-rules' questions: which `impl Trait for Type`
blocks a template contains, their fns and bodies; struct/enum declarations with their
visibility, attributes and fields; where each `#hole` sits.
"""


def flat(tt, sep=" "):
    """Token tree -> normalised text; holes as #name, repetitions as #( .. )sep*."""
    out = []
    glue = False
    for t in tt:
        k = t["t"]
        if k == "punct" and glue and out:
            out[-1] = out[-1] + t["s"]
            glue = bool(t.get("joint"))
            continue
        glue = False
        if k in ("ident", "lit"):
            out.append(t["s"])
        elif k == "punct":
            out.append(t["s"])
            glue = bool(t.get("joint"))
        elif k == "hole":
            out.append("#" + t["name"])
        elif k == "group":
            d = t["d"]
            close = {"(": ")", "{": "}", "[": "]", "": ""}[d]
            out.append(d + sep + flat(t["body"]) + sep + close if t["body"] else d + close)
        elif k == "rep":
            out.append("#(" + sep + flat(t["body"]) + sep + ")" + (t.get("sep") or "") + "*")
    return sep.join(x for x in out if x != "")


def squash(s):
    """Remove spaces between path/punctuation tokens for comparisons: ':: std :: fmt' -> '::std::fmt'."""
    import re
    s = re.sub(r"\s*::\s*", "::", s)
    s = re.sub(r"\s*<\s*", "<", s)
    s = re.sub(r"\s*>\s*", ">", s)
    s = re.sub(r"\s*,\s*", ", ", s)
    s = re.sub(r"&\s+", "&", s)
    s = re.sub(r"#\s+", "#", s)
    return s.strip()


def holes(tt, depth_rep=0):
    """(name, line, col, in_repetition) for every hole, recursively."""
    out = []
    for t in tt:
        k = t["t"]
        if k == "hole":
            out.append((t["name"], t["line"], t["col"], depth_rep > 0))
        elif k == "group":
            out.extend(holes(t["body"], depth_rep))
        elif k == "rep":
            out.extend(holes(t["body"], depth_rep + 1))
    return out


def _is(t, kind, s=None):
    return t["t"] == kind and (s is None or t.get("s") == s)


def split_items(tt):
    """Split an item-position token list into items (best effort)."""
    items = []
    i = 0
    n = len(tt)
    attrs = []
    while i < n:
        t = tt[i]
        # outer attribute  # [ ... ]   (a '#' punct followed by a bracket group)
        if _is(t, "punct", "#") and i + 1 < n and tt[i + 1]["t"] == "group" and tt[i + 1]["d"] == "[":
            attrs.append(tt[i + 1]["body"])
            i += 2
            continue
        if t["t"] == "hole":
            items.append({"kind": "hole", "name": t["name"], "attrs": attrs})
            attrs = []
            i += 1
            continue
        if t["t"] == "rep":
            sub = split_items(t["body"])
            items.append({"kind": "rep", "items": sub, "attrs": attrs, "raw": t["body"]})
            attrs = []
            i += 1
            continue
        # visibility
        vis = ""
        j = i
        if _is(tt[j], "ident", "pub"):
            vis = "pub"
            j += 1
            if j < n and tt[j]["t"] == "group" and tt[j]["d"] == "(":
                vis = "pub(" + flat(tt[j]["body"]) + ")"
                j += 1
        if j >= n:
            break
        kw = tt[j].get("s") if tt[j]["t"] == "ident" else None
        if kw == "impl":
            # header up to the brace group
            k = j + 1
            while k < n and not (tt[k]["t"] == "group" and tt[k]["d"] == "{"):
                k += 1
            header = tt[j + 1:k]
            body = tt[k]["body"] if k < n else []
            items.append(_impl(header, body, attrs))
            attrs = []
            i = k + 1
            continue
        if kw in ("struct", "enum", "union"):
            name_t = tt[j + 1] if j + 1 < n else None
            k = j + 2
            generics = []
            while k < n and not (tt[k]["t"] == "group" and tt[k]["d"] in ("{", "(")) and not _is(tt[k], "punct", ";"):
                generics.append(tt[k])
                k += 1
            body = None
            tuple_struct = False
            if k < n and tt[k]["t"] == "group":
                body = tt[k]["body"]
                tuple_struct = tt[k]["d"] == "("
                k += 1
            if k < n and _is(tt[k], "punct", ";"):
                k += 1
            items.append({"kind": kw, "vis": vis, "name": ("#" + name_t["name"]) if name_t and name_t["t"] == "hole" else (name_t or {}).get("s"),
                          "tuple": tuple_struct, "body": body or [], "attrs": attrs})
            attrs = []
            i = k
            continue
        if kw == "fn":
            f, k = _fn(tt, j, vis)
            f["attrs"] = attrs
            attrs = []
            items.append(f)
            i = k
            continue
        if kw == "mod":
            k = j + 2
            body = tt[k]["body"] if k < n and tt[k]["t"] == "group" else []
            items.append({"kind": "mod", "vis": vis, "name": tt[j + 1].get("s"), "items": split_items(body), "attrs": attrs})
            attrs = []
            i = k + 1
            continue
        if kw in ("type", "const", "use", "static"):
            k = j
            while k < n and not _is(tt[k], "punct", ";"):
                k += 1
            items.append({"kind": kw, "vis": vis, "text": flat(tt[j:k]), "attrs": attrs})
            attrs = []
            i = k + 1
            continue
        # unknown token at item level
        items.append({"kind": "other", "text": flat([t]), "attrs": attrs})
        attrs = []
        i += 1
    if attrs:
        items.append({"kind": "dangling-attrs", "attrs": attrs})
    return items


def _impl(header, body, attrs):
    # optional generics directly after `impl`
    h = list(header)
    generics = ""
    if h and _is(h[0], "punct", "<"):
        depth = 0
        k = 0
        for k, t in enumerate(h):
            if _is(t, "punct", "<"):
                depth += 1
            elif _is(t, "punct", ">"):
                depth -= 1
                if depth == 0:
                    break
        generics = flat(h[:k + 1])
        h = h[k + 1:]
    # split at top-level `for` (not inside <>)
    depth = 0
    fpos = None
    for k, t in enumerate(h):
        if _is(t, "punct", "<"):
            depth += 1
        elif _is(t, "punct", ">") and not (k > 0 and _is(h[k - 1], "punct", "-")):
            depth -= 1
        elif _is(t, "ident", "for") and depth == 0:
            fpos = k
            break
    if fpos is None:
        trait = ""
        selfty = h
    else:
        trait = squash(flat(h[:fpos]))
        selfty = h[fpos + 1:]
    # cut a where clause off the self type
    for k, t in enumerate(selfty):
        if _is(t, "ident", "where"):
            selfty = selfty[:k]
            break
    fns = []
    assoc = {}
    inner = []
    i = 0
    n = len(body)
    while i < n:
        t = body[i]
        if t["t"] == "rep":
            for f in _impl("", t["body"], [])["fns"]:
                f["rep"] = True
                fns.append(f)
            i += 1
            continue
        vis = ""
        j = i
        if _is(body[j], "ident", "pub"):
            vis = "pub"
            j += 1
            if j < n and body[j]["t"] == "group" and body[j]["d"] == "(":
                j += 1
        if j < n and _is(body[j], "ident", "fn"):
            f, k = _fn(body, j, vis)
            fns.append(f)
            i = k
            continue
        if j < n and _is(body[j], "ident", "type"):
            k = j
            while k < n and not _is(body[k], "punct", ";"):
                k += 1
            txt = squash(flat(body[j + 1:k]))
            if "=" in txt:
                a, b = txt.split("=", 1)
                assoc[a.strip()] = b.strip()
            i = k + 1
            continue
        inner.append(t)
        i += 1
    return {"kind": "impl", "generics": generics, "trait": trait, "self": squash(flat(selfty)), "fns": fns, "assoc": assoc, "attrs": attrs, "other": inner}


def _fn(tt, j, vis):
    n = len(tt)
    name_t = tt[j + 1] if j + 1 < n else {}
    name = ("#" + name_t["name"]) if name_t.get("t") == "hole" else name_t.get("s")
    k = j + 2
    sig = []
    while k < n and not (tt[k]["t"] == "group" and tt[k]["d"] == "{"):
        sig.append(tt[k])
        k += 1
    body = tt[k]["body"] if k < n else []
    return {"kind": "fn", "vis": vis, "name": name, "sig": squash(flat(sig)), "body": body, "body_text": squash(flat(body))}, k + 1


def find_impls(tt):
    """All impl blocks anywhere at item level of a template (descending into repetitions and mods)."""
    out = []

    def rec(items, rep):
        for it in items:
            if it["kind"] == "impl":
                it2 = dict(it)
                it2["rep"] = rep
                out.append(it2)
            elif it["kind"] == "rep":
                rec(it["items"], True)
            elif it["kind"] == "mod":
                rec(it["items"], rep)

    rec(split_items(tt), False)
    return out


def split_commas(tt):
    """Split a token list at top-level commas."""
    out = [[]]
    depth = 0
    for t in tt:
        if _is(t, "punct", "<"):
            depth += 1
        elif _is(t, "punct", ">"):
            depth = max(0, depth - 1)
        if _is(t, "punct", ",") and depth == 0:
            out.append([])
        else:
            out[-1].append(t)
    return [x for x in out if x]
