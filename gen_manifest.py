#!/usr/bin/env python3
"""Regenerate MANIFEST.json from the rule modules present in rules/."""
import importlib
import json
import os
import sys

HERE = os.path.dirname(os.path.abspath(__file__))
sys.path.insert(0, os.path.join(HERE, "rules"))

ALL = ["C%02d" % i for i in range(1, 20)]
NA = {}  # C04 was not applicable in the design; its structural clauses are claimed since round 3 (DESIGN.md 12.9)

checks = []
na = []
for pid in ALL:
    if pid in NA:
        na.append({"property_id": pid, "reason": NA[pid]})
        continue
    try:
        mod = importlib.import_module(pid.lower())
    except ImportError:
        na.append({"property_id": pid, "reason": "static check not built yet in this revision (planned, see DESIGN.md section 6)"})
        continue
    checks.append({
        "property_id": pid,
        "quick_cmd": "./check %s quick" % pid,
        "thorough_cmd": "./check %s thorough" % pid,
        "evidence_file": "/verif/evidence/%s.json" % pid,
        "replay_cmd_template": "./check %s quick  # report: {path}" % pid,
        "engine": "factdrv+tmpl+rules",
        "level_claimed": {
            "category": "other",
            "text": mod.EXPLANATION,
            "design_ref": "DESIGN.md section 6/%s" % pid,
        },
        "level_note": "Trusted: rustc nightly's HIR/MIR/type information and callee resolution, syn's grammar, quote!'s expansion shape, "
                      "dependency semantics. " + " ".join(getattr(mod, "ASSUMPTIONS", [])),
        "technique": getattr(mod, "TECHNIQUE", "static analysis: custom rules over rustc HIR/MIR facts and syn-parsed quote! templates of /repo's current source"),
    })

manifest = {
    "version": 1,
    "setup_cmd": "./setup.sh",
    "hooks": {
        "guard": "none (no hooks: every rule reads the unmodified source through rustc/syn; no instrumentation is compiled in)",
        "enable": "n/a — checks analyse /repo's working tree as it is",
        "baseline_off_cmd": "cd /repo && cargo test --workspace --no-fail-fast --offline",
        "source_commits": [],
        "add_only": True,
    },
    "engines": [
        {"name": "factdrv", "path": "engines/factdrv", "serves_properties": [c["property_id"] for c in checks],
         "kind_free_text": "rustc_private driver (nightly) injected as RUSTC_WORKSPACE_WRAPPER: dumps ADTs, resolved HIR trees with collapsed macros and typed quote! holes, MIR CFGs with resolved callees"},
        {"name": "tmpl", "path": "engines/tmpl", "serves_properties": [c["property_id"] for c in checks],
         "kind_free_text": "syn 2 extractor of quote!/format_ident! token trees with hole positions; grammar-category parser for instantiated templates"},
        {"name": "rules", "path": "rules", "serves_properties": [c["property_id"] for c in checks],
         "kind_free_text": "Python 3 (stdlib) rule modules: decision-table, template and discipline rules over the fact base; known-findings protocol; evidence writer"},
    ],
    "checks": checks,
    "not_applicable": na,
    "notes": "Single technique family: static analysis of typify's own source. Every check re-extracts facts from /repo's current working tree (keyed by a content hash) and reports a construct in that source. See DESIGN.md.",
}
json.dump(manifest, open(os.path.join(HERE, "MANIFEST.json"), "w"), indent=1)
print("MANIFEST: %d checks, %d not applicable" % (len(checks), len(na)))
