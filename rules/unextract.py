"""Un-extraction of new helper functions.

The rules are anchored in the functions of the tree they were confirmed against (`rules/fn_baseline.json`). The most common
behaviour-preserving edit of such a function is to move part of it into a *new* helper: a match table, a loop, a predicate.
A rule that reads the anchored function then no longer finds what it reads, loses its anchor and fails closed - an alarm on
code where the property holds - or, worse, keeps its anchor and misses what now happens inside the helper.

`undo(key, d)` rewrites the fact base before any rule runs: every function that the baseline does not know (and that
`fnalias` did not recognise as a renamed baseline function) is *inlined at its call sites* in the HIR facts,

    helper(a, b)        ->    { let <param 0> = a; let <param 1> = b; <body of helper> }
    x.helper(a)         ->    { let <self>    = x; let <param 1> = a; <body of helper> }

with the helper's locals renamed apart, its `return`s turned into `iret` (an exit of the inlined block, not of the caller),
and the helper's own HIR entry removed, so the rules see the tree as it was before the extraction: `Canon` resolves the
parameter `let`s to the argument expressions, `walk` finds the helper's matches/templates/calls inside the caller.

Only same-crate, non-recursive, non-trait-impl functions are inlined, innermost helpers first, to a fixed depth. MIR facts are
left alone (the MIR-based rules quantify over all bodies and do not name functions). On the tree the baseline was written
for there is nothing to inline.
"""
import copy
import json
import os

HERE = os.path.dirname(os.path.abspath(__file__))
BASELINE = os.path.join(HERE, "fn_baseline.json")
MAX_ROUNDS = 4
_counter = [0]


def _walk(x):
    if isinstance(x, dict):
        yield x
        for v in x.values():
            if isinstance(v, (dict, list)):
                for y in _walk(v):
                    yield y
    elif isinstance(x, list):
        for v in x:
            for y in _walk(v):
                yield y


def _calls_to(node, names):
    return [n for n in _walk(node) if n.get("k") in ("call", "mcall") and n.get("fn") in names and n.get("res", "fn") in ("fn", "assocfn")]


def _instantiate(h, tag, args):
    """a private copy of the helper's params and body with returns neutralised. Locals keep their names (template holes
    are matched to locals by name): the parameter `let`s are scoped to the inlined block and each initialiser is resolved
    in the scope before its own `let`. Only a parameter whose name occurs in a *later* argument is renamed apart."""
    params = copy.deepcopy(h.get("params", []))
    body = copy.deepcopy(h["body"])
    pnames = []
    for p in params:
        pnames.append([n["name"] for n in _walk(p) if n.get("k") == "bind" and isinstance(n.get("name"), str)])
    clash = set()
    for i, names in enumerate(pnames):
        for a in args[i + 1:]:
            used = {n["path"] for n in _walk(a) if n.get("k") == "path" and n.get("res") == "local"}
            clash |= set(names) & used
    if clash:
        suffix = "__i%d" % tag
        for tree in (params, body):
            for n in _walk(tree):
                k = n.get("k")
                if k == "bind" and n.get("name") in clash:
                    n["name"] = n["name"] + suffix
                elif k == "path" and n.get("res") == "local" and n.get("path") in clash:
                    n["path"] = n["path"] + suffix
    # a `return` of the helper leaves the inlined block, not the caller (returns inside closures are the closure's own)

    def rets(n, in_closure):
        if isinstance(n, dict):
            if n.get("k") == "ret" and not in_closure:
                n["k"] = "iret"
            inc = in_closure or n.get("k") == "closure"
            for v in n.values():
                if isinstance(v, (dict, list)):
                    rets(v, inc)
        elif isinstance(n, list):
            for v in n:
                rets(v, in_closure)
    rets(body, False)
    return params, body


def undo(key, d, baseline=None):
    """-> (d, [names of the helpers that were inlined])"""
    if baseline is None:
        try:
            baseline = json.load(open(BASELINE)).get(key)
        except Exception:
            baseline = None
    if not baseline:
        return d, []
    fns = {f["fn"]: f for f in d["fns"]}
    hir = {h["fn"]: h for h in d["hir"]}
    fresh = set()
    for q, f in fns.items():
        if q in baseline or f.get("derived") or q.startswith("<") or q not in hir or q.endswith("::main"):
            continue
        if "{closure" in q or "{impl" in q.split("::")[-1]:
            continue
        body = hir[q]["body"]
        if _calls_to(body, {q}):
            continue  # directly recursive
        fresh.add(q)
    if not fresh:
        return d, []
    done = []
    for _ in range(MAX_ROUNDS):
        # innermost first: helpers that call no other fresh helper
        leaves = [q for q in fresh if not _calls_to(hir[q]["body"], fresh - {q})]
        if not leaves:
            break
        progressed = False
        for q in leaves:
            h = hir[q]
            sites = 0
            for caller, ch in hir.items():
                if caller == q:
                    continue
                for site in _calls_to(ch["body"], {q}):
                    args = list(site.get("args", []))
                    if site["k"] == "mcall":
                        args = [site["recv"]] + args
                    if len(args) != len(h.get("params", [])):
                        continue
                    _counter[0] += 1
                    params, body = _instantiate(h, _counter[0], args)
                    ptys = list(fns.get(q, {}).get("inputs", [])) + [""] * len(params)
                    stmts = [{"k": "let", "pat": p, "init": a, "sp": site.get("sp"), "param_of": q, "param_ty": ptys[i_]} for i_, (p, a) in enumerate(zip(params, args))]
                    keep = {"ty": site.get("ty"), "sp": site.get("sp")}
                    site.clear()
                    site.update({"k": "block", "stmts": stmts, "tail": body, "inlined": q})
                    site.update({k_: v for k_, v in keep.items() if v is not None})
                    specialise(site)
                    sites += 1
            if sites:
                progressed = True
                done.append(q)
                fresh.discard(q)
                # keep the helper's own record while it is still referred to as a value (`.map(helper)`, a table of fns)
                as_value = any(n.get("k") == "path" and n.get("res") in ("fn", "assocfn") and n.get("path") == q for ch in hir.values() for n in _walk(ch.get("body")))
                if not as_value:
                    del hir[q]
        if not progressed:
            break
    if done:
        for ch in hir.values():
            unwrap_option_helpers(ch.get("body"))
        d["hir"] = [h for h in d["hir"] if h["fn"] in hir]
        d.setdefault("unextracted", []).extend(done)
    return d, done


# --------------------------------------------------------------------------- specialisation of an inlined helper
# A helper shared by several sites usually takes a parameter that says which site it serves (`Some(content)` / `None`, an
# enum variant, a bool). After inlining, that parameter is a `let` whose initialiser is a constructor: matches and ifs on it
# are decided, so the arms that cannot be taken at this site are removed and the bindings of the arm that can are turned
# into `let`s. What remains is the code the site had before the helper was shared.
def _strip(e):
    while isinstance(e, dict) and (e.get("k") == "ref" or (e.get("k") == "un" and e.get("op") == "Deref") or (e.get("k") == "cast")):
        e = e.get("e")
    return e


def _ctor_of(e, env, depth=0):
    """('Name', [arg exprs]) when `e` is (a local bound to) a constructor application / unit variant / bool literal"""
    e = _strip(e)
    if not isinstance(e, dict) or depth > 4:
        return None
    k = e.get("k")
    if k == "path" and e.get("res") == "local":
        init = env.get(e.get("path"))
        return _ctor_of(init, env, depth + 1) if init is not None else None
    if k == "call" and e.get("res") == "ctor":
        return (str(e.get("fn", "")).split("::")[-1], list(e.get("args", [])))
    if k == "path" and e.get("res") == "ctor":
        return (str(e.get("path", "")).split("::")[-1], [])
    if k == "lit" and isinstance(e.get("v"), dict) and "bool" in e["v"]:
        return ("true" if e["v"]["bool"] else "false", [])
    return None


def _pat_vs_ctor(p, ctor):
    """-> ('dead',) | ('keep',) | ('match', [(bind pattern, arg expr)]) for one pattern component against a known constructor"""
    k = p.get("k")
    if k == "wild":
        return ("match", [])
    if k == "bind" and p.get("sub") is None:
        return ("keep",)
    if k == "ref" and isinstance(p.get("pat"), dict):
        return _pat_vs_ctor(p["pat"], ctor)
    name, args = ctor
    if k in ("tstruct", "path", "struct"):
        pn = str(p.get("path", "")).split("::")[-1]
        if pn != name:
            return ("dead",)
        subs = p.get("pats", []) if k == "tstruct" else []
        if k == "struct":
            return ("keep",)
        if len(subs) != len(args):
            return ("keep",) if subs else ("match", [])
        binds = []
        for sp_, a in zip(subs, args):
            if sp_.get("k") == "wild":
                continue
            if sp_.get("k") == "bind" and sp_.get("sub") is None:
                binds.append((sp_, a))
                continue
            return ("keep",)
        return ("match", binds)
    if k == "lit" and isinstance(p.get("v"), dict) and "bool" in p["v"]:
        return ("match", []) if ("true" if p["v"]["bool"] else "false") == name else ("dead",)
    return ("keep",)


def _specialise_match(m, env):
    scrut = _strip(m.get("scrut"))
    if not isinstance(scrut, dict):
        return
    comps = scrut["es"] if scrut.get("k") == "tup" else [scrut]
    known = [_ctor_of(c, env) for c in comps]
    if not any(known):
        return
    arms = []
    for arm in m.get("arms", []):
        pat = arm.get("pat", {})
        pats = pat.get("pats") if (scrut.get("k") == "tup" and pat.get("k") == "tuple" and len(pat.get("pats", [])) == len(comps)) else ([pat] if scrut.get("k") != "tup" else None)
        if pats is None:
            arms.append(arm)
            continue
        dead = False
        lets = []
        newp = list(pats)
        for i, (pp, kc) in enumerate(zip(pats, known)):
            if kc is None:
                continue
            r = _pat_vs_ctor(pp, kc)
            if r[0] == "dead":
                dead = True
                break
            if r[0] == "match":
                newp[i] = {"k": "wild"}
                lets += r[1]
        if dead:
            continue
        if scrut.get("k") == "tup":
            pat["pats"] = newp
        else:
            arm["pat"] = newp[0]
        if lets:
            arm["body"] = {"k": "block", "stmts": [{"k": "let", "pat": b, "init": a} for b, a in lets], "tail": arm["body"], "sp": arm["body"].get("sp") if isinstance(arm["body"], dict) else None}
        arms.append(arm)
    m["arms"] = arms
    m["specialised"] = True


def specialise(block):
    """decide matches / ifs on the constructor-valued parameters of an inlined helper (block = the inlined block)"""
    env = {}
    for st in block.get("stmts", []):
        if st.get("k") == "let" and isinstance(st.get("pat"), dict) and st["pat"].get("k") == "bind" and st.get("init") is not None:
            env[st["pat"]["name"]] = st["init"]
    if not env:
        return
    for n in list(_walk(block.get("tail"))):
        if n.get("k") == "let" and isinstance(n.get("pat"), dict) and n["pat"].get("k") == "bind" and n.get("init") is not None and n["pat"]["name"] not in env:
            # a plain alias / constructor bound inside the helper
            if _ctor_of(n["init"], env) is not None:
                env[n["pat"]["name"]] = n["init"]
    for n in list(_walk(block.get("tail"))):
        if n.get("k") == "match" and n.get("src", "normal") == "normal":
            _specialise_match(n, env)
        elif n.get("k") == "if" and isinstance(n.get("cond"), dict):
            c = n["cond"]
            neg = False
            while c.get("k") == "un" and c.get("op") == "Not":
                neg = not neg
                c = c["e"]
            kc = _ctor_of(c, env) if c.get("k") != "letx" else None
            if kc and kc[0] in ("true", "false"):
                val = (kc[0] == "true") != neg
                chosen = n["then"] if val else (n.get("else") or {"k": "block", "stmts": [], "tail": None})
                n.clear()
                n.update(copy.deepcopy(chosen) if False else chosen)


# --------------------------------------------------------------------------- `if let Some(x) = helper(..)` with an Option-returning helper
# A helper extracted from the head of an if/else usually reads `if <not applicable> { return None } ..; Some(value)` and
# is used as `if let Some(x) = helper(..) { A } else { B }`. After inlining, that is rewritten to the if/else it came
# from:  `if <applicable> { <helper's statements>; let x = value; A } else { B }`.
_FLIP = {"Ne": "Eq", "Eq": "Ne", "Lt": "Ge", "Ge": "Lt", "Gt": "Le", "Le": "Gt"}


def _negate(c):
    if isinstance(c, dict) and c.get("k") == "bin" and c.get("op") in _FLIP:
        d = dict(c)
        d["op"] = _FLIP[c["op"]]
        return d
    if isinstance(c, dict) and c.get("k") == "un" and c.get("op") == "Not":
        return c["e"]
    return {"k": "un", "op": "Not", "e": c}


def _is_none(e):
    e = _strip(e)
    return isinstance(e, dict) and e.get("k") == "path" and str(e.get("path", "")).split("::")[-1] == "None"


def unwrap_option_helpers(tree):
    for n in list(_walk(tree)):
        if n.get("k") != "if" or not isinstance(n.get("cond"), dict) or n["cond"].get("k") != "letx":
            continue
        lx = n["cond"]
        pat = lx.get("pat", {})
        if not (pat.get("k") == "tstruct" and str(pat.get("path", "")).split("::")[-1] == "Some" and len(pat.get("pats", [])) == 1):
            continue
        blk = lx.get("init")
        if not (isinstance(blk, dict) and blk.get("k") == "block" and blk.get("inlined")):
            continue
        body = blk.get("tail")
        if not (isinstance(body, dict) and body.get("k") == "block"):
            continue
        stmts = list(body.get("stmts", []))
        conds = []
        while stmts and stmts[0].get("k") == "if" and stmts[0].get("else") is None:
            th = stmts[0]["then"]
            last = th.get("tail") if th.get("k") == "block" and not th.get("stmts") else (th["stmts"][0] if th.get("k") == "block" and len(th.get("stmts", [])) == 1 and th.get("tail") is None else None)
            if isinstance(last, dict) and last.get("k") == "iret" and _is_none(last.get("e")):
                conds.append(stmts.pop(0)["cond"])
            else:
                break
        tail = body.get("tail")
        if not conds or not (isinstance(tail, dict) and tail.get("k") == "call" and tail.get("res") == "ctor" and str(tail.get("fn", "")).split("::")[-1] == "Some" and len(tail.get("args", [])) == 1):
            continue
        if any(x.get("k") == "iret" for st in stmts for x in _walk(st)):
            continue  # other exits remain: leave it
        cond = _negate(conds[0])
        for c2 in conds[1:]:
            cond = {"k": "bin", "op": "And", "l": cond, "r": _negate(c2)}
        new_then = {"k": "block", "stmts": list(blk.get("stmts", [])) + stmts + [{"k": "let", "pat": pat["pats"][0], "init": tail["args"][0]}], "tail": n["then"], "sp": n["then"].get("sp") if isinstance(n["then"], dict) else None}
        # the condition reads the helper's parameters: give it the same bindings
        n["cond"] = {"k": "block", "stmts": copy.deepcopy(list(blk.get("stmts", []))), "tail": cond, "ty": None} if blk.get("stmts") else cond
        n["then"] = new_then
