#!/usr/bin/env python3
"""debug: run a rule module and print every obligation"""
import sys, importlib
sys.path.insert(0,'/verif/rules')
import lib
pid=sys.argv[1]
mod=importlib.import_module(pid.lower())
f=lib.Facts()
rep=lib.Report(pid,'quick',mod.EXPLANATION)
mod.run(f,rep,sys.argv[2] if len(sys.argv)>2 else 'quick')
for o in rep.obligations:
    if len(sys.argv)>3 and sys.argv[3] not in o['key']: continue
    print('OK ' if o['ok'] else 'BAD', o['key'][:110], '|', o['detail'][:150], '|', o.get('where') or '')
