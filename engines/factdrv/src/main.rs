// factdrv — rustc_private fact extractor for the typify verification rules.
//
// Injected as RUSTC_WORKSPACE_WRAPPER. For every workspace crate whose name is
// listed in FACTDRV_CRATES it writes <FACTDRV_OUT>/<crate>-<lib|bin|...>.json
// containing: adts, statics, fns (signatures), hir (resolved expression trees,
// macro expansions collapsed), mir (CFG with resolved callees).
// Everything is read from the compiler's own data structures for the build's
// real flags; nothing is executed.
#![feature(rustc_private)]
#![allow(clippy::all)]
extern crate rustc_abi;
extern crate rustc_ast;
extern crate rustc_driver;
extern crate rustc_hir;
extern crate rustc_interface;
extern crate rustc_middle;
extern crate rustc_span;

use rustc_driver::Compilation;
use rustc_hir as hir;
use rustc_hir::def::{DefKind, Res};
use rustc_hir::def_id::{DefId, LocalDefId, LOCAL_CRATE};
use rustc_hir::intravisit::{self, Visitor};
use rustc_middle::hir::nested_filter::OnlyBodies;
use rustc_middle::mir::{self, AggregateKind, Operand, Rvalue, StatementKind, TerminatorKind};
use rustc_middle::ty::print::PrintTraitRefExt;
use rustc_middle::ty::{self, Instance, TyCtxt, TypeckResults, TypingEnv};
use rustc_span::hygiene::ExpnKind;
use rustc_span::Span;
use std::collections::{BTreeSet, HashMap};

// ---------------------------------------------------------------- json
enum J {
    Null,
    B(bool),
    N(i64),
    S(String),
    A(Vec<J>),
    O(Vec<(&'static str, J)>),
}
fn s<T: Into<String>>(x: T) -> J {
    J::S(x.into())
}
impl J {
    fn write(&self, out: &mut String) {
        match self {
            J::Null => out.push_str("null"),
            J::B(b) => out.push_str(if *b { "true" } else { "false" }),
            J::N(n) => out.push_str(&n.to_string()),
            J::S(st) => {
                out.push('"');
                for c in st.chars() {
                    match c {
                        '"' => out.push_str("\\\""),
                        '\\' => out.push_str("\\\\"),
                        '\n' => out.push_str("\\n"),
                        '\r' => out.push_str("\\r"),
                        '\t' => out.push_str("\\t"),
                        c if (c as u32) < 0x20 => out.push_str(&format!("\\u{:04x}", c as u32)),
                        c => out.push(c),
                    }
                }
                out.push('"');
            }
            J::A(v) => {
                out.push('[');
                for (i, x) in v.iter().enumerate() {
                    if i > 0 {
                        out.push(',');
                    }
                    x.write(out);
                }
                out.push(']');
            }
            J::O(v) => {
                out.push('{');
                let mut first = true;
                for (k, x) in v.iter() {
                    if matches!(x, J::Null) {
                        continue;
                    }
                    if !first {
                        out.push(',');
                    }
                    first = false;
                    out.push('"');
                    out.push_str(k);
                    out.push_str("\":");
                    x.write(out);
                }
                out.push('}');
            }
        }
    }
}

// macros whose expansion is lowered as ordinary code (tagged with "mac")
const TRANSPARENT: &[&str] = &[
    "matches",
    "assert",
    "assert_eq",
    "assert_ne",
    "debug_assert",
    "debug_assert_eq",
    "debug_assert_ne",
];

// ---------------------------------------------------------------- context
struct Cx<'tcx> {
    tcx: TyCtxt<'tcx>,
    types: Vec<String>,
    type_ix: HashMap<String, usize>,
}

struct MacInfo {
    names: Vec<String>, // innermost first, outermost last
    root: Span,
}

impl<'tcx> Cx<'tcx> {
    fn ty_ix(&mut self, t: String) -> J {
        if let Some(i) = self.type_ix.get(&t) {
            return J::N(*i as i64);
        }
        let i = self.types.len();
        self.types.push(t.clone());
        self.type_ix.insert(t, i);
        J::N(i as i64)
    }

    fn macro_info(&self, mut sp: Span) -> Option<MacInfo> {
        let mut names = Vec::new();
        let mut guard = 0;
        while sp.from_expansion() && guard < 64 {
            guard += 1;
            let ed = sp.ctxt().outer_expn_data();
            if let ExpnKind::Macro(_, name) = ed.kind {
                names.push(name.to_string());
            }
            sp = ed.call_site;
        }
        if names.is_empty() {
            None
        } else {
            Some(MacInfo { names, root: sp })
        }
    }

    fn root_span(&self, mut sp: Span) -> Span {
        let mut guard = 0;
        while sp.from_expansion() && guard < 64 {
            guard += 1;
            sp = sp.ctxt().outer_expn_data().call_site;
        }
        sp
    }

    fn pos(&self, sp: Span) -> String {
        let sp = self.root_span(sp);
        let sm = self.tcx.sess.source_map();
        let loc = sm.lookup_char_pos(sp.lo());
        let name = format!("{}", loc.file.name.prefer_local_unconditionally());
        format!("{}:{}:{}", name, loc.line, loc.col.0 + 1)
    }

    fn end_line(&self, sp: Span) -> i64 {
        let sp = self.root_span(sp);
        let sm = self.tcx.sess.source_map();
        sm.lookup_char_pos(sp.hi()).line as i64
    }

    fn crate_of(&self, did: DefId) -> String {
        self.tcx.crate_name(did.krate).to_string()
    }

    // canonical id: crate + verbose def path
    fn def_id_str(&self, did: DefId) -> String {
        format!("{}{}", self.crate_of(did), self.tcx.def_path(did).to_string_no_crate_verbose())
    }

    // path with crate prefix, for ADTs / variants / free fns
    fn path(&self, did: DefId) -> String {
        let p = ty::print::with_no_trimmed_paths!(self.tcx.def_path_str(did));
        if did.is_local() {
            format!("{}::{}", self.crate_of(did), p)
        } else {
            p
        }
    }

    // qualified name identical for definitions and (resolved) call sites
    fn qname(&self, did: DefId) -> String {
        let tcx = self.tcx;
        let kind = tcx.def_kind(did);
        match kind {
            DefKind::Closure => {
                let parent = tcx.parent(did);
                let key = tcx.def_key(did);
                format!("{}::{{closure#{}}}", self.qname(parent), key.disambiguated_data.disambiguator)
            }
            DefKind::AssocFn | DefKind::AssocConst { .. } | DefKind::AssocTy => {
                let parent = tcx.parent(did);
                let name = tcx.item_name(did);
                match tcx.def_kind(parent) {
                    DefKind::Impl { of_trait } => {
                        let self_ty = ty::print::with_no_trimmed_paths!(tcx
                            .type_of(parent)
                            .instantiate_identity()
                            .skip_norm_wip()
                            .to_string());
                        if of_trait {
                            let tr = tcx.impl_trait_ref(parent).instantiate_identity().skip_norm_wip();
                            let trs = ty::print::with_no_trimmed_paths!(tr.print_only_trait_path().to_string());
                            format!("<{} as {}>::{}", self_ty, trs, name)
                        } else {
                            format!("{}::{}", self_ty, name)
                        }
                    }
                    _ => format!("{}::{}", self.path(parent), name),
                }
            }
            DefKind::Ctor(..) => self.path(tcx.parent(did)),
            _ => self.path(did),
        }
    }

    fn res_str(&self, res: Res) -> (String, String) {
        match res {
            Res::Def(kind, did) => {
                let k = match kind {
                    DefKind::Ctor(..) => "ctor",
                    DefKind::Variant => "variant",
                    DefKind::Struct => "struct",
                    DefKind::Fn => "fn",
                    DefKind::AssocFn => "assocfn",
                    DefKind::Const { .. } | DefKind::AssocConst { .. } => "const",
                    DefKind::Static { .. } => "static",
                    DefKind::Enum => "enum",
                    DefKind::TyAlias => "alias",
                    DefKind::ConstParam => "constparam",
                    _ => "def",
                };
                (k.to_string(), self.qname(did))
            }
            Res::Local(_) => ("local".into(), String::new()),
            Res::SelfCtor(did) => ("selfctor".into(), self.path(did)),
            Res::SelfTyAlias { alias_to, .. } => ("selfty".into(), self.path(alias_to)),
            Res::SelfTyParam { .. } => ("selfty".into(), "Self".into()),
            Res::PrimTy(p) => ("prim".into(), p.name_str().to_string()),
            _ => ("other".into(), String::new()),
        }
    }
}

// ---------------------------------------------------------------- HIR lowering
struct Lower<'a, 'tcx> {
    cx: &'a mut Cx<'tcx>,
    tr: &'tcx TypeckResults<'tcx>,
    owner: LocalDefId,
    locals: HashMap<hir::HirId, String>,
}

impl<'a, 'tcx> Lower<'a, 'tcx> {
    fn tcx(&self) -> TyCtxt<'tcx> {
        self.cx.tcx
    }

    fn ty_of(&mut self, e: &hir::Expr<'tcx>) -> J {
        match self.tr.expr_ty_opt(e) {
            Some(t) => {
                let st = ty::print::with_no_trimmed_paths!(t.to_string());
                self.cx.ty_ix(st)
            }
            None => J::Null,
        }
    }

    fn qpath_res(&self, qp: &hir::QPath<'tcx>, id: hir::HirId) -> Res {
        self.tr.qpath_res(qp, id)
    }

    fn resolve_method(&self, e: &hir::Expr<'tcx>) -> Option<String> {
        let did = self.tr.type_dependent_def_id(e.hir_id)?;
        let tcx = self.tcx();
        if tcx.trait_of_assoc(did).is_some() {
            let args = self.tr.node_args(e.hir_id);
            let tenv = TypingEnv::post_analysis(tcx, self.owner.to_def_id());
            if args.len() != tcx.generics_of(did).count() {
                return Some(self.cx.qname(did));
            }
            if let Ok(Some(inst)) = Instance::try_resolve(tcx, tenv, did, args) {
                return Some(self.cx.qname(inst.def_id()));
            }
        }
        Some(self.cx.qname(did))
    }

    fn resolve_path_call(&self, f: &hir::Expr<'tcx>) -> Option<(String, String)> {
        if let hir::ExprKind::Path(qp) = &f.kind {
            let res = self.qpath_res(qp, f.hir_id);
            if let Res::Def(DefKind::AssocFn | DefKind::Fn, did) = res {
                let tcx = self.tcx();
                if tcx.trait_of_assoc(did).is_some() {
                    let args = self.tr.node_args(f.hir_id);
                    let tenv = TypingEnv::post_analysis(tcx, self.owner.to_def_id());
                    if args.len() != tcx.generics_of(did).count() {
                        let (k, p) = self.cx.res_str(res);
                        return Some((k, p));
                    }
                    if let Ok(Some(inst)) = Instance::try_resolve(tcx, tenv, did, args) {
                        return Some(("fn".into(), self.cx.qname(inst.def_id())));
                    }
                }
            }
            let (k, p) = self.cx.res_str(res);
            return Some((k, p));
        }
        None
    }

    fn pat(&mut self, p: &'tcx hir::Pat<'tcx>) -> J {
        use hir::PatKind as P;
        match &p.kind {
            P::Wild => J::O(vec![("k", s("wild"))]),
            P::Missing => J::O(vec![("k", s("wild"))]),
            P::Binding(_mode, id, ident, sub) => {
                self.locals.insert(*id, ident.to_string());
                J::O(vec![
                    ("k", s("bind")),
                    ("name", s(ident.to_string())),
                    ("sub", sub.map(|sp| self.pat(sp)).unwrap_or(J::Null)),
                ])
            }
            P::Struct(qp, fields, rest) => {
                let res = self.qpath_res(qp, p.hir_id);
                let (_, path) = self.cx.res_str(res);
                let fs = fields
                    .iter()
                    .map(|f| J::A(vec![s(f.ident.to_string()), self.pat(f.pat)]))
                    .collect();
                J::O(vec![
                    ("k", s("struct")),
                    ("path", s(path)),
                    ("fields", J::A(fs)),
                    ("rest", J::B(rest.is_some())),
                ])
            }
            P::TupleStruct(qp, pats, dd) => {
                let res = self.qpath_res(qp, p.hir_id);
                let (_, path) = self.cx.res_str(res);
                let ps = pats.iter().map(|x| self.pat(x)).collect();
                J::O(vec![
                    ("k", s("tstruct")),
                    ("path", s(path)),
                    ("pats", J::A(ps)),
                    ("rest", J::B(dd.as_opt_usize().is_some())),
                ])
            }
            P::Or(pats) => J::O(vec![("k", s("or")), ("pats", J::A(pats.iter().map(|x| self.pat(x)).collect()))]),
            P::Tuple(pats, dd) => J::O(vec![
                ("k", s("tuple")),
                ("pats", J::A(pats.iter().map(|x| self.pat(x)).collect())),
                ("rest", J::B(dd.as_opt_usize().is_some())),
            ]),
            P::Box(x) | P::Deref(x) | P::Ref(x, ..) => self.pat(x),
            P::Expr(pe) => self.pat_expr(pe),
            P::Range(lo, hi, _) => J::O(vec![
                ("k", s("range")),
                ("lo", lo.map(|x| self.pat_expr(x)).unwrap_or(J::Null)),
                ("hi", hi.map(|x| self.pat_expr(x)).unwrap_or(J::Null)),
            ]),
            P::Slice(a, mid, b) => {
                let mut ps: Vec<J> = a.iter().map(|x| self.pat(x)).collect();
                if let Some(m) = mid {
                    ps.push(J::O(vec![("k", s("restpat")), ("sub", self.pat(m))]));
                }
                ps.extend(b.iter().map(|x| self.pat(x)));
                J::O(vec![("k", s("slice")), ("pats", J::A(ps))])
            }
            P::Guard(x, g) => J::O(vec![("k", s("guardpat")), ("sub", self.pat(x)), ("guard", self.expr(g))]),
            _ => J::O(vec![("k", s("otherpat"))]),
        }
    }

    fn pat_expr(&mut self, pe: &'tcx hir::PatExpr<'tcx>) -> J {
        match &pe.kind {
            hir::PatExprKind::Lit { lit, negated } => J::O(vec![
                ("k", s("lit")),
                ("v", self.lit(&lit.node)),
                ("neg", if *negated { J::B(true) } else { J::Null }),
            ]),
            hir::PatExprKind::Path(qp) => {
                let res = self.qpath_res(qp, pe.hir_id);
                let (k, path) = self.cx.res_str(res);
                J::O(vec![("k", s("path")), ("res", s(k)), ("path", s(path))])
            }
            _ => J::O(vec![("k", s("otherpat"))]),
        }
    }

    fn lit(&self, l: &rustc_ast::LitKind) -> J {
        use rustc_ast::LitKind as L;
        match l {
            L::Str(sym, _) => J::O(vec![("str", s(sym.to_string()))]),
            L::Int(v, _) => J::O(vec![("int", s(v.get().to_string()))]),
            L::Bool(b) => J::O(vec![("bool", J::B(*b))]),
            L::Char(c) => J::O(vec![("char", s(c.to_string()))]),
            L::Float(sym, _) => J::O(vec![("float", s(sym.to_string()))]),
            L::Byte(b) => J::O(vec![("int", s(b.to_string()))]),
            _ => J::O(vec![("other", J::B(true))]),
        }
    }

    fn block(&mut self, b: &'tcx hir::Block<'tcx>) -> J {
        let mut stmts = Vec::new();
        for st in b.stmts {
            match &st.kind {
                hir::StmtKind::Let(l) => {
                    let init = l.init.map(|e| self.expr(e)).unwrap_or(J::Null);
                    let els = l.els.map(|b| self.block(b)).unwrap_or(J::Null);
                    let pat = self.pat(l.pat);
                    stmts.push(J::O(vec![
                        ("k", s("let")),
                        ("sp", s(self.cx.pos(st.span))),
                        ("pat", pat),
                        ("init", init),
                        ("else", els),
                    ]));
                }
                hir::StmtKind::Expr(e) | hir::StmtKind::Semi(e) => stmts.push(self.expr(e)),
                hir::StmtKind::Item(_) => {}
            }
        }
        let tail = b.expr.map(|e| self.expr(e)).unwrap_or(J::Null);
        J::O(vec![("k", s("block")), ("stmts", J::A(stmts)), ("tail", tail)])
    }

    fn expr(&mut self, e: &'tcx hir::Expr<'tcx>) -> J {
        if let Some(mi) = self.cx.macro_info(e.span) {
            let outer = mi.names.last().unwrap().clone();
            if !TRANSPARENT.contains(&outer.as_str()) {
                return self.collapse(e, mi);
            }
            let mut j = self.expr_inner(e);
            if let J::O(ref mut v) = j {
                v.push(("mac", s(outer)));
            }
            return j;
        }
        self.expr_inner(e)
    }

    fn collapse(&mut self, e: &'tcx hir::Expr<'tcx>, mi: MacInfo) -> J {
        let ty = self.ty_of(e);
        let site = mi.root;
        let mut col = Collector { lo: self, site, args: Vec::new(), calls: BTreeSet::new(), lits: Vec::new() };
        col.visit_expr(e);
        let Collector { args, calls, lits, .. } = col;
        J::O(vec![
            ("k", s("macro")),
            ("name", s(mi.names.last().unwrap().clone())),
            ("chain", J::A(mi.names.iter().map(|n| s(n.clone())).collect())),
            ("sp", s(self.cx.pos(site))),
            ("ty", ty),
            ("args", J::A(args)),
            ("calls", J::A(calls.into_iter().map(s).collect())),
            ("lits", J::A(lits.into_iter().map(s).collect())),
        ])
    }

    fn expr_inner(&mut self, e: &'tcx hir::Expr<'tcx>) -> J {
        use hir::ExprKind as E;
        let sp = s(self.cx.pos(e.span));
        match &e.kind {
            E::DropTemps(x) | E::Use(x, _) => self.expr(x),
            E::Block(b, _) => self.block(b),
            E::Lit(l) => J::O(vec![("k", s("lit")), ("v", self.lit(&l.node))]),
            E::Path(qp) => {
                let res = self.qpath_res(qp, e.hir_id);
                let (k, mut path) = self.cx.res_str(res);
                if let Res::Local(id) = res {
                    path = self.locals.get(&id).cloned().unwrap_or_else(|| self.tcx().hir_name(id).to_string());
                }
                let ty = self.ty_of(e);
                J::O(vec![("k", s("path")), ("res", s(k)), ("path", s(path)), ("ty", ty), ("sp", sp)])
            }
            E::Call(f, args) => {
                let callee = self.resolve_path_call(f);
                let ty = self.ty_of(e);
                let a: Vec<J> = args.iter().map(|x| self.expr(x)).collect();
                match callee {
                    Some((k, p)) => {
                        // a call of a local (a closure bound by `let`): keep the callee expression
                        let fe = if k == "local" { Some(self.expr(f)) } else { None };
                        let mut o = vec![("k", s("call")), ("res", s(k)), ("fn", s(p)), ("args", J::A(a)), ("ty", ty), ("sp", sp)];
                        if let Some(fe) = fe {
                            o.push(("f", fe));
                        }
                        J::O(o)
                    }
                    None => {
                        let fe = self.expr(f);
                        J::O(vec![("k", s("call")), ("res", s("expr")), ("f", fe), ("args", J::A(a)), ("ty", ty), ("sp", sp)])
                    }
                }
            }
            E::MethodCall(seg, recv, args, _) => {
                let callee = self.resolve_method(e).unwrap_or_default();
                let ty = self.ty_of(e);
                let r = self.expr(recv);
                let a: Vec<J> = args.iter().map(|x| self.expr(x)).collect();
                J::O(vec![
                    ("k", s("mcall")),
                    ("name", s(seg.ident.to_string())),
                    ("fn", s(callee)),
                    ("recv", r),
                    ("args", J::A(a)),
                    ("ty", ty),
                    ("sp", sp),
                ])
            }
            E::Struct(qp, fields, base) => {
                let res = self.qpath_res(qp, e.hir_id);
                let (_, path) = self.cx.res_str(res);
                let fs: Vec<J> = fields.iter().map(|f| J::A(vec![s(f.ident.to_string()), self.expr(f.expr)])).collect();
                let b = match base {
                    hir::StructTailExpr::Base(x) => self.expr(x),
                    _ => J::Null,
                };
                J::O(vec![("k", s("struct")), ("path", s(path)), ("fields", J::A(fs)), ("base", b), ("sp", sp)])
            }
            E::Match(scrut, arms, src) => {
                let sc = self.expr(scrut);
                let scty = self.ty_of(scrut);
                let mut out = Vec::new();
                for arm in arms.iter() {
                    let p = self.pat(arm.pat);
                    let g = arm.guard.map(|g| self.expr(g)).unwrap_or(J::Null);
                    let b = self.expr(arm.body);
                    out.push(J::O(vec![("pat", p), ("guard", g), ("body", b), ("sp", s(self.cx.pos(arm.span)))]));
                }
                let srcs = match src {
                    hir::MatchSource::Normal => "normal",
                    hir::MatchSource::ForLoopDesugar => "for",
                    hir::MatchSource::TryDesugar(_) => "try",
                    hir::MatchSource::AwaitDesugar => "await",
                    hir::MatchSource::Postfix => "postfix",
                    _ => "other",
                };
                J::O(vec![("k", s("match")), ("src", s(srcs)), ("scrut", sc), ("scty", scty), ("arms", J::A(out)), ("sp", sp)])
            }
            E::If(c, t, el) => {
                let cj = self.expr(c);
                let tj = self.expr(t);
                let ej = el.map(|x| self.expr(x)).unwrap_or(J::Null);
                J::O(vec![("k", s("if")), ("cond", cj), ("then", tj), ("else", ej), ("sp", sp)])
            }
            E::Let(l) => {
                let init = self.expr(l.init);
                let scty = self.ty_of(l.init);
                let p = self.pat(l.pat);
                J::O(vec![("k", s("letx")), ("pat", p), ("init", init), ("scty", scty), ("sp", sp)])
            }
            E::Loop(b, _, src, _) => {
                let bj = self.block(b);
                let srcs = match src {
                    hir::LoopSource::Loop => "loop",
                    hir::LoopSource::While => "while",
                    hir::LoopSource::ForLoop => "for",
                };
                J::O(vec![("k", s("loop")), ("src", s(srcs)), ("body", bj)])
            }
            E::Closure(c) => {
                let body = self.tcx().hir_body(c.body);
                let params: Vec<J> = body.params.iter().map(|p| self.pat(p.pat)).collect();
                let bj = self.expr(body.value);
                J::O(vec![
                    ("k", s("closure")),
                    ("id", s(self.cx.qname(c.def_id.to_def_id()))),
                    ("params", J::A(params)),
                    ("body", bj),
                    ("sp", sp),
                ])
            }
            E::Field(x, ident) => {
                let xj = self.expr(x);
                let ty = self.ty_of(e);
                let bty = self.ty_of(x);
                J::O(vec![("k", s("field")), ("e", xj), ("name", s(ident.to_string())), ("ty", ty), ("bty", bty)])
            }
            E::Ret(x) => J::O(vec![("k", s("ret")), ("e", x.map(|x| self.expr(x)).unwrap_or(J::Null)), ("sp", sp)]),
            E::Break(_, x) => J::O(vec![("k", s("break")), ("e", x.map(|x| self.expr(x)).unwrap_or(J::Null))]),
            E::Continue(_) => J::O(vec![("k", s("continue"))]),
            E::Assign(l, r, _) => {
                let lj = self.expr(l);
                let rj = self.expr(r);
                J::O(vec![("k", s("assign")), ("l", lj), ("r", rj), ("sp", sp)])
            }
            E::AssignOp(op, l, r) => {
                let lj = self.expr(l);
                let rj = self.expr(r);
                J::O(vec![("k", s("assignop")), ("op", s(format!("{:?}", op.node))), ("l", lj), ("r", rj), ("sp", sp)])
            }
            E::Binary(op, l, r) => {
                let lj = self.expr(l);
                let rj = self.expr(r);
                J::O(vec![("k", s("bin")), ("op", s(format!("{:?}", op.node))), ("l", lj), ("r", rj)])
            }
            E::Unary(op, x) => {
                let xj = self.expr(x);
                J::O(vec![("k", s("un")), ("op", s(format!("{:?}", op))), ("e", xj)])
            }
            E::AddrOf(_, m, x) => {
                let xj = self.expr(x);
                J::O(vec![("k", s("ref")), ("mut", J::B(m.is_mut())), ("e", xj)])
            }
            E::Index(a, b, _) => {
                let aj = self.expr(a);
                let bj = self.expr(b);
                J::O(vec![("k", s("index")), ("e", aj), ("i", bj)])
            }
            E::Tup(xs) => J::O(vec![("k", s("tup")), ("es", J::A(xs.iter().map(|x| self.expr(x)).collect()))]),
            E::Array(xs) => {
                let ty = self.ty_of(e);
                J::O(vec![("k", s("array")), ("es", J::A(xs.iter().map(|x| self.expr(x)).collect())), ("ty", ty)])
            }
            E::Cast(x, _) => {
                let xj = self.expr(x);
                let ty = self.ty_of(e);
                J::O(vec![("k", s("cast")), ("e", xj), ("ty", ty)])
            }
            E::Type(x, _) => self.expr(x),
            E::Repeat(x, _) => J::O(vec![("k", s("repeat")), ("e", self.expr(x))]),
            E::Become(x) | E::Yield(x, _) => J::O(vec![("k", s("other")), ("es", J::A(vec![self.expr(x)]))]),
            E::ConstBlock(_) | E::InlineAsm(_) | E::OffsetOf(..) | E::Err(_) => J::O(vec![("k", s("other"))]),
            _ => J::O(vec![("k", s("other"))]),
        }
    }
}

struct Collector<'b, 'a, 'tcx> {
    lo: &'b mut Lower<'a, 'tcx>,
    site: Span,
    args: Vec<J>,
    calls: BTreeSet<String>,
    lits: Vec<String>,
}

impl<'b, 'a, 'tcx> Collector<'b, 'a, 'tcx> {
    fn same_site(&self, sp: Span) -> bool {
        match self.lo.cx.macro_info(sp) {
            Some(mi) => mi.root == self.site,
            None => false,
        }
    }
}

impl<'b, 'a, 'tcx> Visitor<'tcx> for Collector<'b, 'a, 'tcx> {
    type NestedFilter = OnlyBodies;
    fn maybe_tcx(&mut self) -> TyCtxt<'tcx> {
        self.lo.cx.tcx
    }
    fn visit_expr(&mut self, x: &'tcx hir::Expr<'tcx>) {
        if !self.same_site(x.span) {
            let j = self.lo.expr(x);
            self.args.push(j);
            return;
        }
        match &x.kind {
            hir::ExprKind::Path(hir::QPath::Resolved(_, p)) => {
                if let Some(seg) = p.segments.last() {
                    if !self.same_site(seg.ident.span) {
                        let res = self.lo.qpath_res(&match &x.kind {
                            hir::ExprKind::Path(qp) => *qp,
                            _ => unreachable!(),
                        }, x.hir_id);
                        let (k, mut path) = self.lo.cx.res_str(res);
                        if let Res::Local(id) = res {
                            path = self.lo.locals.get(&id).cloned().unwrap_or_else(|| seg.ident.to_string());
                        }
                        let ty = self.lo.ty_of(x);
                        let pos = self.lo.cx.pos(seg.ident.span);
                        self.args.push(J::O(vec![
                            ("k", s("path")),
                            ("hole", J::B(true)),
                            ("res", s(k)),
                            ("path", s(path)),
                            ("ty", ty),
                            ("sp", s(pos)),
                        ]));
                        return;
                    }
                }
            }
            hir::ExprKind::Call(f, _) => {
                if let Some((_, p)) = self.lo.resolve_path_call(f) {
                    if !p.is_empty() {
                        self.calls.insert(p);
                    }
                }
            }
            hir::ExprKind::MethodCall(..) => {
                if let Some(p) = self.lo.resolve_method(x) {
                    self.calls.insert(p);
                }
            }
            hir::ExprKind::Lit(l) => {
                if let rustc_ast::LitKind::Str(sym, _) = &l.node {
                    self.lits.push(sym.to_string());
                }
            }
            _ => {}
        }
        intravisit::walk_expr(self, x);
    }
    fn visit_pat(&mut self, p: &'tcx hir::Pat<'tcx>) {
        // keep binding names known for later references
        if let hir::PatKind::Binding(_, id, ident, _) = &p.kind {
            self.lo.locals.insert(*id, ident.to_string());
        }
        intravisit::walk_pat(self, p);
    }
}

// ---------------------------------------------------------------- MIR
fn op_str<'tcx>(o: &Operand<'tcx>) -> String {
    match o {
        Operand::Copy(p) | Operand::Move(p) => format!("{:?}", p),
        Operand::Constant(c) => {
            let st = ty::print::with_no_trimmed_paths!(format!("{}", c.const_));
            format!("const {}", st.chars().take(200).collect::<String>())
        }
        _ => "?".into(),
    }
}

fn mir_body<'tcx>(cx: &mut Cx<'tcx>, did: DefId) -> J {
    let tcx = cx.tcx;
    let body = tcx.optimized_mir(did);
    let tenv = TypingEnv::post_analysis(tcx, did);
    let mut blocks = Vec::new();
    for (bbi, bb) in body.basic_blocks.iter_enumerated() {
        let mut stmts = Vec::new();
        for st in &bb.statements {
            if let StatementKind::Assign(b) = &st.kind {
                let (pl, rv) = &**b;
                let mut o: Vec<(&'static str, J)> = vec![("lhs", s(format!("{:?}", pl)))];
                match rv {
                    Rvalue::Use(x, ..) => {
                        o.push(("k", s("use")));
                        o.push(("a", s(op_str(x))));
                    }
                    Rvalue::Ref(_, bk, p) => {
                        o.push(("k", s("ref")));
                        o.push(("a", s(format!("{:?}", p))));
                        o.push(("mut", J::B(matches!(bk, mir::BorrowKind::Mut { .. }))));
                    }
                    Rvalue::Discriminant(p) => {
                        o.push(("k", s("disc")));
                        o.push(("a", s(format!("{:?}", p))));
                        let t = ty::print::with_no_trimmed_paths!(p.ty(&body.local_decls, tcx).ty.to_string());
                        o.push(("ty", s(t)));
                    }
                    Rvalue::Aggregate(k, ops) => {
                        o.push(("k", s("agg")));
                        let kn = match &**k {
                            AggregateKind::Adt(d, vi, ..) => {
                                let ad = tcx.adt_def(*d);
                                if ad.is_enum() {
                                    format!("{}::{}", cx.path(*d), ad.variant(*vi).name)
                                } else {
                                    cx.path(*d)
                                }
                            }
                            AggregateKind::Tuple => "tuple".into(),
                            AggregateKind::Array(_) => "array".into(),
                            AggregateKind::Closure(d, _) => format!("closure {}", cx.qname(*d)),
                            _ => "other".into(),
                        };
                        o.push(("adt", s(kn)));
                        if let AggregateKind::Adt(d, vi, _, _, _) = &**k {
                            let ad = tcx.adt_def(*d);
                            let names: Vec<J> = ad.variant(*vi).fields.iter().map(|f| s(f.name.to_string())).collect();
                            o.push(("fields", J::A(names)));
                        }
                        o.push(("ops", J::A(ops.iter().map(|x| s(op_str(x))).collect())));
                        o.push(("sp", s(cx.pos(st.source_info.span))));
                        if let Some(mi) = cx.macro_info(st.source_info.span) {
                            o.push(("mac", s(mi.names.last().unwrap().clone())));
                        }
                    }
                    Rvalue::Cast(_, x, t) => {
                        o.push(("k", s("cast")));
                        o.push(("a", s(op_str(x))));
                        o.push(("ty", s(t.to_string())));
                    }
                    Rvalue::BinaryOp(bo, b2) => {
                        o.push(("k", s("bin")));
                        o.push(("op", s(format!("{:?}", bo))));
                        o.push(("a", s(op_str(&b2.0))));
                        o.push(("b", s(op_str(&b2.1))));
                    }
                    Rvalue::UnaryOp(uo, x) => {
                        o.push(("k", s("un")));
                        o.push(("op", s(format!("{:?}", uo))));
                        o.push(("a", s(op_str(x))));
                    }
                    other => {
                        o.push(("k", s("other")));
                        o.push(("a", s(format!("{:?}", other).chars().take(80).collect::<String>())));
                    }
                }
                stmts.push(J::O(o));
            }
        }
        let term = bb.terminator();
        let tj = match &term.kind {
            TerminatorKind::Goto { target } => J::O(vec![("k", s("goto")), ("t", J::A(vec![J::N(target.index() as i64)]))]),
            TerminatorKind::SwitchInt { discr, targets } => {
                let ts: Vec<J> = targets.iter().map(|(v, t)| J::A(vec![s(v.to_string()), J::N(t.index() as i64)])).collect();
                J::O(vec![
                    ("k", s("switch")),
                    ("d", s(op_str(discr))),
                    ("targets", J::A(ts)),
                    ("otherwise", J::N(targets.otherwise().index() as i64)),
                ])
            }
            TerminatorKind::Return => J::O(vec![("k", s("return"))]),
            TerminatorKind::Unreachable => J::O(vec![("k", s("unreachable"))]),
            TerminatorKind::Drop { target, .. } => J::O(vec![("k", s("drop")), ("t", J::A(vec![J::N(target.index() as i64)]))]),
            TerminatorKind::Assert { target, msg, .. } => {
                let m = format!("{:?}", std::mem::discriminant(&**msg));
                let _ = m;
                let kind = match &**msg {
                    mir::AssertKind::BoundsCheck { .. } => "bounds",
                    mir::AssertKind::Overflow(..) => "overflow",
                    mir::AssertKind::OverflowNeg(..) => "overflow",
                    mir::AssertKind::DivisionByZero(..) => "divzero",
                    mir::AssertKind::RemainderByZero(..) => "divzero",
                    _ => "other",
                };
                J::O(vec![
                    ("k", s("assert")),
                    ("kind", s(kind)),
                    ("sp", s(cx.pos(term.source_info.span))),
                    ("t", J::A(vec![J::N(target.index() as i64)])),
                ])
            }
            TerminatorKind::Call { func, args, destination, target, .. } => {
                let mut callee = String::from("<indirect>");
                let mut cid = String::new();
                let mut gargs = String::new();
                let mut resolved = false;
                if let Operand::Constant(c) = func {
                    if let ty::FnDef(cd, ga) = c.const_.ty().kind() {
                        callee = cx.qname(*cd);
                        cid = cx.def_id_str(*cd);
                        gargs = ty::print::with_no_trimmed_paths!(format!("{:?}", ga)).chars().take(300).collect();
                        if let Ok(Some(inst)) = Instance::try_resolve(tcx, tenv, *cd, ga) {
                            callee = cx.qname(inst.def_id());
                            cid = cx.def_id_str(inst.def_id());
                            resolved = true;
                        }
                    }
                }
                let mut o = vec![
                    ("k", s("call")),
                    ("fn", s(callee)),
                    ("cid", s(cid)),
                    ("resolved", J::B(resolved)),
                    ("gargs", s(gargs)),
                    ("args", J::A(args.iter().map(|a| s(op_str(&a.node))).collect())),
                    ("dest", s(format!("{:?}", destination))),
                    ("t", J::A(target.iter().map(|t| J::N(t.index() as i64)).collect())),
                    ("sp", s(cx.pos(term.source_info.span))),
                ];
                if let Some(mi) = cx.macro_info(term.source_info.span) {
                    o.push(("mac", s(mi.names.last().unwrap().clone())));
                    o.push(("chain", J::A(mi.names.iter().map(|n| s(n.clone())).collect())));
                }
                J::O(o)
            }
            other => {
                let succ: Vec<J> = other.successors().map(|t| J::N(t.index() as i64)).collect();
                J::O(vec![("k", s("other")), ("t", J::A(succ))])
            }
        };
        blocks.push(J::O(vec![
            ("bb", J::N(bbi.index() as i64)),
            ("cleanup", if bb.is_cleanup { J::B(true) } else { J::Null }),
            ("stmts", J::A(stmts)),
            ("term", tj),
        ]));
    }
    let mut locals = Vec::new();
    for (_li, l) in body.local_decls.iter_enumerated() {
        let t = ty::print::with_no_trimmed_paths!(l.ty.to_string());
        locals.push(cx.ty_ix(t));
    }
    let mut dbg = Vec::new();
    for v in &body.var_debug_info {
        if let mir::VarDebugInfoContents::Place(p) = &v.value {
            dbg.push(J::A(vec![s(v.name.to_string()), s(format!("{:?}", p))]));
        }
    }
    J::O(vec![
        ("fn", s(cx.qname(did))),
        ("id", s(cx.def_id_str(did))),
        ("argc", J::N(body.arg_count as i64)),
        ("locals", J::A(locals)),
        ("dbg", J::A(dbg)),
        ("blocks", J::A(blocks)),
    ])
}

// ---------------------------------------------------------------- driver
struct Cb;
impl rustc_driver::Callbacks for Cb {
    fn after_analysis<'tcx>(&mut self, _c: &rustc_interface::interface::Compiler, tcx: TyCtxt<'tcx>) -> Compilation {
        let krate = tcx.crate_name(LOCAL_CRATE).to_string();
        let wanted = std::env::var("FACTDRV_CRATES").unwrap_or_default();
        if !wanted.split(',').any(|w| w == krate) {
            return Compilation::Continue;
        }
        let outdir = match std::env::var("FACTDRV_OUT") {
            Ok(d) => d,
            Err(_) => return Compilation::Continue,
        };
        let nonce = std::env::var("FACTDRV_NONCE").unwrap_or_default();
        let crate_types: Vec<String> = tcx.crate_types().iter().map(|t| format!("{:?}", t).to_lowercase()).collect();
        let ctype = if crate_types.iter().any(|t| t.contains("executable")) {
            "bin"
        } else if crate_types.iter().any(|t| t.contains("procmacro") || t.contains("proc")) {
            "lib"
        } else {
            "lib"
        };
        let mut cx = Cx { tcx, types: Vec::new(), type_ix: HashMap::new() };

        // ---- ADTs, statics, impls
        let mut adts = Vec::new();
        let mut statics = Vec::new();
        let mut impls = Vec::new();
        for id in tcx.hir_free_items() {
            let did = id.owner_id.to_def_id();
            match tcx.def_kind(did) {
                DefKind::Struct | DefKind::Enum | DefKind::Union => {
                    let ad = tcx.adt_def(did);
                    let mut variants = Vec::new();
                    for v in ad.variants() {
                        let mut fields = Vec::new();
                        for f in v.fields.iter() {
                            let fty = tcx.type_of(f.did).instantiate_identity().skip_norm_wip();
                            let expanded = tcx.expand_free_alias_tys(fty);
                            let t = ty::print::with_no_trimmed_paths!(expanded.to_string());
                            fields.push(J::O(vec![
                                ("name", s(f.name.to_string())),
                                ("ty", s(t)),
                                ("pub", J::B(tcx.visibility(f.did).is_public())),
                            ]));
                        }
                        variants.push(J::O(vec![
                            ("name", s(v.name.to_string())),
                            ("ctor", s(format!("{:?}", v.ctor_kind()))),
                            ("fields", J::A(fields)),
                        ]));
                    }
                    adts.push(J::O(vec![
                        ("path", s(cx.path(did))),
                        ("kind", s(if ad.is_enum() { "enum" } else { "struct" })),
                        ("pub", J::B(tcx.visibility(did).is_public())),
                        ("sp", s(cx.pos(tcx.def_span(did)))),
                        ("variants", J::A(variants)),
                    ]));
                }
                DefKind::Static { .. } => {
                    let t = tcx.type_of(did).instantiate_identity().skip_norm_wip();
                    let tenv = TypingEnv::post_analysis(tcx, did);
                    statics.push(J::O(vec![
                        ("path", s(cx.path(did))),
                        ("ty", s(ty::print::with_no_trimmed_paths!(t.to_string()))),
                        ("freeze", J::B(t.is_freeze(tcx, tenv))),
                        ("mutable", J::B(tcx.is_mutable_static(did))),
                        ("thread_local", J::B(tcx.is_thread_local_static(did))),
                        ("sp", s(cx.pos(tcx.def_span(did)))),
                    ]));
                }
                DefKind::Impl { of_trait } => {
                    let self_ty = tcx.type_of(did).instantiate_identity().skip_norm_wip();
                    let tr = if of_trait {
                        let r = tcx.impl_trait_ref(did).instantiate_identity().skip_norm_wip();
                        ty::print::with_no_trimmed_paths!(r.print_only_trait_path().to_string())
                    } else {
                        String::new()
                    };
                    impls.push(J::O(vec![
                        ("self", s(ty::print::with_no_trimmed_paths!(self_ty.to_string()))),
                        ("trait", s(tr)),
                        ("derived", J::B(tcx.is_automatically_derived(did))),
                        ("sp", s(cx.pos(tcx.def_span(did)))),
                    ]));
                }
                _ => {}
            }
        }
        // Freeze facts for local ADTs without generics
        let mut freeze = Vec::new();
        for id in tcx.hir_free_items() {
            let did = id.owner_id.to_def_id();
            if matches!(tcx.def_kind(did), DefKind::Struct | DefKind::Enum) && tcx.generics_of(did).own_params.is_empty() {
                let t = tcx.type_of(did).instantiate_identity().skip_norm_wip();
                let tenv = TypingEnv::post_analysis(tcx, did);
                freeze.push(J::A(vec![s(cx.path(did)), J::B(t.is_freeze(tcx, tenv))]));
            }
        }

        // ---- fns: signatures + hir + mir
        let mut fns = Vec::new();
        let mut hirs = Vec::new();
        let mut mirs = Vec::new();
        for def in tcx.hir_body_owners() {
            let did = def.to_def_id();
            let kind = tcx.def_kind(did);
            match kind {
                DefKind::Fn | DefKind::AssocFn => {
                    let sig = tcx.fn_sig(did).instantiate_identity().skip_norm_wip().skip_binder();
                    let inputs: Vec<J> = sig
                        .inputs()
                        .iter()
                        .map(|t| s(ty::print::with_no_trimmed_paths!(t.to_string())))
                        .collect();
                    let output = ty::print::with_no_trimmed_paths!(sig.output().to_string());
                    let parent = tcx.parent(did);
                    let derived = matches!(tcx.def_kind(parent), DefKind::Impl { .. }) && tcx.is_automatically_derived(parent);
                    let body = tcx.hir_body_owned_by(def);
                    let sp = tcx.def_span(did);
                    let full = tcx.hir_span_with_body(tcx.local_def_id_to_hir_id(def));
                    let in_macro = cx.macro_info(sp).map(|m| m.names.last().unwrap().clone());
                    fns.push(J::O(vec![
                        ("fn", s(cx.qname(did))),
                        ("id", s(cx.def_id_str(did))),
                        ("name", s(tcx.item_name(did).to_string())),
                        ("pub", J::B(tcx.visibility(did).is_public())),
                        ("vis", s(format!("{:?}", tcx.visibility(did)))),
                        ("inputs", J::A(inputs)),
                        ("output", s(output)),
                        ("derived", J::B(derived)),
                        ("sp", s(cx.pos(sp))),
                        ("end", J::N(cx.end_line(full))),
                        ("mac", in_macro.map(s).unwrap_or(J::Null)),
                    ]));
                    let tr = tcx.typeck(def);
                    let mut lo = Lower { cx: &mut cx, tr, owner: def, locals: HashMap::new() };
                    let params: Vec<J> = body.params.iter().map(|p| lo.pat(p.pat)).collect();
                    let bj = lo.expr(body.value);
                    hirs.push(J::O(vec![
                        ("fn", s(cx.qname(did))),
                        ("derived", J::B(derived)),
                        ("params", J::A(params)),
                        ("body", bj),
                    ]));
                    mirs.push(mir_body(&mut cx, did));
                }
                DefKind::Closure => {
                    mirs.push(mir_body(&mut cx, did));
                }
                DefKind::Const { .. } | DefKind::Static { .. } | DefKind::AssocConst { .. } => {
                    let body = tcx.hir_body_owned_by(def);
                    let tr = tcx.typeck(def);
                    let mut lo = Lower { cx: &mut cx, tr, owner: def, locals: HashMap::new() };
                    let bj = lo.expr(body.value);
                    hirs.push(J::O(vec![("fn", s(cx.qname(did))), ("const", J::B(true)), ("body", bj)]));
                }
                _ => {}
            }
        }

        let cfgs: Vec<J> = Vec::new();
        let root = J::O(vec![
            ("crate", s(krate.clone())),
            ("crate_type", s(ctype)),
            ("nonce", s(nonce)),
            ("cfgs", J::A(cfgs)),
            ("adts", J::A(adts)),
            ("freeze", J::A(freeze)),
            ("statics", J::A(statics)),
            ("impls", J::A(impls)),
            ("fns", J::A(fns)),
            ("hir", J::A(hirs)),
            ("mir", J::A(mirs)),
            ("types", J::A(cx.types.iter().map(|t| s(t.clone())).collect())),
        ]);
        let mut out = String::new();
        root.write(&mut out);
        std::fs::create_dir_all(&outdir).unwrap();
        let path = format!("{}/{}-{}.json", outdir, krate, ctype);
        let tmp = format!("{}.tmp{}", path, std::process::id());
        std::fs::write(&tmp, out).unwrap();
        std::fs::rename(&tmp, &path).unwrap();
        Compilation::Continue
    }
}

fn main() {
    let mut args: Vec<String> = std::env::args().collect();
    if args.len() > 1 && (args[1].ends_with("rustc") || args[1].contains("/rustc")) {
        args.remove(1);
    }
    rustc_driver::run_compiler(&args, &mut Cb);
}
