"""C07 — recursive schemas produce finitely sized types (structural clauses)."""
import re
from lib import alias_root, must_pass  # noqa
from lib import (Canon, walk, nodes, ends, src, psrc, outcome, contains_node, pat_top_variants, short, calls_in, block_last,
                 strip_refs, guards, gtext, templates_in, top_stmts)
import tmplparse as tp

EXPLANATION = (
    "Decides structural necessary conditions, not the correctness of the DFS: (D1) every IR variant that the type renderer lays "
    "out inline (Option, tuple, array, and the fields of enums/structs/newtypes) and that carries type ids is returned by the "
    "child enumerator the cycle breaker walks, every VariantDetails case with ids is enumerated, and a variant carrying ids that "
    "neither table knows fails closed; (W1) TypeEntryDetails::Box is constructed at exactly one site whose only caller is the "
    "cycle breaker, so boxes come only from cycle cutting; (W2) every ingestion function that registers references runs the "
    "cycle breaker over the whole batch range after conversion and before finalisation on the path to Ok; (W3) the DFS "
    "bookkeeping is paired: the snip test is membership in the active set, nodes are added to the active set when pushed — on every path to the push, not only for some class of node (anonymous nodes are shared, so a cycle can close on one) and "
    "removed when popped, replaced children are the snipped ones; "
    "the children that are boxed are exactly the partition's true side (resolved by binding, so a shadowing filter is seen)."
    " (W3, marking) `visited.insert` marks only the node being expanded, never a child while its parent's child list is filtered."
)
ASSUMPTIONS = ["external generic natives hold their parameters behind indirection or are otherwise sized (opaque to the analysis)"]

HEAP_PREFIX = ("::std::boxed::Box<", "::std::vec::Vec<", "Vec<", "#map_to_use<", "::serde_json::Map<", "::std::collections::")


def run(facts, rep, tier):
    c = facts.impl
    adt = c.adt("TypeEntryDetails")
    if not rep.floor("C07.D1", "TypeEntryDetails", 1 if adt else 0, 1):
        return
    NAMED = {"Enum": "TypeEntryEnum", "Struct": "TypeEntryStruct", "Newtype": "TypeEntryNewtype", "Native": "TypeEntryNative"}
    carriers = {}
    for v in adt["variants"]:
        tys = " ".join(f["ty"] for f in v["fields"])
        if "TypeId" in tys or v["name"] in NAMED:
            carriers[v["name"]] = tys
    rep.floor("C07.D1", "IR variants carrying type ids", len(carriers), 11)

    # how the renderer lays each variant out
    ti = [h for h in c.user_fns() if ends(h["fn"], "TypeEntry::type_ident")]
    if not rep.floor("C07.D1", "type renderer", len(ti), 1):
        return
    layout = {}
    m = [n for n, _ in nodes(ti[0]["body"], "match") if n.get("src") == "normal" and "TypeEntryDetails" in c.ty(n.get("scty"))][0]
    for arm in m["arms"]:
        names = [t.split("::")[-1] for t in pat_top_variants(arm["pat"])]
        texts = []
        for x, xa in walk(arm["body"]):
            if x.get("k") == "macro" and x["name"] == "quote":
                t = facts.template_at(x["sp"])
                if t:
                    texts.append(tp.squash(tp.flat(t["tt"])))
        for nme in names:
            layout[nme] = texts
    # the child enumerator: fn returning Vec<&mut TypeId>
    enum_fn = [q for q, f in c.fns.items() if not f.get("derived") and "Vec<&" in f["output"] and "mut TypeId" in f["output"]]
    if not rep.floor("C07.D1", "child enumerator (returns Vec<&mut TypeId>)", len(enum_fn), 1):
        return
    eh = c.hir[enum_fn[0]]
    em = [n for n, _ in nodes(eh["body"], "match") if n.get("src") == "normal" and "TypeEntryDetails" in c.ty(n.get("scty"))][0]
    enumerated = {}
    for arm in em["arms"]:
        names = [t.split("::")[-1] for t in pat_top_variants(arm["pat"])]
        s = src(arm["body"])
        empty = re.fullmatch(r"\{?\s*(Vec(<\w+>)?::new\(\)|vec!\(\)|Default>?::default\(\))\s*\}?", s.strip()) is not None
        for nme in names:
            enumerated[nme] = (not empty, arm)
    for vname, tys in sorted(carriers.items()):
        if vname == "Reference":
            rep.ob("C07.D1", "carrier:Reference", True, "in-flight only; never stored in the type space (C01)", nontrivial=False)
            continue
        texts = layout.get(vname, [])
        if vname in ("Enum", "Struct", "Newtype"):
            kind = "inline (named type: its fields are laid out in place)"
            inline = True
        elif vname == "Native":
            kind = "opaque (external type; parameters are not laid out by typify)"
            inline = False
        else:
            heap = any(t.startswith(HEAP_PREFIX) for t in texts)
            inl = any(t.startswith(("::std::option::Option<", "(", "[")) for t in texts)
            if heap and not inl:
                kind, inline = "heap container (%s)" % texts[0][:30], False
            elif inl and not heap:
                kind, inline = "inline (%s)" % [t for t in texts if t.startswith(("::std::option::Option<", "(", "["))][0][:34], True
            else:
                kind, inline = "unknown layout %s" % texts[:2], True  # fail closed: treat as inline
        got = enumerated.get(vname, enumerated.get("_", (False, None)))
        if inline:
            rep.ob("C07.D1", "inline-children-enumerated:%s" % vname, got[0],
                   "%s is %s and the child enumerator returns its ids" % (vname, kind) if got[0] else
                   "%s is %s but the child enumerator returns nothing for it: a cycle through it is never cut (infinitely sized type)" % (vname, kind),
                   (got[1] or {}).get("sp") or c.fns[enum_fn[0]].get("sp"))
        else:
            rep.ob("C07.D1", "heap-or-opaque:%s" % vname, True, "%s is %s" % (vname, kind))
    # named kinds: which fields are walked
    cne = Canon(c, eh, 4)
    NEED = {
        "Struct": [r"~TypeEntryStruct\.properties\.iter_mut\(\)\.map\(\|\.\.\| elem<[^>]*properties\.iter_mut\(\)>\.type_id\)"],
        "Newtype": [r"~TypeEntryNewtype\.type_id"],
        "Enum": [r"~TypeEntryEnum\.variants\.iter_mut\(\)\.flat_map\(", r"VariantDetails::Item\(_\) => vec!\(elem<[^>]*>\.details~Item\)", r"VariantDetails::Tuple\(_\) => elem<[^>]*>\.details~Tuple\.iter_mut\(\)\.collect\(\)", r"VariantDetails::Struct\(_\) => elem<[^>]*>\.details~Struct\.iter_mut\(\)\.map\(\|\.\.\| elem<.*?>\.type_id\)"],
    }
    for vname, need in NEED.items():
        got = enumerated.get(vname)
        if got and got[0]:
            s = cne.r(got[1]["body"])
            missing = [x for x in need if not re.search(x, s)]
            rep.ob("C07.D1", "fields-walked:%s" % vname, not missing, "%s: every id-carrying field is walked" % vname if not missing else "%s arm of the child enumerator does not walk %s (arm: %s)" % (vname, missing, s[:160]), got[1].get("sp"))
    # VariantDetails cases
    vd = c.adt("VariantDetails")
    if vd:
        vm = [n for n, _ in nodes(eh["body"], "match") if n.get("src") == "normal" and "VariantDetails" in c.ty(n.get("scty"))]
        if rep.floor("C07.D1", "match over VariantDetails in the child enumerator", len(vm), 1):
            got = {}
            from lib import table_is_plain
            table_is_plain(rep, "C07.D1", "variant-children", vm[0])
            for arm in vm[0]["arms"]:
                for t in pat_top_variants(arm["pat"]):
                    s = src(arm["body"])
                    got[t.split("::")[-1]] = re.fullmatch(r"\{?\s*(Vec(<\w+>)?::new\(\)|vec!\(\)|Default>?::default\(\))\s*\}?", s.strip()) is None
            for v in vd["variants"]:
                carries = any("TypeId" in f["ty"] or "StructProperty" in f["ty"] for f in v["fields"])
                if carries:
                    ok = got.get(v["name"], got.get("_", False))
                    rep.ob("C07.D1", "variant-children-enumerated:%s" % v["name"], ok, "VariantDetails::%s children are returned" % v["name"] if ok else "VariantDetails::%s carries type ids that the child enumerator skips" % v["name"], vm[0].get("sp"))
    rep.sample({"rule": "C07.D1", "layout": {k: (v[0][:40] if v else None) for k, v in layout.items() if k in carriers}, "enumerated": sorted(k for k, v in enumerated.items() if v[0])})

    # ------------------------------------------------------------ W1
    sites = []
    for h in c.user_fns():
        for n, _ in nodes(h["body"], "call"):
            if n.get("res") == "ctor" and n["fn"].endswith("TypeEntryDetails::Box"):
                sites.append((h, n))
        for n, _ in nodes(h["body"], "path"):
            pass
    rep.ob("C07.W1", "single-box-constructor", len(sites) == 1, "TypeEntryDetails::Box is constructed in %s" % [h["fn"] for h, _ in sites], sites[0][1].get("sp") if sites else None)
    breakers = set()
    if sites:
        boxer = sites[0][0]["fn"]
        callers = [(h, n) for h in c.user_fns() for n, _ in walk(h["body"]) if n.get("k") in ("call", "mcall") and n.get("fn") == boxer]
        uses_enum = [h for h, _ in callers if enum_fn[0] in calls_in(h["body"])]
        for h, n in callers:
            ok = enum_fn[0] in calls_in(h["body"])
            if ok:
                breakers.add(h["fn"])
            rep.ob("C07.W1", "box-only-from-cycle-breaker:%s" % h["fn"], ok, "%s is called from %s (%s)" % (short(boxer), h["fn"], "the cycle breaker: it walks the child enumerator" if ok else "NOT the cycle breaker"), n.get("sp"))
        rep.floor("C07.W1", "callers of the box allocator", len(callers), 1)
        # conversion never produces a Box by other means (e.g. TypeDetails / into())
        for h in c.user_fns():
            for n, _ in nodes(h["body"], "path"):
                if n.get("res") == "ctor" and n.get("path", "").endswith("TypeEntryDetails::Box") and n.get("ty") is not None:
                    # a bare constructor used as a function value (e.g. .map(TypeEntryDetails::Box))
                    rep.ob("C07.W1", "box-ctor-as-fn-value:%s" % h["fn"], False, "TypeEntryDetails::Box used as a function value in %s" % h["fn"], n.get("sp"))

    # ------------------------------------------------------------ W2
    regs = []
    for h in c.user_fns():
        for n, _ in nodes(h["body"], "mcall"):
            if n["name"] == "insert" and src(n["recv"]).endswith(".ref_to_id"):
                regs.append(h)
    regs = list({h["fn"]: h for h in regs}.values())
    rep.floor("C07.W2", "functions registering references", len(regs), 1)
    for h in regs:
        stmts = top_stmts(h)
        conv_ix = brk_ix = fin_ix = None
        for i, st in enumerate(stmts):
            cs = calls_in(st)
            if conv_ix is None and any(x.endswith("convert_ref_type") for x in cs):
                conv_ix = i
            if brk_ix is None and any(x in breakers for x in cs) and st.get("k") == "mcall":
                brk_ix = i
            if fin_ix is None and any(x.endswith("TypeEntry::finalize") for x in cs):
                fin_ix = i
        ok = None not in (conv_ix, brk_ix, fin_ix) and conv_ix < brk_ix < fin_ix
        rep.ob("C07.W2", "cycle-breaker-runs:%s" % h["fn"], ok,
               "unconditional top-level call after conversion (stmt %s) and before finalisation (stmt %s)" % (conv_ix, fin_ix) if ok else
               "the cycle breaker is not called unconditionally between conversion and finalisation (conv=%s, break=%s, finalize=%s)" % (conv_ix, brk_ix, fin_ix), h.get("sp") or c.fns[h["fn"]].get("sp"))
        if brk_ix is not None:
            call = stmts[brk_ix]
            arg = src(call["args"][0]) if call.get("args") else ""
            # base .. base + len where len is what next_id was advanced by
            m2 = re.match(r"Range\{start: (\w+), end: \((\w+) Add (\w+)\)\}", arg)
            adv = None
            for n, _ in nodes(h["body"], "assignop"):
                if src(n["l"]) == "self.next_id":
                    adv = src(n["r"])
            ok = bool(m2) and m2.group(1) == m2.group(2) and m2.group(3) == adv
            rep.ob("C07.W2", "covers-the-batch:%s" % h["fn"], ok, "range %s = the ids pre-assigned to this batch (next_id += %s)" % (arg, adv) if ok else "cycle breaker range `%s` is not base..base+%s" % (arg, adv), call.get("sp"))

    # ------------------------------------------------------------ W3 DFS bookkeeping
    for bq in sorted(breakers):
        h = c.hir[bq]
        s = src(h["body"])
        # snip predicate
        part = [n for n, _ in nodes(h["body"], "mcall") if n["name"] == "partition"]
        ok = False
        if part and part[0].get("args") and part[0]["args"][0].get("k") == "closure":
            clo = part[0]["args"][0]
            b = block_last(clo["body"])
            pn = [x["name"] for p_ in clo.get("params", []) for x, _ in walk(p_) if x.get("k") == "bind"]
            ok = b.get("k") == "mcall" and b["name"] == "contains" and strip_refs(b["recv"]).get("k") == "path" and len(b.get("args", [])) == 1 and strip_refs(b["args"][0]).get("path") in pn and "BTreeSet<TypeId>" in c.ty(strip_refs(b["recv"]).get("ty"))
        rep.ob("C07.W3", "snip-iff-active", ok, "children are snipped iff they are in the active set" if ok else "the snip predicate is `%s`" % (src(part[0]["args"][0]) if part else "?"), part[0].get("sp") if part else None)
        # (snip, descend) order of partition result
        lets = [n for n, _ in nodes(h["body"], "let") if n["pat"].get("k") == "tuple" and contains_node(n.get("init") or {}, part[0] if part else {})]
        if lets:
            names = [p.get("name") for p in lets[0]["pat"]["pats"]]
            boxed_from = [n for n, _ in nodes(h["body"], "let") if n["pat"].get("k") == "bind" and any(x.get("fn") in {sites[0][0]["fn"]} for x, _ in walk(n.get("init") or {}) if x.get("k") in ("call", "mcall"))]
            from lib import scope_binding
            anc_of = {id(n_): a_ for n_, a_ in walk(h["body"])}
            ok = False
            got_txt = "?"
            if boxed_from:
                # the receiver chain of the map that allocates the boxes: its root must be the partition's true side itself
                e = boxed_from[0]["init"]
                chain = []
                while isinstance(e, dict) and e.get("k") == "mcall":
                    chain.append(e["name"])
                    e = e["recv"]
                e = strip_refs(e) if isinstance(e, dict) else {}
                got_txt = src(boxed_from[0]["init"])[:100]
                if e.get("k") == "path" and e.get("res") == "local":
                    b_ = scope_binding(h, anc_of.get(id(e), ()), e["path"], e)
                    drops = [m_ for m_ in chain if m_ in ("filter", "filter_map", "skip", "take", "take_while", "skip_while", "step_by", "dedup")]
                    ok = bool(b_) and b_[0] == "let" and b_[1] is lets[0] and b_[2] == 0 and not drops
                    if b_ and b_[0] == "let" and b_[1] is not lets[0]:
                        got_txt = src(b_[1].get("init") or {})[:100]
            if ok:
                # .. and nothing removes elements from it in between
                from lib import uses_of_let, MUTATING
                for u_ in uses_of_let(h, lets[0]):
                    if u_.get("path") != (lets[0]["pat"]["pats"][0].get("name")):
                        continue
                    par_ = anc_of.get(id(u_), ())
                    par_ = par_[-1] if par_ else {}
                    if par_.get("k") == "ref":
                        pp_ = anc_of.get(id(par_), ())
                        par_ = pp_[-1] if pp_ else par_
                    if par_.get("k") == "mcall" and strip_refs(par_.get("recv")) is u_ and par_["name"] in (set(MUTATING) | {"retain", "retain_mut", "dedup_by_key", "drain", "split_off", "truncate", "clear", "pop", "remove", "swap_remove"}) - {"push", "insert", "extend", "append"}:
                        ok = False
                        got_txt = src(par_)[:100]
            rep.ob("C07.W3", "boxed-are-the-snipped", ok, "box ids are allocated for every child on the partition's true side" if ok else
                   "the children that get a Box are `%s`, not every child found in the active set: a back edge that is not boxed leaves its cycle uncut (both ends are already marked visited, so it is never looked at again)" % got_txt, lets[0].get("sp"))
            desc = [n for n, _ in nodes(h["body"], "struct") if "Processing" in n["path"] and any(f[0] == "children_ids" and src(f[1]) == names[1] for f in n["fields"])]
            rep.ob("C07.W3", "descend-into-the-rest", bool(desc), "the other side `%s` is what is descended into" % names[1] if desc else "the non-snipped children are not the ones descended into")
        # roles of the DFS's locals, by use and type (not by name)
        active = None
        if part:
            for x, _ in walk(part[0]["args"][0]):
                if x.get("k") == "mcall" and x["name"] == "contains":
                    active = alias_root(h, x["recv"])
        sets = set()
        stackv = None
        for n, _ in nodes(h["body"], "let"):
            if n["pat"].get("k") == "bind" and n.get("init") is not None:
                ty = c.ty(n["init"].get("ty")) if isinstance(n["init"], dict) else ""
                if "BTreeSet<TypeId>" in ty:
                    sets.add(n["pat"]["name"])
                if re.search(r"Vec<.*Node>", ty):
                    stackv = n["pat"]["name"]
        visited = [x for x in sets if x != active]
        rep.ob("C07.W3", "dfs-roles", bool(active) and len(visited) == 1 and bool(stackv), "active=%s visited=%s stack=%s" % (active, visited, stackv))
        visited = visited[0] if visited else None
        # replacement only via the snip map
        asg = [(n, a) for n, a in nodes(h["body"], "assign") if n["l"].get("k") == "un" and n["l"].get("op") == "Deref" and "TypeId" in c.ty(n["l"]["e"].get("ty"))]
        ok = bool(asg)
        for n, a in asg:
            conds = [g for g in guards(a, n) if g[0] == "if"]
            target = src(n["l"]["e"])
            if not any(".get(%s)" % target in g[1] and "Some(" in g[1] for g in conds):
                ok = False
        rep.ob("C07.W3", "replace-only-snipped", ok, "a child id is overwritten only under `if let Some(..) = <snip map>.get(child)`" if ok else "a child id is overwritten without consulting the snip map", asg[0][0].get("sp") if asg else None)
        # push/pop pairing on the active set
        pushes = [(n, a) for n, a in nodes(h["body"], "mcall") if n["name"] == "push" and src(n["recv"]) == stackv]
        okp = bool(pushes)
        for n, a in pushes:
            blk = [x for x in a if x.get("k") == "block"][-1]
            stmts = list(blk.get("stmts", [])) + ([blk["tail"]] if blk.get("tail") else [])
            ix = [i for i, s_ in enumerate(stmts) if s_ is n or contains_node(s_, n)][0]
            before = " ; ".join(src(x) for x in stmts[:ix])
            if ("%s.insert(" % active) not in before:
                okp = False
            # ... on every path: an insert under a condition (only named types, only unvisited ones) leaves nodes on the DFS path
            # that the snip test cannot see, and anonymous nodes are shared, so a cycle that closes on one is never cut
            is_ins = lambda x: x.get("k") == "mcall" and x.get("name") == "insert" and x.get("recv") is not None and alias_root(h, x["recv"]) == active
            if not any(must_pass(s_, is_ins) for s_ in stmts[:ix]):
                okp = False
        rep.ob("C07.W3", "active-insert-on-push", okp and len(pushes) >= 2, ("%d push sites, each preceded on every path by %s.insert(..) in its block" % (len(pushes), active)) if okp else
               "a node is pushed on the DFS stack without (on every path) entering the active set first: the snip test `active.contains(child)` misses a cycle that closes on it (anonymous nodes are shared)", pushes[0][0].get("sp") if pushes else None)
        pops = [(n, a) for n, a in nodes(h["body"], "mcall") if n["name"] == "pop" and src(n["recv"]) == stackv]
        okq = bool(pops)
        for n, a in pops:
            blk = [x for x in a if x.get("k") == "block"][-1]
            if ("%s.remove(" % active) not in src(blk):
                okq = False
        rep.ob("C07.W3", "active-remove-on-pop", okq, "popping the stack removes the node from the active set" if okq else "a node is popped without leaving the active set (later siblings would be boxed needlessly) or never popped", pops[0][0].get("sp") if pops else None)
        vins = [(n, a) for n, a in nodes(h["body"], "mcall") if n["name"] == "insert" and src(n["recv"]) == visited]
        rep.ob("C07.W3", "visited-insert", bool(vins), "a node is marked visited when first expanded" if vins else "nodes are never marked visited", vins[0][0].get("sp") if vins else None)
        # a node is marked visited when *it* is expanded, never when it is merely queued as somebody's child: a queued
        # sibling that is "visited" but neither active nor finished hides the back edges that reach it in the meantime
        cnv = Canon(c, h, 3)
        for i_, (n, a) in enumerate(vins):
            in_adaptor = any(x.get("k") == "closure" for x in a)
            argt = cnv.r(n["args"][0]) if n.get("args") else ""
            own = bool(re.search(r"~Start\.type_id$|^TypeId\(", argt)) or argt.startswith("TypeId(")
            okv = own and not in_adaptor
            rep.ob("C07.W3", "visited-means-expanded#%d" % i_, okv, "`%s` marks the node being expanded" % src(n)[:50] if okv else
                   "`%s` marks a node visited %s: a child that waits in its parent's list is then skipped as a root and is neither active nor finished, so a cycle among siblings is never cut (infinitely sized type)" % (src(n)[:60], "while its parent's children are being filtered" if in_adaptor else "that is not the node being expanded"), n.get("sp"))
