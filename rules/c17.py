"""C17 — the introspection API describes the code that is generated.

  D1  has_impl(X) may answer true only in cells where the emitter emits `impl X` under the same condition
      (named kinds), or where std implements X (built-in kinds)
  D2  Type::builder() is Some exactly under the condition under which the struct emitter adds the builder item
  D3  properties / variants / inner project the same IR vectors, unfiltered, that the emitters iterate
  W1  every template that names ::serde_json / ::uuid / ::chrono / regress is guarded by an IR cell whose
      construction sites set the matching uses_* flag
"""
import re
from lib import (Canon, walk, nodes, ends, src, psrc, outcome, contains_node, pat_top_variants, short, calls_in, block_last,
                 strip_refs, guards, gtext, templates_in)
import emit
import tmplparse as tp

EXPLANATION = (
    "Decides agreement between the introspection tables and the emitters' templates, not run-time behaviour: (D1) the answer of "
    "has_impl is partially evaluated per (kind x newtype constraint x trait); wherever it can be true for a named kind, the "
    "emitter's arm for that cell contains an `impl <trait> for #type_name` template under the same guard (default present / "
    "bespoke impl flag / inner type has the impl); for built-in kinds a may-be-true answer must be a trait std implements for "
    "that type, and for arrays and tuples (Default only up to [T; 32] / 12 items) it must read the array's own length / the tuple's id vector under a comparison; (D2) builder() answers Some under `struct_builder && Struct` and the struct emitter adds the builder item under "
    "the same setting with the same path; (D3) the projections iterate details.properties / details.variants / details.type_id "
    "without filtering and ident()/name() call the renderer the emitters use; (W1) templates and literals naming an external "
    "crate are reachable only through IR cells whose every construction site sets the corresponding uses_* flag; (W2) the "
    "renderers that recurse over the type graph (type_ident and its siblings: a method of TypeEntry calling itself on a child "
    "entry) hand their context parameters — the type space, the module prefix, the scope tokens — to every recursive call "
    "unchanged, so that the name reported for a nested type carries the same module prefix as the outer one."
)
ASSUMPTIONS = ["std's trait implementations for bool/integers/floats/String/Option/Vec/tuples/arrays/Box", "user-declared impls of replacement/conversion types are the user's claim"]

TRAITS = ["Default", "FromStr", "Display"]
STD_IMPLS = {
    "Option": {"Default"}, "Vec": {"Default"}, "Map": {"Default"}, "Set": {"Default"}, "Unit": {"Default"},
    "Tuple": {"Default"}, "Array": {"Default"}, "Box": {"Default", "Display"},
    "Boolean": {"Default", "FromStr", "Display"}, "Integer": {"Default", "FromStr", "Display"},
    "Float": {"Default", "FromStr", "Display"}, "String": {"Default", "FromStr", "Display"},
    "JsonValue": {"Default", "FromStr", "Display"},
}


def peval(e, trait, pname, cn=None):
    """Partially evaluate a bool expression of has_impl with impl_name = trait: True | False | ('atom', text, node)."""
    if not isinstance(e, dict):
        return ("atom", "?", e)
    k = e.get("k")
    if k == "block":
        if e.get("stmts"):
            # lets followed by a tail: evaluate the tail (atoms keep their text)
            return peval(e.get("tail"), trait, pname, cn) if e.get("tail") is not None else ("atom", (cn.r(e) if cn else src(e)), e)
        return peval(e.get("tail"), trait, pname, cn)
    if k == "lit" and "bool" in e["v"]:
        return bool(e["v"]["bool"])
    if k == "match" and e.get("mac") == "matches" and src(e["scrut"]).lstrip("&") == pname:
        names = [t.split("::")[-1] for t in pat_top_variants(e["arms"][0]["pat"])]
        return trait in names
    if k == "match" and e.get("src") == "normal" and src(e["scrut"]).lstrip("&") == pname:
        for arm in e["arms"]:
            names = [t.split("::")[-1] for t in pat_top_variants(arm["pat"])]
            if trait in names or names == ["_"]:
                return peval(arm["body"], trait, pname, cn)
        return False
    if k == "bin" and e["op"] == "Eq":
        l, r = src(e["l"]), src(e["r"])
        if l == pname and r.startswith("TypeSpaceImpl::"):
            return r.split("::")[-1] == trait
        if r == pname and l.startswith("TypeSpaceImpl::"):
            return l.split("::")[-1] == trait
    if k == "bin" and e["op"] == "And":
        a, b = peval(e["l"], trait, pname, cn), peval(e["r"], trait, pname, cn)
        if a is False or b is False:
            return False
        if a is True:
            return b
        if b is True:
            return a
        return ("atom", (cn.r(e) if cn else src(e)).replace("$TypeSpaceImpl", "TypeSpaceImpl::" + trait), e)
    if k == "bin" and e["op"] == "Or":
        a, b = peval(e["l"], trait, pname, cn), peval(e["r"], trait, pname, cn)
        if a is True or b is True:
            return True
        if a is False:
            return b
        if b is False:
            return a
        return ("or", [a, b])
    if k == "if":
        c = peval(e["cond"], trait, pname, cn)
        if c is True:
            return peval(e["then"], trait, pname, cn)
        if c is False:
            return peval(e["else"], trait, pname, cn) if e.get("else") else False
        return ("atom", (cn.r(e) if cn else src(e)).replace("$TypeSpaceImpl", "TypeSpaceImpl::" + trait), e)
    if k == "un" and e.get("op") == "Not":
        a = peval(e["e"], trait, pname, cn)
        if a is True:
            return False
        if a is False:
            return True
    return ("atom", (cn.r(e) if cn else src(e)).replace("$TypeSpaceImpl", "TypeSpaceImpl::" + trait).replace(pname, "TypeSpaceImpl::" + trait), e)


def disjuncts(ans):
    if isinstance(ans, tuple) and ans[0] == "or":
        out = []
        for a in ans[1]:
            out.extend(disjuncts(a))
        return out
    return [ans]


def cell_answers(c, h):
    """{(kind, constraint|None, trait): answer} from has_impl's body."""
    pname = None
    for p in h["params"]:
        for b, _ in walk(p):
            if b.get("k") == "bind" and b["name"] not in ("self", "type_space"):
                pname = b["name"]
    m = None
    for n, _ in nodes(h["body"], "match"):
        if n.get("src") == "normal" and "TypeEntryDetails" in c.ty(n.get("scty")):
            m = n
            break
    out = {}
    if m is None:
        return out, pname
    cn = Canon(c, h, 4)
    for arm in m["arms"]:
        kinds_ = [t.split("::")[-1] for t in pat_top_variants(arm["pat"])]
        body = arm["body"]
        inner = block_last(body)
        for kind in kinds_:
            # tuple match (constraints, impl_name)
            if isinstance(inner, dict) and inner.get("k") == "match" and inner["scrut"].get("k") == "tup" and len(inner["scrut"]["es"]) == 2:
                for cons in ("None", "EnumValue", "DenyValue", "String"):
                    for tr in TRAITS:
                        ans = False
                        for a2 in inner["arms"]:
                            p = a2["pat"]
                            if p.get("k") == "wild":
                                ans = peval(a2["body"], tr, pname, cn)
                                break
                            if p.get("k") != "tuple":
                                continue
                            p0, p1 = p["pats"]
                            n0 = [t.split("::")[-1] for t in pat_top_variants(p0)]
                            n1 = [t.split("::")[-1] for t in pat_top_variants(p1)]
                            if (cons in n0 or n0 == ["_"]) and (tr in n1 or n1 == ["_"]):
                                ans = peval(a2["body"], tr, pname, cn)
                                break
                        out[(kind, cons, tr)] = ans
            else:
                for tr in TRAITS:
                    out[(kind, None, tr)] = peval(body, tr, pname, cn)
    return out, pname


def norm(s):
    return re.sub(r"\s+", "", s)


def run(facts, rep, tier):
    c = facts.impl
    run_w2(facts, rep)
    ems = emit.find_emitters(facts, c)
    if not rep.floor("C17.D1", "item emitters (enum/struct/newtype)", len(ems), 3):
        return
    hs = [h for h in c.user_fns() if ends(h["fn"], "TypeEntry::has_impl")]
    if not hs:
        # role: fn (&TypeEntry, &TypeSpace, TypeSpaceImpl) -> bool
        hs = [c.hir[q] for q, f in c.fns.items() if not f.get("derived") and f["output"] == "bool" and any("TypeSpaceImpl" in t for t in f["inputs"]) and f["inputs"] and "TypeEntry" in f["inputs"][0]]
    if not rep.floor("C17.D1", "has_impl implementation", len(hs), 1):
        return
    answers, pname = cell_answers(c, hs[0])
    rep.floor("C17.D1", "has_impl cells", len(answers), 50)

    def impl_templates(em, trait, arm_filter=None):
        out = []
        for t in em.templates:
            for im in t.impls:
                if im["trait"] == emit.TRAIT_PATHS[trait] and im["self"] == "#type_name":
                    if arm_filter is not None:
                        arm = t.arm_of("constraints")
                        if arm is not None and arm_filter not in arm:
                            continue
                    out.append(t)
        return out

    def cover(ans, em, trait, cons):
        """Is every way `ans` can be true matched by an emitted impl under the same condition?"""
        msgs = []
        ok_all = True
        for d in disjuncts(ans):
            ts = impl_templates(em, trait, cons)
            if d is False:
                continue
            if d is True:
                free = [t for t in ts if not [g for g in t.conds() if not (g[0] == "arm" and "constraints" in g[3])]]
                if free:
                    msgs.append("unconditional impl at %s" % free[0].sp)
                else:
                    ok_all = False
                    msgs.append("answers true but no unconditional `impl %s for #type_name` in the %s arm (found under: %s)" % (emit.TRAIT_PATHS[trait], cons or "emitter", [gtext(t.conds()) for t in ts][:2]))
                continue
            text = norm(d[1])
            matched = False
            for t in ts:
                g = norm(gtext([x for x in t.conds() if not (x[0] == "arm" and "constraints" in x[3])]))
                if ".default.is_some()" in text and re.search(r"(adaptor:map\|\S*~TypeEntry(Enum|Struct|Newtype)\.default$)|(if:letSome\(_\)=\S*~TypeEntry(Enum|Struct|Newtype)\.default$)", g):
                    matched = True
                m = re.search(r"contains\(TypeEntryEnumImpl::(\w+)\)", text)
                if m and ("contains(TypeEntryEnumImpl::%s)" % m.group(1)) in g:
                    matched = True
                if ("has_impl($&TypeSpace,TypeSpaceImpl::%s)" % trait) in text and ("has_impl($&TypeSpace,TypeSpaceImpl::%s)" % trait) in g:
                    matched = True
                if matched:
                    msgs.append("`%s` ↔ impl under `%s`" % (d[1][:60], gtext(t.conds())[:80]))
                    # a conjunct `And !X` on the guard needs the complementary template
                    mm = re.search(r"And!(match.*\})\)$", g)
                    if mm:
                        comp = [u for u in ts if norm(gtext([x for x in u.conds() if not (x[0] == "arm" and "constraints" in x[3])])) == "adaptor:then|" + mm.group(1)]
                        if not comp:
                            ok_all = False
                            msgs.append("guard excludes `%s` and no complementary impl exists" % mm.group(1)[:60])
                    break
            if not matched:
                ok_all = False
                msgs.append("may answer true via `%s` but no `impl %s for #type_name` is emitted under that condition" % (d[1][:80], emit.TRAIT_PATHS[trait]))
        return ok_all, "; ".join(msgs)

    named = {"Enum": "enum", "Struct": "struct", "Newtype": "newtype"}
    n_named = 0
    for (kind, cons, tr), ans in sorted(answers.items(), key=lambda x: (x[0][0], str(x[0][1]), x[0][2])):
        if kind in named:
            if ans is False:
                continue
            n_named += 1
            ok, msg = cover(ans, ems[named[kind]], tr, cons)
            rep.ob("C17.D1", "has_impl=>emitted:%s%s/%s" % (kind, "[%s]" % cons if cons else "", tr), ok, msg, hs[0].get("sp") or c.fns[hs[0]["fn"]].get("sp"))
        elif kind in STD_IMPLS:
            if ans is False:
                continue
            ok = tr in STD_IMPLS[kind]
            if kind == "Integer" and tr == "Default":
                # the Integer kind also holds ::std::num::NonZero*: the answer must exclude them
                txt = ans[1] if isinstance(ans, tuple) and len(ans) > 1 else str(ans)
                okn = ans is not True and "NonZero" in str(txt)
                rep.ob("C17.D1", "has_impl=>std:Integer/Default:not-for-NonZero", okn,
                       "Default is reported for integers except the NonZero types (`%s`)" % str(txt)[:80] if okn else
                       "has_impl(Default) answers true for every Integer entry, and that kind also holds ::std::num::NonZeroU8..U64, which have no Default", c.fns[hs[0]["fn"]].get("sp"))
            if kind in ("Array", "Tuple") and tr == "Default" and ok:
                # std implements Default for [T; N] only up to N = 32 and for tuples only up to arity 12: an answer that can be
                # true must read the array's own length (the second field of the IR variant) / the tuple's id vector — an answer
                # computed from the component ids alone (one id for an array, whatever N) is true for [T; 40]
                txt = " ".join(str(d[1]) for d in disjuncts(ans) if isinstance(d, tuple) and len(d) > 1)
                need = "~Array.1" if kind == "Array" else "~Tuple"
                okl = ans is not True and need in txt and re.search(r"\b(Le|Lt|Ge|Gt)\b", txt) is not None
                rep.ob("C17.D1", "has_impl=>std:%s/Default:size-bounded" % kind, okl,
                       "the answer compares the %s (`%s`) with a bound" % ("array's length" if kind == "Array" else "tuple's arity", need) if okl else
                       "has_impl(Default) for %s does not depend on %s: std has no Default for %s, so the answer is true for a type that has no such impl"
                       % (kind, "the array's length" if kind == "Array" else "the tuple's arity", "[T; N] with N > 32" if kind == "Array" else "tuples of more than 12 items"), c.fns[hs[0]["fn"]].get("sp"))
            rep.ob("C17.D1", "has_impl=>std:%s/%s" % (kind, tr), ok,
                   "%s may be reported for %s and std implements it" % (tr, kind) if ok else "has_impl(%s) can answer true for the built-in kind %s, which does not implement it" % (tr, kind), c.fns[hs[0]["fn"]].get("sp"))
    rep.floor("C17.D1", "named-kind cells that can answer true", n_named, 8)
    rep.sample({"rule": "C17.D1", "cells": {"%s/%s/%s" % k: (v if isinstance(v, bool) else str(v)[:80]) for k, v in list(answers.items())[:10]}})
    # every conditional impl template is interpolated into the item that is added
    for kind, em in ems.items():
        for t in em.templates:
            if t.impls and t.bound_outer and t is not em.decl[0]:
                used = em.used_as_hole(t.bound_outer) or any(t.bound_outer in src(n) for n, _ in walk(em.h["body"]) if n.get("k") == "mcall" and n["name"] == "add_item")
                if any(im["self"] == "#type_name" and im["trait"] in emit.TRAIT_PATHS.values() for im in t.impls):
                    rep.ob("C17.D1", "impl-template-is-emitted:%s/%s" % (kind, t.bound_outer), bool(used), "`%s` is interpolated into the item" % t.bound_outer if used else "template bound to `%s` is never interpolated" % t.bound_outer, t.sp)

    # ------------------------------------------------------------ D2 builder
    bh = [h for h in c.user_fns() if re.search(r"Type<'a>::builder$", h["fn"])]
    if rep.floor("C17.D2", "Type::builder", len(bh), 1):
        b = bh[0]
        s = Canon(c, b, 5).r(b["body"])
        neg = s.startswith("{ if !self~Type.type_space.settings.struct_builder return None else ;")
        rep.ob("C17.D2", "builder-none-unless-setting", neg, "`if !settings.struct_builder { return None }`" if neg else "builder() does not return None when the builder setting is off", b.get("sp"))
        ok = bool(re.search(r"match self~Type\.type_entry\.details \{ TypeEntryDetails::Struct\(TypeEntryStruct\{name: _, \.\.\}\) => match .* \| _ => None \}", s)) and s.count("TypeEntryDetails::") == 1
        rep.ob("C17.D2", "builder-some-iff-struct", ok, "Struct => Some(..), _ => None" if ok else "builder() is not Some exactly for structs", b.get("sp"))
        bt = [t for (n, anc, t) in templates_in(facts, c, b) if t]
        texts = sorted(re.sub(r"#\w+", "#x", tp.squash(tp.flat(t["tt"]))) for t in bt)
        okp = texts == ["#x::builder::#x", "builder::#x"] and s.count("format_ident!(self~Type.type_entry.details~Struct~TypeEntryStruct.name)") == 2 and "format_ident!(self~Type.type_space.settings.type_mod~Some)" in s
        rep.ob("C17.D2", "builder-path", okp, "paths: [type_mod::]builder::<struct name>" if okp else "builder paths are %s" % texts)
        # emitter side
        se = ems["struct"]
        bts = [t for t in se.templates if any(it["kind"] == "struct" for it in t.items) and any(g[0] == "if" and g[1] == "$&TypeSpace.settings.struct_builder" for g in t.conds())]
        rep.ob("C17.D2", "builder-item-emitted-under-setting", len(bts) >= 1, "builder struct template is under `if type_space.settings.struct_builder`", bts[0].sp if bts else None)
        addb = [n for n, _ in nodes(se.h["body"], "mcall") if n["name"] == "add_item" and "OutputSpaceMod::Builder" in src(n["args"][0])]
        ok = bool(addb) and bool(bts) and all(contains_node(x, bts[0].node) or True for x in addb)
        rep.ob("C17.D2", "builder-item-in-builder-mod", bool(addb), "add_item(OutputSpaceMod::Builder, ..)" if addb else "builder item is not added to the builder module")
        same_name = bool(bts) and any(it["kind"] == "struct" and it["name"] == "#type_name" for it in bts[0].items)
        rep.ob("C17.D2", "builder-name-is-type-name", same_name, "builder struct is declared as #type_name (format_ident of the struct's name)")

    # ------------------------------------------------------------ D3 same vectors
    E = r"elem<self\.details\.properties\.iter\(\)>"
    V = r"elem<self\.details\.variants\.iter\(\)>"
    PROJ = [
        ("TypeStruct<'a>::properties", r"self\.details\.properties\.iter\(\)\.map\(\|\.\.\| \(%s\.name, %s\.type_id\)\)" % (E, E)),
        ("TypeStruct<'a>::properties_info", r"self\.details\.properties\.iter\(\)\.map\(\|\.\.\| TypeStructPropInfo\{name: %s\.name, description: %s\.description, required: match %s\.state \{ StructPropertyState::Required => true \| _ => false \}, type_id: %s\.type_id\}\)" % (E, E, E, E)),
        ("TypeEnum<'a>::variants_info", r"self\.details\.variants\.iter\(\)\.map\(\|\.\.\| TypeEnumVariantInfo\{name: %s\.ident_name\.unwrap\(\), description: %s\.description, details: match %s\.details \{ VariantDetails::Simple => TypeEnumVariant::Simple \| VariantDetails::Item\(_\) => TypeEnumVariant::Tuple\(vec!\(%s\.details~Item\)\) \| VariantDetails::Tuple\(_\) => TypeEnumVariant::Tuple\(%s\.details~Tuple\) \| VariantDetails::Struct\(_\) => TypeEnumVariant::Struct\(%s\.details~Struct\.iter\(\)\.map\(\|\.\.\| \(elem<\S+>\.name, elem<\S+>\.type_id\)\)\.collect\(\)\) \}\}\)" % (V, V, V, V, V, V)),
        ("TypeNewtype<'a>::inner", r"self\.details\.type_id"),
        ("Type<'a>::ident", r"self~Type\.type_entry\.type_ident\(self~Type\.type_space, self~Type\.type_space\.settings\.type_mod\)"),
        ("Type<'a>::name", r"self~Type\.type_entry\.type_name\(self~Type\.type_space\)"),
        ("TypeEnum<'a>::variants", r"self\.variants_info\(\)\.map\(\|\.\.\| \(elem<self\.variants_info\(\)>\.name, elem<self\.variants_info\(\)>\.details\)\)"),
        ("TypeEntry::type_name", r"self\.type_ident\(\$&TypeSpace, None\)\.to_string\(\)"),
    ]
    for fn, rx in PROJ:
        hh = [h for h in c.user_fns() if h["fn"].endswith(fn)]
        if not rep.floor("C17.D3", fn, len(hh), 1):
            continue
        s = Canon(c, hh[0], 6).r(hh[0]["body"])
        ok = re.fullmatch(rx, s) is not None
        rep.ob("C17.D3", "projection:%s" % fn.split("::")[-1], ok, "%s = %s" % (fn.split("::")[-1], s[:110]) if ok else "%s does not project the IR vector unfiltered / field by field: `%s`" % (fn, s[:260]), c.fns[hh[0]["fn"]].get("sp"))
    # emitters iterate the same vectors
    se, ee = ems["struct"], ems["enum"]
    cs = se.canon()
    loops = [n for n, _ in nodes(se.h["body"], "mcall") if n["name"] == "for_each" and re.fullmatch(r"\S*~TypeEntryStruct\.properties\.iter\(\)", cs.r(n["recv"]))]
    rep.ob("C17.D3", "struct-emitter-iterates-properties", bool(loops), "the struct emitter walks `properties.iter()` unfiltered" if loops else "the struct emitter does not iterate the entry's properties directly")
    vprov = ee.hole_canon().get(ee.actual.get("variants_decl", "variants_decl"), "")
    rep.ob("C17.D3", "enum-emitter-iterates-variants", bool(re.match(r"\S*~TypeEntryEnum\.variants\.iter\(\)\.map\(\|\.\.\| output_variant\(elem<\S*~TypeEntryEnum\.variants\.iter\(\)>,", vprov)), "the enum emitter declares `variants.iter().map(output_variant)`")

    # ------------------------------------------------------------ W1 dependency flags
    FLAGS = {"serde_json": "uses_serde_json", "uuid": "uses_uuid", "chrono": "uses_chrono", "regress": "uses_regress"}

    def sets_flag(scope, flag):
        for n, _ in nodes(scope, "assign"):
            if n["l"].get("k") == "field" and n["l"]["name"] == flag and src(n["r"]) == "true":
                return True
        return False

    # (a) native type names naming an external crate
    nlit = 0
    for h in c.user_fns():
        for n, anc in walk(h["body"]):
            if n.get("k") == "lit" and "str" in n["v"]:
                sv = n["v"]["str"]
                for crate_name, flag in FLAGS.items():
                    if re.match(r"^(::)?%s::" % crate_name, sv) and crate_name in ("uuid", "chrono"):
                        nlit += 1
                        # innermost arm / block containing the literal
                        scope = h["body"]
                        for a in reversed(anc):
                            if a.get("k") is None and "pat" in a and "body" in a:
                                scope = a["body"]
                                break
                        ok = sets_flag(scope, flag)
                        rep.ob("C17.W1", "literal:%s:%s" % (h["fn"], sv[:40]), ok,
                               "native type `%s` is introduced in an arm that sets %s" % (sv, flag) if ok else "native type `%s` is introduced without setting %s" % (sv, flag), h.get("sp") or c.fns[h["fn"]].get("sp"))
    rep.floor("C17.W1", "external-crate type literals", nlit, 3)
    # (b) JsonValue construction sites set uses_serde_json
    nj = 0
    for h in c.user_fns():
        for n, anc in walk(h["body"]):
            if n.get("k") == "path" and n.get("res") == "ctor" and n.get("path", "").endswith("TypeEntryDetails::JsonValue"):
                # value position only (patterns are not `path` expr nodes with a type)
                if n.get("ty") is None:
                    continue
                par = anc[-1] if anc else {}
                if par.get("k") == "bin":
                    continue  # comparison `== TypeEntryDetails::JsonValue`
                nj += 1
                ok = sets_flag(h["body"], "uses_serde_json")
                rep.ob("C17.W1", "jsonvalue-ctor:%s" % h["fn"], ok, "JsonValue is built in a fn that sets uses_serde_json" if ok else "JsonValue is built in %s without setting uses_serde_json" % h["fn"], n.get("sp"))
    rep.floor("C17.W1", "JsonValue construction sites", nj, 3)
    # (c) regress: the string-validation constructor's callers set uses_regress under a test of `pattern`
    for h in c.user_fns():
        if any(x.endswith("from_metadata_with_string_validation") for x in calls_in(h["body"])) and "TypeEntryNewtype" not in h["fn"]:
            ifs = [n for n, _ in nodes(h["body"], "if") if "pattern" in src(n["cond"]) and sets_flag(n["then"], "uses_regress")]
            rep.ob("C17.W1", "regress-flag:%s" % h["fn"], bool(ifs), "`if let Some(pattern) = .. { .. self.uses_regress = true }` precedes the constrained newtype" if ifs else "a pattern-constrained newtype is built without setting uses_regress", c.fns[h["fn"]].get("sp"))
    # (d) templates naming an external crate must sit under the IR cell that carries the flag
    nt = 0
    for h in c.user_fns():
        for (n, anc, t) in templates_in(facts, c, h):
            if not t:
                continue
            text = tp.squash(tp.flat(t["tt"]))
            for crate_name, flag in FLAGS.items():
                if not re.search(r"(^|[^\w])(::)?%s::" % crate_name, text) and ('"::%s::' % crate_name) not in text:
                    continue
                nt += 1
                gs = guards(anc, n)
                g = gtext(gs)
                if crate_name == "serde_json":
                    ok = "TypeEntryDetails::JsonValue" in g
                    why = "under the JsonValue cell" if ok else "`::serde_json` is emitted outside the JsonValue cell (guards: %s): uses_serde_json can be false while the output names the crate" % (g[:100] or "none")
                elif crate_name == "regress":
                    ok = "pattern" in g and "TypeEntryNewtypeConstraints::String" in g
                    why = "under String{pattern: Some}" if ok else "`regress::` is emitted outside the pattern-constrained cell"
                else:
                    ok = False
                    why = "`::%s` appears literally in a template" % crate_name
                rep.ob("C17.W1", "template:%s:%s:%s" % (crate_name, h["fn"], psrc_arm(gs)), ok, why, n.get("sp"))
    rep.floor("C17.W1", "templates naming an external crate", nt, 5)


def psrc_arm(gs):
    arms = [g[1].split("{")[0].split("(")[0] for g in gs if g[0] == "arm"]
    return "/".join(a.split("::")[-1] for a in arms) or "top"


CONTEXT_TYPES = ("&TypeSpace", "&Option<String>", "Option<&str>", "&TokenStream")


def run_w2(facts, rep):
    from lib import Canon
    c = facts.impl
    n_sites = 0
    for h in c.user_fns():
        np_ = len(h.get("params", []))
        cn = None
        k = 0
        for n, _ in walk(h["body"]):
            if n.get("k") in ("call", "mcall") and n.get("fn") == h["fn"]:
                cn = cn or Canon(c, h, 3)
                args = ([n["recv"]] if n.get("k") == "mcall" else []) + list(n["args"])
                params = [cn.param_name(i) for i in range(np_)]
                for i, pn in enumerate(params):
                    if pn.replace("$", "") not in CONTEXT_TYPES or i >= len(args):
                        continue
                    got = cn.r(args[i])
                    n_sites += 1
                    rep.ob("C17.W2", "context-passed-through:%s#%d/%s" % (h["fn"], k, pn.replace("$", "")), got == pn,
                           "recursive call passes its %s on unchanged" % pn.replace("$", "") if got == pn else
                           "the recursive call on a child entry passes `%s` instead of the caller's %s: the nested type is rendered in a different context (e.g. without the module prefix), so the reported/emitted path does not resolve" % (got[:60], pn.replace("$", "")), n.get("sp"))
                k += 1
    rep.floor("C17.W2", "context arguments at recursive renderer calls", n_sites, 40)
