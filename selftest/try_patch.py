#!/usr/bin/env python3
"""try_patch.py <patch> [PID ...] — apply a patch to a scratch copy of /repo and run the given checks (default: all) against it."""
import os
import sys
import harness

patch = os.path.abspath(sys.argv[1])
pids = sys.argv[2:] or harness.PROPS
with harness.Battery() as bat:
    repo, err = bat.scratch(patch)
    if err:
        print(err)
        sys.exit(2)
    for pid in pids:
        code, keys, text = bat.run(repo, pid)
        lines = [l.strip()[:260] for l in text.splitlines() if l.strip().startswith("violation") or "INFRA" in l or "Traceback" in l]
        print("%s exit=%d %s" % (pid, code, ("| " + " || ".join(lines[:3])) if lines else ""))
