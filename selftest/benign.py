#!/usr/bin/env python3
"""Silent-on-holding-code test: every patch under selftest/benign is a behaviour-preserving edit
(rename, reorder, if-let <-> match, extract/move a helper). Applied to a scratch copy of /repo, every
property's check must still exit 0. Exit 0 iff no check raises an alarm."""
import glob
import json
import os
import shutil
import subprocess
import sys
import tempfile

HERE = os.path.dirname(os.path.abspath(__file__))
VERIF = os.path.dirname(HERE)
PROPS = ["C%02d" % i for i in range(1, 20) if i != 4]


def main():
    only = sys.argv[1:]
    scratch = tempfile.mkdtemp(prefix="verif-benign-")
    bad = 0
    try:
        for patch in sorted(glob.glob(os.path.join(HERE, "benign", "*.patch"))):
            name = os.path.basename(patch)
            if only and not any(o in name for o in only):
                continue
            repo = os.path.join(scratch, "repo")
            if os.path.exists(repo):
                shutil.rmtree(repo)
            subprocess.check_call(["rsync", "-a", "--exclude", "target", "--exclude", ".git", "/repo/", repo + "/"])
            r = subprocess.run(["patch", "-p1", "-s", "-d", repo, "-i", patch], stdout=subprocess.PIPE, stderr=subprocess.STDOUT, text=True)
            if r.returncode != 0:
                print("SKIP     %-44s patch does not apply" % name)
                continue
            env = dict(os.environ, REPO=repo)
            alarms = []
            for pid in PROPS:
                out = subprocess.run([os.path.join(VERIF, "check"), pid, "quick"], cwd=VERIF, env=env, stdout=subprocess.PIPE, stderr=subprocess.STDOUT, text=True)
                if out.returncode != 0:
                    lines = [l.strip()[:170] for l in out.stdout.splitlines() if l.strip().startswith("violation") or "INFRA" in l or "Traceback" in l or "Error" in l]
                    alarms.append((pid, out.returncode, lines[:4]))
            if alarms:
                bad += 1
                print("ALARM    %-44s" % name)
                for pid, rc, lines in alarms:
                    for l in lines or ["exit=%d" % rc]:
                        print("           %s: %s" % (pid, l))
            else:
                print("SILENT   %-44s" % name)
    finally:
        shutil.rmtree(scratch, ignore_errors=True)
        cache = os.path.join(VERIF, ".cache")
        for d in os.listdir(cache):
            if d.startswith("facts-") or d.startswith("evidence-"):
                shutil.rmtree(os.path.join(cache, d), ignore_errors=True)
    print("%d benign edit(s) raised an alarm" % bad)
    return 1 if bad else 0


if __name__ == "__main__":
    sys.exit(main())
