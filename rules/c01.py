"""C01 — every accepted schema yields Rust that compiles (necessary conditions on the generator)."""
import re
from lib import (norm_arm, walk, nodes, ends, src, psrc, outcome, contains_node, pat_top_variants, short, calls_in, block_last,
                 strip_refs, guards, gtext, top_stmts, templates_in, call_graph)
import tmplparse as tp
import prov

EXPLANATION = (
    "Decides necessary conditions on the generator for 'the output parses, rendering never panics, no duplicate names', not type "
    "checking of generated code: (T1) every quote! template, instantiated with a placeholder per hole chosen from the hole's "
    "rustc type (identifier, string literal, number, path) and from the producer of token-stream holes (child templates inlined, "
    "known renderers by category), parses with syn as the grammar category its sink demands; (T2) no hole holding data sits in "
    "format-string position of write!/format!/panic! unless it passed the brace-escaping idiom or is a format string the "
    "generator built from an identifier; (T3) every tuple-like token list distinguishes arity 1: bare `( #(#x),* )` and every "
    "repetition in the payload of a tuple-variant constructor is under a `len() != 1` split; (W1) every panic-capable site "
    "reachable from the render entry points (to_stream, ToTokens, the Type/TypeEnum/TypeStruct/TypeNewtype API) matches a "
    "reviewed discharge idiom, anything else is reported with its entry point; (D1) sanitised names are checked for distinctness "
    "before they are committed (variants, properties, items); "
    "(W1, native names) every native type name that is not a literal is the very string that was parsed as a type path in the "
    "constructing function — the renderer parses it again with expect(); (X) imported: the cycle-breaking rules of C07, "
    "has_impl⇒emitted of C17, the Deserialize pairing and derive guards of C19, validator⊆renderer, finalisation and "
    "registration of shared default functions of C06, and the map-type agreement of C14."
    " (T3, ready-made lists) `#variant #fields,` where #fields is a parenthesised list built elsewhere is emitted only under a test of the arity."
)
ASSUMPTIONS = ["syn's grammar is the definition of 'parses'", "ingestion-time panics (todo!/unimplemented! on unsupported schema shapes) are listed as information, not decided"]

FMT_MACROS = {"write": 1, "writeln": 1, "format": 0, "print": 0, "println": 0, "eprint": 0, "eprintln": 0, "panic": 0, "unreachable": 0, "todo": 0, "unimplemented": 0, "format_args": 0}


# ---------------------------------------------------------------------------------------------- T2
def fmt_positions(tt, out):
    """(macro name, tokens of the format-string argument) for every formatting macro call inside a template."""
    for i, t in enumerate(tt):
        if t["t"] == "group":
            if i >= 2 and tt[i - 1]["t"] == "punct" and tt[i - 1]["s"] == "!" and tt[i - 2]["t"] == "ident" and tt[i - 2]["s"] in FMT_MACROS:
                args = tp.split_commas(t["body"])
                pos = FMT_MACROS[tt[i - 2]["s"]]
                if len(args) > pos:
                    out.append((tt[i - 2]["s"], args[pos]))
            fmt_positions(t["body"], out)
        elif t["t"] == "rep":
            fmt_positions(t["body"], out)


def rule_T2(facts, rep, c):
    n = 0
    for h in c.user_fns():
        for (node, anc, t) in templates_in(facts, c, h):
            if not t:
                continue
            found = []
            fmt_positions(t["tt"], found)
            for (mac, arg) in found:
                if len(arg) == 1 and arg[0]["t"] == "lit":
                    continue
                n += 1
                if not (len(arg) == 1 and arg[0]["t"] == "hole"):
                    rep.ob("C01.T2", "format-position:%s/%s!" % (h["fn"], mac), False, "format-string position of %s! holds `%s`" % (mac, tp.flat(arg)), node.get("sp"))
                    continue
                name = arg[0]["name"]
                # producer of the hole: nearest let, or pushes into a vector of that name
                ok = False
                why = "no recognised producer"
                clo = [a for a in anc if a.get("k") == "closure"]
                scopes = [clo[-1]["body"]] if clo else []
                scopes.append(h["body"])
                for scope in scopes:
                    for ln, _ in nodes(scope, "let"):
                        if ln["pat"].get("k") == "bind" and ln["pat"]["name"] == name and ln.get("init") is not None:
                            s = src(ln["init"])
                            if ".replace('{', \"{{\").replace('}', \"}}\")" in s and s.count(".replace(") == 2:
                                ok, why = True, "escaped: `%s`" % s[:90]
                    for pn, _ in nodes(scope, "mcall"):
                        if pn["name"] == "push" and src(pn["recv"]) == name and pn.get("args"):
                            a0 = pn["args"][0]
                            if a0.get("k") == "macro" and a0["name"] == "format":
                                tf = facts.template_at(a0["sp"])
                                lit = re.match(r'^"((?:[^"\\]|\\.)*)"', (tf or {}).get("text", ""))
                                pv = prov.Prov(c)
                                tags = set()
                                for x in a0.get("args", []):
                                    tags |= pv.of(h, x)
                                lit_s = lit.group(1) if lit else ""
                                # braces of the literal: only `{}` consumed by the generator and `{{}}` left for the generated format!
                                left = lit_s.replace("{{}}", "").replace("{}", "")
                                if "{" not in left and "}" not in left and tags and all(x.startswith("ir:") or x == "sanitize" for x in tags):
                                    ok, why = True, "generator-built format string \"%s\" over %s" % (lit_s, sorted(tags))
                    if ok:
                        break
                ordinal = sum(1 for o in rep.obligations if o["key"].startswith("C01.T2/format-position:%s/%s!#" % (h["fn"], mac)))
                rep.ob("C01.T2", "format-position:%s/%s!#%d" % (h["fn"], mac, ordinal), ok,
                       "#%s in format-string position of %s!: %s" % (name, mac, why) if ok else
                       "#%s is interpolated as the *format string* of %s! (%s): a value containing `{` or `}` yields code that does not compile" % (name, mac, why), node.get("sp"))
    rep.floor("C01.T2", "holes in format-string position", n, 2)


# ---------------------------------------------------------------------------------------------- T3
def paren_groups(tt, out, prev=None):
    for i, t in enumerate(tt):
        if t["t"] == "group":
            if t["d"] == "(":
                out.append((tt[i - 1] if i > 0 else None, t))
            paren_groups(t["body"], out)
        elif t["t"] == "rep":
            paren_groups(t["body"], out)


def rule_T3(facts, rep, c):
    n = 0
    for h in c.user_fns():
        idx = 0
        for (node, anc, t) in templates_in(facts, c, h):
            if not t:
                continue
            groups = []
            paren_groups(t["tt"], groups)
            for (prev, g) in groups:
                reps = [x for x in g["body"] if x["t"] == "rep"]
                if not reps:
                    continue
                call_like_fixed = prev is not None and prev["t"] == "ident" and prev["s"] not in ("Self",)
                if call_like_fixed:
                    continue  # derive(..), serde(..), contains(..): a fixed callee, not a tuple
                after_hole = prev is not None and prev["t"] == "hole"
                only_rep = len(g["body"]) == 1
                r = reps[0]
                trailing = (not r.get("sep")) and r["body"] and r["body"][-1]["t"] == "punct" and r["body"][-1]["s"] == ","
                comma_sep = r.get("sep") == ","
                if not after_hole and not (only_rep and (comma_sep or trailing)):
                    continue
                idx += 1
                n += 1
                gs = guards(anc, node)
                lens = [x for x in gs if x[0] in ("if", "else") and re.search(r"len\(\) (Ne|Eq) 1\)?$", x[1])]
                key = "%s#%d" % (h["fn"], idx)
                shape = tp.flat([g])
                if after_hole:
                    ok = bool(lens)
                    rep.ob("C01.T3", "arity1:variant-payload:" + key, ok,
                           "payload list `%s` is built under `%s`" % (shape[:50], lens[0][1][-40:]) if ok else
                           "`#%s%s` builds the payload of a tuple variant from a repetition without distinguishing arity 1: a 1-tuple variant is declared `V((T,))` but constructed `V(x)`" % (prev["name"], shape[:50]), node.get("sp"))
                elif comma_sep:
                    ok = bool(lens)
                    rep.ob("C01.T3", "arity1:tuple:" + key, ok,
                           "`%s` is used only when `%s`" % (shape[:40], lens[0][1][-40:]) if ok else
                           "`%s` renders a 1-tuple as `(x)`, which is not a tuple: the arity-1 case needs a trailing comma" % shape[:50], node.get("sp"))
                else:
                    rep.ob("C01.T3", "arity1:tuple:" + key, True, "`%s` keeps a trailing comma (valid for every arity)" % shape[:40])
    # the payload of a tuple variant handed over ready-made: `#variant #fields,` where #fields is itself `( .. )`
    from lib import binding_let
    for h in c.user_fns():
        idx = 0
        for (node, anc, t) in templates_in(facts, c, h):
            if not t:
                continue
            holes_at = {}
            for a_ in node.get("args", []):
                if a_.get("hole") and a_.get("sp"):
                    ln, col = a_["sp"].rsplit(":", 2)[1:3]
                    holes_at[(ln, col)] = a_

            def scan(tt):
                for i_ in range(len(tt) - 1):
                    x, y = tt[i_], tt[i_ + 1]
                    if x["t"] == "hole" and y["t"] == "hole" and (i_ + 2 >= len(tt) or (tt[i_ + 2]["t"] == "punct" and tt[i_ + 2]["s"] == ",")):
                        yield x, y
                for x in tt:
                    if x["t"] in ("group", "rep"):
                        for r_ in scan(x["body"]):
                            yield r_
            for x, y in scan(t["tt"]):
                arg = holes_at.get((str(y.get("line")), str(y.get("col"))))
                if arg is None:
                    continue
                bl = binding_let(h, arg)
                if bl is None or bl.get("init") is None:
                    continue
                prods = [facts.template_at(q.get("sp")) for q, _ in walk(bl["init"]) if q.get("k") == "macro" and q.get("name") == "quote"]
                prods = [p_ for p_ in prods if p_]
                if not prods or not all(len(p_["tt"]) == 1 and p_["tt"][0]["t"] == "group" and p_["tt"][0].get("d") == "(" for p_ in prods):
                    continue
                idx += 1
                gs = guards(anc, node)
                lens = [g_ for g_ in gs if g_[0] in ("if", "else") and re.search(r"len\(\) (Ne|Eq) 1\)?$", g_[1])]
                rep.ob("C01.T3", "arity1:variant-payload:%s#h%d" % (h["fn"], idx), bool(lens),
                       "the ready-made payload list is appended under `%s`" % lens[0][1][-40:] if lens else
                       "`#%s #%s` appends a parenthesised list that was built elsewhere as the payload of a variant without distinguishing arity 1: a 1-tuple `(T,)` becomes the variant `V(T,)` = `V(T)`, which is not the 1-tuple variant `V((T,))`, so serialisation differs" % (x["name"], y["name"]), node.get("sp"))
    rep.floor("C01.T3", "tuple-like token lists", n, 9)


# ---------------------------------------------------------------------------------------------- W1
PANIC_MACROS = {"panic", "unreachable", "todo", "unimplemented"}


def render_entries(c):
    out = []
    for q, f in c.fns.items():
        if f.get("derived"):
            continue
        if ends(q, "TypeSpace::to_stream") or (q.endswith("as quote::ToTokens>::to_tokens") and "TypeSpace" in q):
            out.append(q)
        elif re.match(r"^Type(Enum|Struct|Newtype)?<'a>::", q) and f.get("pub"):
            out.append(q)
    return out


def reachable(c, roots):
    g = call_graph([c])
    seen = set()
    via = {}
    st = list(roots)
    for r in roots:
        via[r] = r
    while st:
        q = st.pop()
        if q in seen:
            continue
        seen.add(q)
        for x in g.get(q, ()):
            if x in c.mir and x not in seen:
                via.setdefault(x, via.get(q, q))
                st.append(x)
    return seen, via


def classify_site(c, h, n, anc, kind, facts, pv):
    """Return (idiom, reason) or (None, why-not)."""
    gs = guards(anc, n)
    g = gtext(gs)
    s = src(n)
    if kind in ("unwrap", "expect"):
        r = src(n["recv"])
        if re.search(r"\.id_to_entry\.get\([^()]*(\([^()]*\))?[^()]*\)$", r) or ".id_to_entry.get(" in r:
            return "I1", "lookup of a TypeId held by the IR in id_to_entry (ids only come from the space: C16.W4/W5)"
        if ".ident_name.as_ref()" in r:
            return "I2", "Variant.ident_name is assigned for every variant when the enum is built (C08.W1)"
        if "to_string_pretty(" in r or "serde_json::to_string(" in r or r.startswith("to_string_pretty(") or r.startswith("to_string("):
            return "I4", "serialisation of a schemars Schema / serde_json value"
        if ".output_value(" in r:
            return "I6", "rendering of a default that validate_value accepted at add time (C06.D1/D2 decide validator ⊑ renderer)"
        if "Literal::from_str(" in r or "proc_macro2::Literal" in c.ty(n["recv"].get("ty")):
            return "I3", "numeric literal printed from a serde_json number"
        if "parse_str(" in r:
            arg = [x for x, _ in walk(n["recv"]) if x.get("k") in ("call",) and x.get("fn", "").endswith("parse_str")]
            a0 = arg[0]["args"][0] if arg and arg[0].get("args") else None
            tags = pv.of(h, a0) if a0 is not None else {"unknown"}
            if re.search(r"arm:TypeEntryDetails::(Integer|Float)", g) or "TypeEntryDetails::Integer(" in g:
                return "I3", "type name of an integer/float entry: a literal of the generator's own tables"
            if "DefaultFunction::Custom" in g:
                return "I3", "path of a default function the generator named itself (sanitize / built-in defaults::*)"
            if re.search(r"arm:TypeEntryDetails::Native\(", g) and h["fn"].endswith("output_value"):
                return "I13", "the native type name was already parsed by type_ident for the same entry earlier in the same rendering (a failure is reported there)"
            if "STD_NUM_NONZERO_PREFIX" in g or "starts_with(STD_NUM_NONZERO_PREFIX)" in g:
                return "I3", "NonZero type name from the generator's integer table"
            return None, "parse of a string of provenance %s can fail at render time" % sorted(tags)
        if ".next()" in r and "rsplit(" in r:
            return "I8", "rsplit always yields one element"
        if "NonZero" in r:
            return "I3", "generator table"
        return None, "unwrap/expect on `%s`" % r[:70]
    if kind == "macro":
        name = n["name"]
        if name == "format_ident":
            tags = set()
            for a in n.get("args", []):
                tags |= pv.of(h, a)
            bad = sorted(x for x in tags if not (x.startswith("ir:") or x in ("sanitize", "literal", "int")))
            if not bad:
                return "I7", "identifier from an IR name field / sanitiser (C08.W1)"
            if bad == ["api:Type<'a>::parameter_ident_with_lifetime#1"]:
                return "I10", "lifetime name is an argument of the public API parameter_ident_with_lifetime and must be an identifier by contract"
            return None, "format_ident! on a caller-supplied string %s panics if it is not an identifier" % bad
        if name in PANIC_MACROS:
            if infeasible_rematch(anc, n):
                return "I13", "wildcard arm of a re-match on the scrutinee of an enclosing match whose arm already fixes the variant"
            if re.search(r"arm:[^&]*TypeEntryDetails::Reference", g):
                return "I5", "Reference entries are never stored in the type space"
            if "unwrap_or_else" in g and ".output_value(" in g:
                return "I6", "rendering of a validated default (C06.D1)"
            f = c.fns.get(h["fn"], {})
            if f.get("output", "").startswith("(std::string::String, std::option::Option<proc_macro2::TokenStream>)"):
                return "I6", "property-default renderer: the cells it cannot render are rejected or classified Optional at add time (C06.D1/D2)"
            if "arm:Err(_)" in g and "from_str(" in g:
                return "I3", "numeric literal printed from a serde_json number with a generator type suffix"
            if re.search(r"arm:VariantDetails::Item\(_\) \| VariantDetails::Tuple\(_\)", g):
                # is this fn the renderer of internally tagged enums? (called from an `EnumTagType::Internal` arm)
                for hh in c.user_fns():
                    for x, xa in walk(hh["body"]):
                        if x.get("k") in ("call", "mcall") and x.get("fn") == h["fn"] and any(gg[0] == "arm" and "EnumTagType::Internal" in gg[1] for gg in guards(xa, x)):
                            return "I11", "internally tagged enums only hold Simple or Struct variants (checked below)"
            if "StructPropertyRename::Flatten" in g and "filter_map" in g:
                return "I12", "flattened members are structs, options or maps; the same case analysis runs on the default at add time (all_props)"
            return None, "%s!() reachable under %s" % (name, g[:80] or "no condition")
    if kind == "panic-call":
        if "EnumTagType::Untagged" in g and "VariantDetails::Simple" in g:
            return "I9", "untagged enums with several data-less variants are rejected at add time (checked below)"
        return None, "assertion / explicit panic under %s" % (g[:80] or "no condition")
    return None, "unclassified"


def infeasible_rematch(anc, n):
    """`n` sits in the `_` arm of a match whose scrutinee is (textually, `&` aside, a place expression of `self`/a by-reference
    binding) the scrutinee of an enclosing match, and the enclosing arm's variants are all listed by the inner match's
    other arms: the wildcard arm cannot be taken (`A(_) | B(_) => match x { A(..) => .., B(..) => .., _ => unreachable!() }`)."""
    chain = list(anc) + [n]
    ms = [(i, a) for i, a in enumerate(chain) if a.get("k") == "match" and a.get("src") == "normal"]
    if len(ms) < 2:
        return False
    ii, inner = ms[-1]
    arm_in = chain[ii + 1] if ii + 1 < len(chain) else None
    if not (isinstance(arm_in, dict) and arm_in.get("pat", {}).get("k") == "wild" and not arm_in.get("guard")):
        return False
    place = src(inner["scrut"]).lstrip("&").strip()
    if not re.fullmatch(r"(\*?self|[a-z_][a-z0-9_]*)(\.[a-z_][a-z0-9_]*)*", place):
        return False
    listed = set()
    for a in inner["arms"]:
        if a is not arm_in and not a.get("guard"):
            listed |= set(pat_top_variants(a["pat"]))
    for io, outer in ms[:-1]:
        if src(outer["scrut"]).lstrip("&").strip() != place:
            continue
        arm_out = chain[io + 1]
        if not isinstance(arm_out, dict) or "pat" not in arm_out:
            continue
        vs = set(pat_top_variants(arm_out["pat"]))
        if vs and "_" not in vs and vs <= listed:
            # the place must not be assigned between the two matches
            if not any(x.get("k") == "assign" and src(x["l"]).lstrip("*").startswith(place) for x, _ in walk(arm_out["body"])):
                return True
    return False


def rule_W1(facts, rep, c):
    pv = prov.Prov(c)
    entries = render_entries(c)
    rep.floor("C01.W1", "render entry points", len(entries), 14)
    seen, via = reachable(c, entries)
    tops = sorted({q.split("::{closure")[0] for q in seen})
    rep.floor("C01.W1", "functions reachable from the render entry points", len(tops), 25)
    # discharge facts that idioms rely on
    refs = []
    for h in c.user_fns():
        for n, anc in nodes(h["body"], "mcall"):
            if n["name"] == "insert" and src(n["recv"]).endswith("id_to_entry"):
                pass
    n_sites = 0
    counts = {}
    unclassified = []
    for q in tops:
        h = c.hir.get(q)
        if h is None or h.get("derived"):
            continue
        per = {}
        for n, anc in walk(h["body"]):
            kind = None
            k = n.get("k")
            if k == "mcall" and n["name"] in ("unwrap", "expect") and re.search(r"(Option|Result)<", c.ty(n["recv"].get("ty")) if isinstance(n["recv"], dict) else ""):
                kind = n["name"]
            elif k == "macro" and (n["name"] in PANIC_MACROS or n["name"] == "format_ident"):
                kind = "macro"
            elif k == "call" and n.get("fn", "").startswith("core::panicking::") and n.get("mac") in ("assert", "assert_eq", "assert_ne"):
                kind = "panic-call"
            if kind is None:
                continue
            n_sites += 1
            idiom, why = classify_site(c, h, n, anc, kind, facts, pv)
            if idiom:
                counts[idiom] = counts.get(idiom, 0) + 1
                continue
            what = n["name"] if k in ("mcall", "macro") else n.get("mac", "assert")
            ordk = (q, what)
            per[ordk] = per.get(ordk, 0) + 1
            key = "%s/%s#%d" % (q, what, per[ordk])
            rep.ob("C01.W1", "panic-site:" + key, False, "reachable from %s: %s" % (via.get(q, "?"), why), n.get("sp"))
    for idiom, cnt in sorted(counts.items()):
        rep.ob("C01.W1", "discharged:%s" % idiom, True, "%d sites discharged by idiom %s" % (cnt, idiom))
    rep.floor("C01.W1", "panic-capable sites classified", n_sites, 90)
    rep.sample({"rule": "C01.W1", "entries": entries[:6], "reachable_fns": len(tops), "sites": n_sites, "by_idiom": counts})
    # the native type name parsed (with expect) by the renderer: every construction site stores a literal or a string that
    # was itself validated as a type path in the constructing function
    from lib import Canon
    n_nat = 0
    for h in c.user_fns():
        cnn = None
        k_in = 0
        for n, anc in walk(h["body"]):
            if not (n.get("k") == "call" and re.search(r"TypeEntry::new_native(_params)?$", n.get("fn", "")) and n.get("args")):
                continue
            n_nat += 1
            a0 = strip_refs(n["args"][0])
            if a0.get("k") == "lit":
                continue
            cnn = cnn or Canon(c, h, 4)
            want = cnn.r(a0)
            validated = False
            for x, xa in walk(h["body"]):
                if x.get("k") == "call" and x.get("fn", "").endswith("parse_str") and "syn::TypePath" in c.ty(x.get("ty")) and x.get("args"):
                    if cnn.r(strip_refs(x["args"][0])) == want:
                        par = xa[-1] if xa else {}
                        # the failure must leave the function (is_err() => return, `?`, let-else)
                        leaves = (par.get("k") == "mcall" and par["name"] in ("is_err", "is_ok", "ok")) or par.get("k") in ("match", "letx", "let")
                        validated = validated or leaves
            key = "%s#%d" % (h["fn"], k_in)
            k_in += 1
            rep.ob("C01.W1", "native-name-validated:" + key, validated,
                   "the stored type name is the string that was parsed as a type path in this function" if validated else
                   "a native type name built from `%s` is stored without being parsed as a type path: the renderer parses it with expect(), so a string that is not a path panics in to_stream()" % want[:90], n.get("sp"))
    rep.floor("C01.W1", "construction sites of native types", n_nat, 8)
    # I5: Reference entries are never stored
    stored_ref = []
    for h in c.user_fns():
        for n, anc in nodes(h["body"], "mcall"):
            if n["name"] == "insert" and src(n["recv"]).endswith("id_to_entry") and "Reference" in src(n["args"]):
                stored_ref.append(h["fn"])
    at = [h for h in c.user_fns() if h["fn"].endswith("TypeSpace::assign_type")]
    ok = False
    if at and not stored_ref:
        first = block_last(at[0]["body"])
        if first.get("k") == "if" and first["cond"].get("k") == "letx" and psrc(first["cond"]["pat"]).startswith("TypeEntryDetails::Reference(") and first["cond"]["init"].get("k") == "field" and first["cond"]["init"]["name"] == "details":
            b_ = [x["name"] for x, _ in walk(first["cond"]["pat"]) if x.get("k") == "bind"]
            tl = strip_refs(block_last(first["then"]))
            ok = tl.get("k") == "path" and [tl.get("path")] == b_
    rep.ob("C01.W1", "I5:references-never-stored", ok, "assign_type resolves a Reference to its target id instead of storing it" if ok else "a Reference entry can be stored in id_to_entry")
    # untagged enums with indistinguishable data-less variants are rejected at add time (discharges the assert in the enum emitter)
    ue = [h for h in c.user_fns() if h["fn"].endswith("TypeSpace::untagged_enum")]
    if ue:
        ifs = [n for n, _ in nodes(ue[0]["body"], "if") if "VariantDetails::Simple" in src(n["cond"]) and "count()" in src(n["cond"]) and outcome(n["then"]) == "ret-err"]
        rep.ob("C01.W1", "I9:untagged-simple-variants-rejected", bool(ifs),
               "untagged_enum returns Err when more than one variant carries no data" if ifs else
               "an untagged enum with several data-less variants is accepted at add time and trips the assert! in the enum emitter while rendering", c.fns[ue[0]["fn"]].get("sp"))


    # I11: internally tagged enums only hold Simple / Struct variants
    mk = [h for h in c.user_fns() if any(x.get("k") == "struct" and "rest" not in x and x["path"].endswith("EnumTagType::Internal") for x, _ in walk(h["body"]))]
    if mk:
        helpers = [x for x in calls_in(mk[0]["body"]) if x in c.hir and re.search(r"\bVariant\b[^<]*Error>$", c.fns[x]["output"])]
        kinds_ = set()
        for q in helpers:
            for x, _ in walk(c.hir[q]["body"]):
                if x.get("k") in ("path", "call") and "VariantDetails::" in (x.get("path") or x.get("fn") or "") and (x.get("res") == "ctor"):
                    kinds_.add((x.get("path") or x.get("fn")).split("::")[-1])
        rep.ob("C01.W1", "I11:internal-variants-simple-or-struct", bool(helpers) and kinds_ <= {"Simple", "Struct"} and bool(kinds_), "internal variants are built as %s" % sorted(kinds_))
    # I7 relies on every source of an IR name being identifier-safe: the patch rename is caller-supplied and unvalidated
    tp_ = [h for h in c.user_fns() if h["fn"].endswith("util::type_patch")]
    if tp_:
        s = src(tp_[0]["body"])
        validated = "parse_str" in s or "sanitize(" in s
        rep.ob("C01.W1", "I7:patch-rename-is-an-identifier", validated,
               "the patch rename is validated / sanitised before it becomes a type name" if validated else
               "TypeSpacePatch::with_rename's string becomes the type name unvalidated: a value that is not an identifier panics in format_ident! while rendering", c.fns[tp_[0]["fn"]].get("sp"))


def run(facts, rep, tier):
    c = facts.impl
    rule_T2(facts, rep, c)
    rule_T3(facts, rep, c)
    rule_W1(facts, rep, c)
    import c08
    c08.check_distinct(facts, rep, "C01.D1")
    # siblings: every caller that wraps a schema in Option<..> must not hand a *required* name to the inner type,
    # because the wrapper newtype takes that name (two items of one name otherwise)
    co = [h for h in c.user_fns() if h["fn"].endswith("TypeSpace::convert_option")]
    if rep.floor("C01.D1", "option wrapper converter", len(co), 1):
        calls = [(h, n) for h in c.user_fns() for n, _ in walk(h["body"]) if n.get("k") in ("call", "mcall") and n.get("fn") == co[0]["fn"]]
        rep.floor("C01.D1", "callers of the option wrapper", len(calls), 2)
        for h, n in calls:
            a0 = src(n["args"][0])
            lets = [x for x, _ in nodes(h["body"], "let") if x["pat"].get("k") == "bind" and x["pat"]["name"] == a0]
            ok = False
            if lets and lets[0].get("init", {}).get("k") == "match":
                arms = [norm_arm(a) for a in lets[0]["init"]["arms"]]
                ok = any(a[0] == "Name::Required($0)" and a[2].startswith("Name::Suggested(format!(") for a in arms)
            key = "%s#%d" % (h["fn"], sum(1 for o in rep.obligations if o["key"].startswith("C01.D1/option-inner-renamed:%s#" % h["fn"])))
            rep.ob("C01.D1", "option-inner-renamed:" + key, ok,
                   "a required name becomes `<Name>Inner` for the wrapped type" if ok else
                   "the nullable-union path passes the required name `%s` to the inner type as is: the Option newtype and the inner type both take that name" % a0, n.get("sp"))
    import c01_t1
    c01_t1.rule_T1(facts, rep, c, tier)
