"""Rename recovery for function anchors.

The rules name the functions they are anchored in (`TypeSpace::struct_members`, `util::recase`, ..). A behaviour-preserving
rename or move of such a function must not raise an alarm. `rules/fn_baseline.json` (written by `python3 rules/fnalias.py
--write` on the tree the rules were confirmed against, and committed) records every non-derived fn's qualified name, signature
and callee profile. When the facts of the tree under analysis lack a baseline name, the fns that the baseline does not know
are compared with it: same receiver/module kind, same parameter and return types, most similar callee profile. A unique
match is aliased back to the baseline name *in the fact base* (every resolved reference to it), so the rules — and the
texts they render — see the name they were written for. Anything ambiguous is left alone and the anchor fails closed.
"""
import json
import os
import re
import sys

HERE = os.path.dirname(os.path.abspath(__file__))
BASELINE = os.path.join(HERE, "fn_baseline.json")
CHILD = ("body", "stmts", "tail", "init", "else", "args", "recv", "fields", "base", "scrut", "arms", "guard", "cond", "then",
         "e", "l", "r", "i", "es", "f", "params", "pat", "sub", "pats")


def _calls(node, out):
    if isinstance(node, dict):
        if node.get("k") in ("call", "mcall"):
            out.append(node.get("fn") or node.get("name") or "?")
        for v in node.values():
            if isinstance(v, (dict, list)):
                _calls(v, out)
    elif isinstance(node, list):
        for v in node:
            _calls(v, out)


def profile(d):
    """{qualified fn: {inputs, output, callees(sorted list of external callee names), size}}"""
    local = {f["fn"] for f in d["fns"]}
    hir = {h["fn"]: h for h in d["hir"]}
    out = {}
    for f in d["fns"]:
        if f.get("derived"):
            continue
        calls = []
        if f["fn"] in hir:
            _calls(hir[f["fn"]].get("body"), calls)
        # external callees and local constructors (`TypeEntryDetails::Box`) are stable under renaming of local fns
        ext = sorted(c for c in calls if c not in local or c.split("::")[-1][:1].isupper())
        out[f["fn"]] = {"inputs": f["inputs"], "output": f["output"], "callees": ext, "ncalls": len(calls), "kind": owner(f["fn"])}
    return out


def owner(q):
    """what the last segment hangs off: the impl type for methods, 'free' for module-level fns, the trait impl text otherwise"""
    if q.startswith("<"):
        return q.rsplit("::", 1)[0]
    parts = q.split("::")
    if len(parts) >= 2 and parts[-2][:1].isupper():
        return parts[-2]
    return "free"


def similarity(a, b):
    from collections import Counter
    ca, cb = Counter(a["callees"]), Counter(b["callees"])
    inter = sum((ca & cb).values())
    union = sum((ca | cb).values())
    s = inter / union if union else 1.0
    n = max(a["ncalls"], b["ncalls"], 1)
    return 0.8 * s + 0.2 * (1 - abs(a["ncalls"] - b["ncalls"]) / n)


def plan(base, cur):
    """{new qualified name: baseline qualified name}"""
    missing = [q for q in base if q not in cur]
    fresh = [q for q in cur if q not in base]
    pairs = []
    for m in missing:
        for n in fresh:
            if base[m]["inputs"] == cur[n]["inputs"] and base[m]["output"] == cur[n]["output"] and base[m]["kind"] == cur[n]["kind"]:
                pairs.append((similarity(base[m], cur[n]), m, n))
    pairs.sort(reverse=True)
    out, used_m, used_n = {}, set(), set()
    for s, m, n in pairs:
        if m in used_m or n in used_n:
            continue
        # unique best: no other candidate of m or n within 0.05
        rivals = [s2 for s2, m2, n2 in pairs if (m2 == m) != (n2 == n) and m2 not in used_m and n2 not in used_n and s2 >= s - 0.05]
        if rivals or s < 0.5:
            continue
        out[n] = m
        used_m.add(m)
        used_n.add(n)
    return out


def apply(d, mapping):
    """rewrite every resolved reference to a renamed fn back to its baseline name"""
    if not mapping:
        return d
    last = {n.split("::")[-1]: m.split("::")[-1] for n, m in mapping.items()}

    def fix(v):
        if v in mapping:
            return mapping[v]
        return v

    def walk(x):
        if isinstance(x, dict):
            for k in ("fn", "cid", "path"):
                v = x.get(k)
                if isinstance(v, str) and v in mapping and not (k == "path" and x.get("res") == "local"):
                    x[k] = mapping[v]
                    if x.get("k") == "mcall" and x.get("name") in last:
                        x["name"] = last[x["name"]]
            for v in x.values():
                if isinstance(v, (dict, list)):
                    walk(v)
        elif isinstance(x, list):
            for v in x:
                walk(v)
    # fns table first (name / id follow)
    for f in d["fns"]:
        if f["fn"] in mapping:
            old_last = f["fn"].split("::")[-1]
            f["fn"] = mapping[f["fn"]]
            f["name"] = f["fn"].split("::")[-1]
    walk(d["hir"])
    walk(d["mir"])
    return d


def recover(key, d):
    try:
        base = json.load(open(BASELINE)).get(key)
    except Exception:
        base = None
    if not base:
        return d, {}
    mapping = plan(base, profile(d))
    return apply(d, mapping), mapping


if __name__ == "__main__":
    if "--write" in sys.argv:
        sys.path.insert(0, HERE)
        import extract
        fd = extract.ensure(os.environ.get("REPO", "/repo"))
        out = {}
        for f in extract.EXPECTED:
            d = json.load(open(os.path.join(fd, f)))
            key = d["crate"] + ("-bin" if d["crate_type"] == "bin" else "")
            out[key] = profile(d)
        json.dump(out, open(BASELINE, "w"), indent=0, sort_keys=True)
        print("wrote", BASELINE, {k: len(v) for k, v in out.items()})
