typify_macro::import_types!(
    schema = "schema.json",
    derives = [::serde::Serialize],
);
