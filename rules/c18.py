"""C18 — the builder interface constructs exactly the valid structs (template clauses)."""
import re
from lib import (must_pass, arms_by_variant, norm_arm, walk, nodes, ends, src, psrc, outcome, contains_node, pat_top_variants, short, calls_in, block_last,
                 strip_refs, guards, gtext, top_stmts, templates_in)
import emit
import tmplparse as tp

EXPLANATION = (
    "Decides the shape of the builder templates and the single classification that feeds them, not what TryInto resolves to: "
    "(T1) the serde attribute and the builder's initial value of a property come from the same DefaultFunction value of one loop "
    "iteration: None -> Err(\"no value supplied for <name>\"), Default -> Ok(Default::default()), Custom(f) -> Ok(super::f()), and "
    "the attribute selector pairs Required/Optional/Default(v) with None/Default/Custom and the matching serde default; "
    "(T2) the per-property vectors are each pushed exactly once, unconditionally, per iteration of the one loop over the "
    "properties, and every repetition in the builder templates ranges over them; (T3) builder fields are Result<scoped type, "
    "String>, each setter is value.try_into().map_err(format!(<message naming the property>)), TryFrom<builder> is "
    "Ok(Self { p: value.p?, .. }), From<struct> is Self { p: Ok(value.p), .. }, scoped types and the custom default path use "
    "`super`; "
    "(T1, path-sensitive) `default` is pushed on every path of a selector arm that answers DefaultFunction::Default, and both "
    "translations of the classification have one unguarded arm per variant."
)
ASSUMPTIONS = ["TryInto conversions chosen by the caller"]

VECTORS = ["prop_doc", "prop_serde", "prop_default", "prop_name", "prop_error", "prop_type", "prop_type_scoped"]


def run(facts, rep, tier):
    c = facts.impl
    ems = emit.find_emitters(facts, c)
    if not rep.floor("C18.T1", "struct emitter", 1 if "struct" in ems else 0, 1):
        return
    em = ems["struct"]
    h = em.h
    cn = em.canon()
    from lib import scope_binding, Canon
    # the one loop over the entry's properties
    loop_body = None
    for n, _ in nodes(h["body"], "mcall"):
        if n["name"] == "for_each" and re.fullmatch(r"\S*~TypeEntryStruct\.properties\.iter\(\)", cn.r(n["recv"])) and n.get("args") and n["args"][0].get("k") == "closure":
            loop_body = n["args"][0]["body"]
    if loop_body is None:
        for n, _ in nodes(h["body"], "match"):
            if n.get("src") == "for" and re.search(r"~TypeEntryStruct\.properties", cn.r(n["scrut"])):
                loop_body = n
    if not rep.floor("C18.T2", "loop over the properties", 1 if loop_body is not None else 0, 1):
        return

    def pushes_into(let_stmt, scope):
        out = []
        for n, anc in walk(scope):
            if n.get("k") == "mcall" and n["name"] in ("push", "insert", "remove", "pop", "retain", "sort", "dedup", "truncate", "swap", "reverse", "clear", "extend") and isinstance(n["recv"], dict):
                rv = strip_refs(n["recv"])
                if rv.get("k") == "path" and rv.get("res") == "local":
                    bb = scope_binding(h, cn.ancestors(rv), rv["path"], rv)
                    if bb and bb[0] == "let" and bb[1] is let_stmt:
                        out.append((n, cn.ancestors(n)))
        return out

    vec_lets = {}
    for role in VECTORS:
        ls = em.let_of(role)
        if ls:
            vec_lets[role] = ls[0]
    rep.floor("C18.T2", "per-property vectors", len(vec_lets), 7)
    for role, let_stmt in vec_lets.items():
        allp = pushes_into(let_stmt, h["body"])
        inside = [(n, a) for (n, a) in allp if contains_node(loop_body, n)]
        pushes = [(n, a) for (n, a) in inside if n["name"] == "push"]
        uncond = [1 for (n, a) in pushes if not [g for g in guards(a, n) if g[0] in ("if", "else", "arm") or (g[0] == "adaptor" and not contains_node(loop_body, a[[id(x) for x in a].index(id(loop_body)) - 1] if False else None))] or True]
        # unconditional = no if/else/arm between the loop body and the push
        uncond = []
        for (n, a) in pushes:
            chain = list(a)
            start = 0
            for i, x in enumerate(chain):
                if x is loop_body:
                    start = i
            inner = guards(tuple(chain[start:]), n)
            if not [g for g in inner if g[0] in ("if", "else", "arm", "adaptor")]:
                uncond.append(n)
        ok = len(pushes) == 1 and len(uncond) == 1 and len(inside) == 1
        rep.ob("C18.T2", "pushed-once-per-property:%s" % role, ok, "%s: exactly one unconditional push per property" % role if ok else "%s is pushed %d times (%d unconditional) per property: the repetitions of the builder templates go out of step" % (role, len(pushes), len(uncond)), pushes[0][0].get("sp") if pushes else None)
        outside = [n for (n, a) in allp if not contains_node(loop_body, n)]
        rep.ob("C18.T2", "not-touched-elsewhere:%s" % role, not outside, "no other mutation of %s" % role if not outside else "%s is mutated outside the loop" % role)

    # T1: one classification
    gs = [n for n, _ in nodes(loop_body, "let") if n.get("init", {}).get("k") == "call" and n["init"].get("fn", "").endswith("generate_serde_attr") and n["pat"].get("k") == "tuple" and len(n["pat"]["pats"]) == 2]
    if rep.floor("C18.T1", "call to the serde attribute selector in the loop", len(gs), 1):
        sel = gs[0]

        def from_sel(e, idx):
            e = strip_refs(e)
            if e.get("k") == "path" and e.get("res") == "local":
                bb = scope_binding(h, cn.ancestors(e), e["path"], e)
                return bool(bb) and bb[0] == "let" and bb[1] is sel and bb[2] == idx
            return False

        ps = [n for (n, a) in pushes_into(vec_lets.get("prop_serde", {}), loop_body)] if "prop_serde" in vec_lets else []
        pd = [n for (n, a) in pushes_into(vec_lets.get("prop_default", {}), loop_body)] if "prop_default" in vec_lets else []
        ok = bool(ps) and bool(pd) and from_sel(ps[0]["args"][0], 0) and pd[0]["args"][0].get("k") == "match" and from_sel(pd[0]["args"][0]["scrut"], 1)
        rep.ob("C18.T1", "attr-and-builder-default-from-one-value", ok, "the two results of one generate_serde_attr call feed the serde attribute and the builder default" if ok else "the serde attribute and the builder default do not come from the same classification", sel.get("sp"))
        m = [pd[0]["args"][0]] if pd and pd[0]["args"][0].get("k") == "match" else []
        if rep.floor("C18.T1", "match on the DefaultFunction", len(m), 1):
            got = {}
            byv = arms_by_variant(m[0])
            plain = all(len(v) == 1 and not v[0].get("guard") for v in byv.values()) and set(byv) == {"Default", "Custom", "None"}
            rep.ob("C18.T1", "classification-is-total-and-unguarded", plain,
                   "one unguarded arm for each of None / Default / Custom" if plain else
                   "the translation of the classification has guarded or extra arms (%s): the builder's initial value can differ from the serde attribute chosen for the same property" % ", ".join("%s%s" % (psrc(a["pat"]), " if " + src(a["guard"]) if a.get("guard") else "") for a in m[0]["arms"]), m[0].get("sp"))
            for a in m[0]["arms"]:
                if a.get("guard"):
                    continue
                name = pat_top_variants(a["pat"])[0].split("::")[-1]
                tmpl = [(facts.template_at(x["sp"]) or {}).get("tt", []) for x, _ in walk(a["body"]) if x.get("k") == "macro" and x["name"] == "quote"]
                fm = [x for x, _ in walk(a["body"]) if x.get("k") == "macro" and x["name"] == "format"]
                ctor = [short(x["fn"]) for x, _ in walk(a["body"]) if x.get("k") == "call" and "PropDefault::" in x.get("fn", "")]
                got[name] = (ctor, tmpl, fm, a)
            d = got.get("Default", ([], [], [], None))
            ok = d[0] == ["PropDefault::Default"] and len(d[1]) == 1 and tp.flat(d[1][0]).replace(" ", "") == "Default::default()"
            rep.ob("C18.T1", "classification:Default", ok, "Default => PropDefault::Default(quote!{Default::default()})", d[3].get("sp") if d[3] else None)
            cu = got.get("Custom", ([], [], [], None))
            ok = cu[0] == ["PropDefault::Custom"] and len(cu[1]) == 1 and re.fullmatch(r"#\w+\(\)", tp.flat(cu[1][0]).replace(" ", "")) is not None
            if ok:
                holes = [x for x, _ in walk(cu[3]["body"]) if x.get("k") == "macro" and x["name"] == "quote"][0]["args"]
                pr = cn.r(holes[0]) if holes else ""
                ok = bool(re.fullmatch(r"parse_str\(\S*~Custom\)\.unwrap\(\)", pr)) or pr.startswith("parse_str(")
            rep.ob("C18.T1", "classification:Custom", ok, "Custom(f) => PropDefault::Custom(quote!{#f()}) with f parsed from the selector's fn name")
            no = got.get("None", ([], [], [], None))
            okn = no[0] == ["PropDefault::None"] and bool(no[2])
            if okn:
                tfm = facts.template_at(no[2][0]["sp"])
                okn = bool(tfm) and tfm["text"].startswith('"no value supplied for {}"') and bool(re.fullmatch(r"elem<\S*properties\.iter\(\)>\.name", cn.r(no[2][0]["args"])))
            rep.ob("C18.T1", "classification:None", okn, 'None => PropDefault::None(format!("no value supplied for {}", prop.name))')
    # builder mapping
    pdm = [n for n in em.let_of("prop_default") if n.get("init") is not None and [x for x, _ in nodes(n["init"], "match")]]
    if rep.floor("C18.T1", "builder mapping of the classification", len(pdm), 1):
        mm = [n for n, _ in nodes(pdm[0]["init"], "match")][0]
        got = {}
        byv = arms_by_variant(mm)
        plain = all(len(v) == 1 and not v[0].get("guard") for v in byv.values()) and set(byv) == {"Default", "Custom", "None"}
        rep.ob("C18.T1", "builder-mapping-is-total-and-unguarded", plain, "one unguarded arm for each of None / Default / Custom" if plain else "guarded or extra arms in the builder mapping", mm.get("sp"))
        for a in mm["arms"]:
            if a.get("guard"):
                continue
            name = pat_top_variants(a["pat"])[0].split("::")[-1]
            tmpl = [re.sub(r"#\w+", "#x", (facts.template_at(x["sp"]) or {}).get("text", "").replace(" ", "")) for x, _ in walk(a["body"]) if x.get("k") == "macro" and x["name"] == "quote"]
            got[name] = tmpl[0] if tmpl else ""
        want = {"None": "Err(#x.to_string())", "Default": "Ok(#x)", "Custom": "Ok(super::#x)"}
        for k, w in want.items():
            ok = got.get(k) == w
            rep.ob("C18.T1", "builder-initial-value:%s" % k, ok, "%s => %s" % (k, got.get(k)) if ok else "builder initial value for %s is `%s` (expected `%s`)" % (k, got.get(k), w), mm.get("sp"))
    # selector pairs state with function and attribute
    gsa = [x for x in c.user_fns() if x["fn"].endswith("generate_serde_attr")]
    if rep.floor("C18.T1", "serde attribute selector", len(gsa), 1):
        ms_ = [n for n, _ in nodes(gsa[0]["body"], "match") if n.get("src") == "normal" and n["scrut"].get("k") == "tup"]
        rep.floor("C18.T1", "selector table (match on (state, type details))", len(ms_), 1)
        m = ms_[0] if ms_ else {"arms": []}
        for a in m["arms"]:
            p = psrc(a["pat"])
            sm_ = re.search(r"StructPropertyState::(\w+)", p)
            if sm_ is None:
                rep.ob("C18.T1", "selector-arm-names-a-state:%s" % re.sub(r"[^A-Za-z_,()]", "", p)[:40], False,
                       "selector arm `%s` does not name the property state it serves: the pairing of state, serde attribute and builder default cannot be read" % p[:80], a.get("sp"))
                continue
            state = sm_.group(1)
            pushed = [(facts.template_at(x["sp"]) or {}).get("text", "").replace(" ", "") for x, _ in walk(a["body"]) if x.get("k") == "macro" and x["name"] == "quote"]
            res = src(block_last(a["body"]))
            cell = "|".join(v.split("::")[-1] for v in pat_top_variants(a["pat"]["pats"][1])) if a["pat"].get("k") == "tuple" and len(a["pat"].get("pats", [])) == 2 else re.sub(r"[^A-Za-z]", "", p.split(",", 1)[1])[:24]

            def pushes_default(x, exact):
                if x.get("k") != "mcall" or x["name"] != "push":
                    return False
                ts = [(facts.template_at(y["sp"]) or {}).get("text", "").replace(" ", "") for y, _ in walk(x) if y.get("k") == "macro" and y["name"] == "quote"]
                return any((t == "default") if exact else t.startswith("default=#") for t in ts)
            if a.get("guard"):
                rep.ob("C18.T1", "selector-arm-unguarded:%s/%s" % (state, cell), False, "selector arm `%s` is guarded by `%s`" % (p[:60], src(a["guard"])), a.get("sp"))
            if state == "Optional":
                ok = res == "DefaultFunction::Default" and must_pass(a["body"], lambda x: pushes_default(x, True))
                if res == "DefaultFunction::Default" and not ok:
                    rep.ob("C18.T1", "selector:%s/%s" % (state, cell), False, "selector arm %s answers DefaultFunction::Default (the builder starts at Ok(Default::default())) but `default` is not pushed on every path through the arm: serde requires the member on those paths" % p[:60], a.get("sp"))
                    continue
                why = "Optional => #[serde(default)] + DefaultFunction::Default"
            elif state == "Default":
                ok = res.startswith("DefaultFunction::Custom(") and must_pass(a["body"], lambda x: pushes_default(x, False))
                why = "Default(v) => #[serde(default = \"fn\")] + DefaultFunction::Custom(fn)"
            else:
                ok = res == "DefaultFunction::None" and not pushed
                why = "Required => no default attribute + DefaultFunction::None"
            rep.ob("C18.T1", "selector:%s/%s" % (state, cell), ok, why if ok else "selector arm %s pushes %s and returns %s" % (p[:60], pushed, res), a.get("sp"))

    # T3 shape of the builder templates
    bts = [t for t in em.templates if any(it["kind"] == "struct" for it in t.items) and any(g[0] == "if" and "struct_builder" in g[1] for g in t.conds())]
    if rep.floor("C18.T3", "builder template", len(bts), 1):
        t = bts[0]
        st = [it for it in t.items if it["kind"] == "struct"][0]
        body = tp.flat(st["body"]).replace(" ", "")
        rep.ob("C18.T3", "fields-are-results", body == "#(#prop_name:::std::result::Result<#prop_type_scoped,::std::string::String>,)*", "builder fields: #prop_name: Result<#prop_type_scoped, String>" if "Result<#prop_type_scoped" in body else "builder fields are `%s`" % body[:100], t.sp)
        impls = {im["trait"]: im for im in t.impls}
        d = impls.get("::std::default::Default")
        okd = bool(d) and tp.flat(d["fns"][0]["body"]).replace(" ", "") == "Self{#(#prop_name:#prop_default,)*}"
        rep.ob("C18.T3", "default-uses-classification", okd, "Default = Self { #(#prop_name: #prop_default,)* }")
        inh = [im for im in t.impls if im["trait"] == "" and im["self"] == "#type_name"]
        oks = False
        if inh and inh[0]["fns"]:
            f = inh[0]["fns"][0]
            bt = tp.flat(f["body"]).replace(" ", "")
            oks = f["name"] == "#prop_name" and f.get("rep") and bt == "self.#prop_name=value.try_into().map_err(|e|format!(#prop_error,e));self" and "T:::std::convert::TryInto<#prop_type_scoped>" in f["sig"].replace(" ", "")
        rep.ob("C18.T3", "setter-shape", oks, "fn #prop_name<T: TryInto<#prop_type_scoped>>(mut self, value: T) { self.p = value.try_into().map_err(|e| format!(#prop_error, e)); self }" if oks else "setter differs from try_into + error naming the property")
        tf = [im for k, im in impls.items() if k == "::std::convert::TryFrom<#type_name>"]
        okt = bool(tf) and tf[0]["self"] == "super::#type_name" and tp.flat(tf[0]["fns"][0]["body"]).replace(" ", "") == "Ok(Self{#(#prop_name:value.#prop_name?,)*})"
        rep.ob("C18.T3", "build-propagates-every-field", okt, "TryFrom<builder> for super::T = Ok(Self { #(p: value.p?,)* })" if okt else "build does not take every field with `?`")
        fr = [im for k, im in impls.items() if k == "::std::convert::From<super::#type_name>"]
        okf = bool(fr) and fr[0]["self"] == "#type_name" and tp.flat(fr[0]["fns"][0]["body"]).replace(" ", "") == "Self{#(#prop_name:Ok(value.#prop_name),)*}"
        rep.ob("C18.T3", "from-struct-wraps-every-field", okf, "From<super::T> = Self { #(p: Ok(value.p),)* }" if okf else "From<struct> does not wrap every field in Ok")
        # repetitions only over the aligned vectors
        reps = set()

        def rec(tt, inrep):
            for x in tt:
                if x["t"] == "rep":
                    rec(x["body"], True)
                elif x["t"] == "group":
                    rec(x["body"], inrep)
                elif x["t"] == "hole" and inrep:
                    reps.add(x["name"])
        rec(t.tt, False)
        bad = sorted(reps - set(VECTORS))
        rep.ob("C18.T3", "repetitions-over-aligned-vectors", not bad, "repetition holes: %s" % sorted(reps) if not bad else "repetition over %s which is not one of the per-property vectors" % bad)
        rep.ob("C18.T3", "added-to-builder-mod", any(n["name"] == "add_item" and "OutputSpaceMod::Builder" in src(n["args"][0]) and contains_node(n, t.node) for n, _ in nodes(h["body"], "mcall")), "the template is added to `pub mod builder`")
    # prop_error / prop_type_scoped: read from the provenance of the vectors
    hc = em.hole_canon()

    def prov(role):
        return hc.get(em.actual.get(role, role), "")
    rep.ob("C18.T3", "scoped-type-uses-super", bool(re.fullmatch(r"vec\[\S*\.id_to_entry\.get\(elem<\S*properties\.iter\(\)>\.type_id\)\.unwrap\(\)\.type_ident\(\S* Some\(\"super\"\.to_string\(\)\)\)\]", prov("prop_type_scoped"))), "scoped types are rendered relative to `super`: %s" % prov("prop_type_scoped")[-60:])
    fm = [x for x, _ in walk(loop_body) if x.get("k") == "macro" and x["name"] == "format" and "error converting" in ((facts.template_at(x["sp"]) or {}).get("text", ""))]
    ok = bool(fm) and (facts.template_at(fm[0]["sp"])["text"].startswith('"error converting supplied value for {}: {{}}"')) and bool(re.fullmatch(r"elem<\S*properties\.iter\(\)>\.name", cn.r(fm[0]["args"])))
    rep.ob("C18.T3", "setter-error-names-property", ok, 'prop_error = format!("error converting supplied value for {}: {{}}", prop.name)')
    rep.ob("C18.T3", "field-ident-is-property-name", bool(re.fullmatch(r"vec\[format_ident!\(elem<\S*properties\.iter\(\)>\.name\)\]", prov("prop_name"))), "field identifiers come from prop.name")
    bi = [t for t in em.templates if any(im["trait"] == "" and any(f["name"] == "builder" for f in im["fns"]) for im in t.impls)]
    ok = bool(bi) and tp.flat(bi[0].tt).replace(" ", "") == "impl#type_name{pubfnbuilder()->builder::#type_name{Default::default()}}"
    rep.ob("C18.T3", "builder-entry-point", ok, "impl T { pub fn builder() -> builder::T { Default::default() } }")
    rep.sample({"rule": "C18", "vectors": sorted(vec_lets)})
