"""C15 — macro, cargo subcommand and builder generate the same types (plumbing clauses)."""
import re
from lib import (Canon, norm_arm, walk, nodes, ends, src, psrc, outcome, contains_node, pat_top_variants, short, calls_in, block_last,
                 strip_refs, guards, gtext, top_stmts)

EXPLANATION = (
    "Decides the plumbing of the two front ends, not token-for-token equality of their output: (D1) every field of the macro's "
    "option struct and of the CLI's argument struct reaches the TypeSpaceSettings setter documented for it, with a value derived "
    "from that field; a collection-valued option is handed over element by element from an unfiltered iteration of the field, "
    "and a setter call is conditional only on the presence of its own option (or both branches of the condition call it); (D2) the two crate-name validators accept the same character classes; (D3) the CLI maps each "
    "`--unknown-crates` literal to the policy of the same name; both specifier parsers are evaluated (rules/minirust.py) over a "
    "lattice of specifiers - names with digits, hyphens, underscores, versions `*`, `!`, x, x.y.z, prerelease, with and without "
    "rename - and must accept every valid one, take it apart as documented (`[rename=]crate@version`, `[crate@]version`) and "
    "refuse names with other characters; the macro puts the map key in `rename` and the text before `@` in the crate name; (D4) the macro's `Type: ?Trait + Trait` syntax "
    "is evaluated on eleven bound lists and must yield the documented impl set (defaults {FromStr, Display}, `Trait` adds, `?Trait` "
    "removes, unknown traits ignored); the shape-based D4 rules are advisory when that evaluation is possible; (W1) each front end performs exactly TypeSpace::new(&settings) "
    "-> add_root_schema -> to_stream/ToTokens with no later mutation of the settings or the space, and the document it adds is the "
    "parse result of the file, never borrowed mutably or assigned to; no setter call is preceded by a conditional early exit of the "
    "loop or function it sits in; (W3) every front end hands a derive path to the generator in its written spelling (`a::b::C`: "
    "the user's string as given, or a syn path rendered without token spacing), and every macro site renders it the same way; (W2) in the CLI the only file "
    "write and the only print are dominated by the success of convert(), `-` means stdout and the default output is the input "
    "path with extension rs."
)
ASSUMPTIONS = ["clap and serde_tokenstream parse options as documented", "rustfmt/prettyplease only reformat"]

MACRO_SETTERS = {"derives": "with_derive", "struct_builder": "with_struct_builder", "patch": "with_patch", "replace": "with_replacement",
                 "convert": "with_conversion", "crates": "with_crate", "unknown_crates": "with_unknown_crates", "map_type": "with_map_type"}
CLI_SETTERS = {"additional_derives": "with_derive", "crates": "with_crate", "map_type": "with_map_type", "unknown_crates": "with_unknown_crates"}


def stmts_deep(h):
    """All statements (any block depth) with their source text."""
    out = []
    for n, anc in walk(h["body"]):
        if n.get("k") == "block":
            for st in n.get("stmts", []):
                out.append(st)
            if n.get("tail") is not None:
                out.append(n["tail"])
    return out


def setter_fed_by(h, binder_pred, setter):
    """A statement that both reads the option (binder_pred on its text) and calls the setter on the settings."""
    for st in stmts_deep(h):
        s = src(st)
        if (".%s(" % setter) in s and binder_pred(s):
            # smallest such statement
            return st
    return None


def char_classes(node):
    methods = set()
    chars = set()
    for x, _ in walk(node):
        if x.get("k") == "mcall" and x.get("fn", "").startswith("char::"):
            methods.add(x["name"])
        if x.get("k") == "lit" and "char" in x["v"]:
            chars.add(x["v"]["char"])
    return methods, chars



ITER_OK = r"(?:\.(?:iter|into_iter|clone|cloned|iter_mut)\(\))*"


def balanced(text, start, open_ch, close_ch):
    """text[start] is just after an opening bracket: return the content up to its matching close"""
    depth = 1
    i = start
    while i < len(text):
        ch = text[i]
        if ch == open_ch:
            depth += 1
        elif ch == close_ch and not (close_ch == ">" and text[i - 1] in "=-"):
            depth -= 1
            if depth == 0:
                return text[start:i]
        i += 1
    return text[start:]


def element_sources(text):
    """outermost iteration sources of the elements an argument is built from: `elem<SRC>` (closure adaptors) and the
    desugared for loop `Iterator::next(IntoIterator::into_iter(SRC))`"""
    out = []
    i = 0
    while i < len(text):
        if text.startswith("elem<", i):
            srcx = balanced(text, i + 5, "<", ">")
            out.append(srcx)
            i += 5 + len(srcx)
        elif text.startswith("IntoIterator::into_iter(", i):
            srcx = balanced(text, i + 24, "(", ")")
            out.append(srcx)
            i += 24 + len(srcx)
        else:
            i += 1
    return out


def check_setter_sites(rep, label, c, h, cn, field_pat):
    """D1 extras for every with_* call on the settings in front end `h`; field_pat(f) -> regex for the option field f"""
    from lib import cguards
    for n, anc in walk(h["body"]):
        if not (n.get("k") == "mcall" and n["name"].startswith("with_") and "TypeSpaceSettings" in n.get("fn", "")):
            continue
        args = [cn.r(a_) for a_ in n["args"]]
        text = " ; ".join(args)
        key = "%s:%s#%d" % (label, n["name"], sum(1 for o in rep.obligations if o["key"].startswith("C15.D1/every-element:%s:%s#" % (label, n["name"]))))
        srcs = element_sources(text)
        bad = [s_ for s_ in srcs if not re.fullmatch(r"[^ ]*~?\w*(?:\.\w+)+" + ITER_OK, s_) or re.search(r"\.(filter|filter_map|skip|skip_while|take|take_while|step_by|rev|dedup|retain)\(", s_)]
        rep.ob("C15.D1", "every-element:" + key, not bad, "elements come from an unfiltered iteration of the option" if srcs and not bad else "scalar option" if not srcs else
               "the elements handed to %s come from `%s`: some of the user's entries never reach the generator" % (n["name"], bad[0][-90:]), n.get("sp"))
        conds = [g for g in cguards(cn, anc, n) if g[0] in ("if", "else", "arm")]
        okc = True
        why = ""
        for g in conds:
            if g[0] == "else" and g[1].startswith("let Ok(_) = parse("):
                continue  # the macro's two input syntaxes
            if g[0] == "if" and re.fullmatch(r"let Some\(_\) = \S+", g[1]) and g[1].split(" = ", 1)[1] in text.replace("~Some", ""):
                continue  # `if let Some(x) = option { with_x(x) }`
            # both branches call the same setter
            twin = False
            for a in anc:
                if a.get("k") == "match" and a.get("src", "normal") == "normal" and a.get("arms") and \
                        all(any(x.get("k") == "mcall" and x["name"] == n["name"] for x, _ in walk(ar_["body"])) for ar_ in a["arms"]) and any(contains_node(ar_["body"], n) for ar_ in a["arms"]):
                    twin = True
                if a.get("k") == "if" and a.get("else") is not None:
                    t_has = any(x.get("k") == "mcall" and x["name"] == n["name"] for x, _ in walk(a["then"]))
                    e_has = any(x.get("k") == "mcall" and x["name"] == n["name"] for x, _ in walk(a["else"]))
                    if t_has and e_has and (contains_node(a["then"], n) or contains_node(a["else"], n)):
                        twin = True
            if twin:
                continue
            okc = False
            why = g[1]
        if okc:
            # an early exit (continue / break / return, `?` aside) in a statement that precedes the call in one of its enclosing blocks
            chain = list(anc) + [n]
            for i, a in enumerate(chain[:-1]):
                if a.get("k") != "block":
                    continue
                sts = list(a.get("stmts", [])) + ([a["tail"]] if a.get("tail") is not None else [])
                for st in sts:
                    if st is chain[i + 1]:
                        break
                    for x, xa in walk(st):
                        if x.get("k") in ("continue", "break") and any(y.get("k") == "loop" for y in xa):
                            continue  # leaves a loop nested in the earlier statement, not the block the call is in
                        if x.get("k") in ("continue", "break", "ret") and not any(y.get("k") == "closure" or (y.get("k") == "match" and y.get("src") == "try") for y in xa):
                            okc = False
                            why = "an early `%s` in `%s`" % ({"ret": "return"}.get(x["k"], x["k"]), cn.r(st)[:80])
        rep.ob("C15.D1", "applied-unconditionally:" + key, okc, "no condition other than the presence of the option" if okc else
               "%s is only called under `%s`: part of what the user configured is dropped by this front end" % (n["name"], why[:100]), n.get("sp"))

def run(facts, rep, tier):
    mc = facts["typify_macro"]
    cli = facts["cargo_typify"]
    clibin = facts["cargo_typify-bin"]

    # ------------------------------------------------------------ D1 macro
    ms = mc.adt("MacroSettings")
    dm = [h for h in mc.user_fns() if any(p.get("k") == "struct" and p["path"].endswith("MacroSettings") for n, _ in nodes(h["body"], "let") for p, _ in walk(n["pat"]))]
    if rep.floor("C15.D1", "macro option struct and the fn destructuring it", (1 if ms else 0) + len(dm), 2):
        h = dm[0]
        fields = [f["name"] for f in ms["variants"][0]["fields"]]
        binds = {}
        rest = False
        for n, _ in nodes(h["body"], "let"):
            for p, _ in walk(n["pat"]):
                if p.get("k") == "struct" and p["path"].endswith("MacroSettings"):
                    rest = p.get("rest")
                    for fname, fp in p["fields"]:
                        if fp.get("k") == "bind":
                            binds[fname] = fp["name"]
        rep.ob("C15.D1", "macro-options-destructured-exhaustively", not rest and set(binds) == set(fields), "MacroSettings{%s} without `..`" % ", ".join(sorted(binds)) if not rest else "destructuring uses `..`: a new option could be dropped silently", h.get("sp"))
        cnm = Canon(mc, h, 4)
        setter_calls = [(n["name"], " ; ".join(cnm.r(a_) for a_ in n["args"])) for n, _ in nodes(h["body"], "mcall") if n["name"].startswith("with_") and "TypeSpaceSettings" in n.get("fn", "")]
        for f in fields:
            if f == "schema":
                used = any(re.search(r"~MacroSettings\.schema\b", cnm.r(x)) for x, _ in walk(h["body"]) if x.get("k") == "path" and x.get("res") == "local")
                rep.ob("C15.D1", "macro-option:schema", used, "schema literal locates the input file")
                continue
            setter = MACRO_SETTERS.get(f)
            if setter is None:
                rep.ob("C15.D1", "macro-option:%s" % f, False, "option `%s` of the macro has no setter in the checker's table: it must be reviewed" % f)
                continue
            ok = any(nm == setter and re.search(r"~MacroSettings\.%s\b" % re.escape(f), args) for nm, args in setter_calls)
            rep.ob("C15.D1", "macro-option:%s" % f, ok, "`%s` feeds settings.%s" % (f, setter) if ok else "macro option `%s` never reaches TypeSpaceSettings::%s" % (f, setter))
        rep.floor("C15.D1", "macro options", len(fields), 9)
        check_setter_sites(rep, "macro", mc, h, cnm, None)

    # ------------------------------------------------------------ D1 CLI
    ca = cli.adt("CliArgs")
    conv = [h for h in cli.user_fns() if h["fn"].endswith("cargo_typify::convert")]
    if rep.floor("C15.D1", "CliArgs and convert()", (1 if ca else 0) + len(conv), 2):
        h = conv[0]
        fields = [f["name"] for f in ca["variants"][0]["fields"]]
        rep.floor("C15.D1", "CLI options", len(fields), 8)
        cnc = Canon(cli, h, 4)
        cli_calls = [(n["name"], [cnc.r(a_) for a_ in n["args"]], n) for n, _ in nodes(h["body"], "mcall") if n["name"].startswith("with_") and "TypeSpaceSettings" in n.get("fn", "")]
        for f in fields:
            if f in CLI_SETTERS:
                setter = CLI_SETTERS[f]
                ok = any(nm == setter and any(re.search(r"\$&CliArgs\.%s\b" % re.escape(f), a_) for a_ in args) for nm, args, _ in cli_calls)
                rep.ob("C15.D1", "cli-option:%s" % f, ok, "`args.%s` feeds settings.%s" % (f, setter) if ok else "CLI option `%s` never reaches TypeSpaceSettings::%s" % (f, setter))
            elif f in ("builder", "no_builder"):
                ub = [x for x in cli.user_fns() if x["fn"].endswith("CliArgs::use_builder")]
                fed = any(nm == "with_struct_builder" and args == ["$&CliArgs.use_builder()"] for nm, args, _ in cli_calls)
                body = Canon(cli, ub[0], 3).r(ub[0]["body"]) if ub else ""
                ok = fed and body == "!self.no_builder"
                rep.ob("C15.D1", "cli-option:%s" % f, ok, "with_struct_builder(args.use_builder()), use_builder = !no_builder" if ok else "builder selection is not `!no_builder` fed to with_struct_builder (use_builder: %s)" % body)
            elif f == "input":
                rd = [cnc.r(n) for n, _ in nodes(h["body"], "call") if n.get("fn", "").endswith("fs::read_to_string")]
                rep.ob("C15.D1", "cli-option:input", rd == ["read_to_string($&CliArgs.input)"], "input file is what is read")
            elif f == "output":
                rep.ob("C15.D1", "cli-option:output", True, "decided by W2", nontrivial=False)
            else:
                rep.ob("C15.D1", "cli-option:%s" % f, False, "CLI option `%s` has no setter in the checker's table: it must be reviewed" % f)
        check_setter_sites(rep, "cli", cli, h, cnc, None)
        for nm, args, n in cli_calls:
            if nm == "with_crate":
                ok = len(args) == 3 and args[0].endswith("~CrateSpec.name") and args[1].endswith("~CrateSpec.version") and args[2].endswith("~CrateSpec.rename")
                rep.ob("C15.D3", "cli-with_crate-argument-order", ok, "with_crate(spec.name, spec.version, spec.rename)" if ok else "with_crate(%s)" % ", ".join(x[-40:] for x in args), n.get("sp"))

    # ------------------------------------------------------------ D2 sibling validators
    preds = []
    for ckey, c in (("typify_macro", mc), ("cargo_typify", cli)):
        for h in c.user_fns():
            for n, _ in nodes(h["body"], "closure"):
                m, ch = char_classes(n["body"])
                if m & {"is_alphanumeric", "is_alphabetic", "is_ascii_alphanumeric", "is_ascii_alphabetic"}:
                    preds.append((ckey, h["fn"], frozenset(m), frozenset(ch), n.get("sp")))
    if rep.floor("C15.D2", "crate-name predicates (macro + CLI)", len(preds), 2):
        a = [p for p in preds if p[0] == "typify_macro"]
        b = [p for p in preds if p[0] == "cargo_typify"]
        if a and b:
            ok = a[0][2] == b[0][2] and a[0][3] == b[0][3]
            rep.ob("C15.D2", "crate-name-classes-agree", ok,
                   "both accept %s + %s" % (sorted(a[0][2]), sorted(a[0][3])) if ok else
                   "macro accepts %s+%s, CLI accepts %s+%s: a crate name valid for one front end is rejected by the other" % (sorted(a[0][2]), sorted(a[0][3]), sorted(b[0][2]), sorted(b[0][3])), b[0][4])

    # ------------------------------------------------------------ D3 CLI literals and specifier parsing
    if conv:
        h = conv[0]
        ms_ = [n for n, _ in nodes(h["body"], "match") if n.get("src") == "normal" and any(psrc(a["pat"]) == '"allow"' for a in n["arms"])]
        if rep.floor("C15.D3", "unknown-crates literal table", len(ms_), 1):
            got = {psrc(a["pat"]).strip('"'): src(block_last(a["body"])) for a in ms_[0]["arms"]}
            for lit, var in (("generate", "UnknownPolicy::Generate"), ("allow", "UnknownPolicy::Allow"), ("deny", "UnknownPolicy::Deny")):
                rep.ob("C15.D3", "unknown-crates:%s" % lit, got.get(lit) == var, '"%s" => %s' % (lit, got.get(lit)), ms_[0].get("sp"))
    # the two specifier parsers, decided by evaluation (rules/minirust.py) over a lattice of specifiers: every valid
    # `[rename=]crate@version` (CLI) / `[crate@]version` (macro value) is accepted and taken apart as documented, and a
    # name with a character outside [A-Za-z0-9_-] is refused
    import minirust as mr

    def vers_hook(mach, s_):
        if s_ == "*":
            return mr.some(("ctor", "Any", []))
        if s_ == "!":
            return mr.some(("ctor", "Never", []))
        if isinstance(s_, str) and re.fullmatch(r"\d+\.\d+\.\d+(-[0-9A-Za-z.-]+)?", s_):
            return mr.some(("ctor", "Version", [s_]))
        return mr.NONE
    NAMES = ["serde", "serde_json", "a-b", "k8s", "uuid1", "x_y-2"]
    VERS = [("*", "Any"), ("!", "Never"), ("1.0.0", "Version"), ("1.2.3", "Version"), ("0.8.22", "Version"), ("1.0.0-beta.1", "Version")]
    RENAMES = [None, "x", "my-uuid", "u_1"]
    fs = [h for h in cli.user_fns() if "CrateSpec" in h["fn"] and h["fn"].endswith("::convert")]
    if rep.floor("C15.D3", "CLI crate specifier parser", len(fs), 1):
        mach = mr.Machine(cli, hooks={"parse": vers_hook})
        bad = None
        nsc = 0
        try:
            for nm_ in NAMES:
                for vs_, vk_ in VERS:
                    for rn_ in RENAMES:
                        spec = ("%s=" % rn_ if rn_ else "") + "%s@%s" % (nm_, vs_)
                        mach.fuel = 50000
                        r_ = mach.run_fn(fs[0], [spec])
                        nsc += 1
                        if not (isinstance(r_, tuple) and r_[0] in ("Some", "Ok")):
                            bad = "the valid specifier `%s` is rejected" % spec
                            break
                        st_ = r_[1][2] if isinstance(r_[1], tuple) and r_[1][0] == "struct" else {}
                        got = (st_.get("name"), (st_.get("version") or (None, None))[1], st_.get("rename"))
                        want = (nm_, vk_, mr.some(rn_) if rn_ else mr.NONE)
                        if got != want:
                            bad = "`%s` is taken apart as crate %r, version kind %r, rename %r (documented: crate %r, %r, rename %r)" % (spec, got[0], got[1], got[2], nm_, vk_, rn_)
                            break
                    if bad:
                        break
                if bad:
                    break
            for spec in ("noat", "a=b", "a b@1", "a/b@1.0.0", "x=a b@1", "x y=a@1", "a@"):
                if bad:
                    break
                mach.fuel = 50000
                r_ = mach.run_fn(fs[0], [spec])
                nsc += 1
                if isinstance(r_, tuple) and r_[0] in ("Some", "Ok"):
                    bad = "the malformed specifier `%s` is accepted" % spec
        except mr.Unknown as e_:
            bad = "not evaluable (%s)" % e_
        rep.ob("C15.D3", "cli-specifier-parsed-as-documented", bad is None, "evaluated on %d specifiers: `[rename=]crate@version` with digits, hyphens, underscores, `*`, `!`" % nsc if bad is None else
               "the CLI's crate specifier parser is wrong: %s" % bad, fs[0].get("sp") or cli.fns[fs[0]["fn"]].get("sp"))
    # macro: the map key is a crate name, kept as written
    cn_de = [h for h in mc.user_fns() if "CrateName" in h["fn"] and "deserialize" in h["fn"]]
    if rep.floor("C15.D3", "macro crate name deserializer", len(cn_de), 1):
        machk = mr.Machine(mc, hooks={"deserialize": lambda mach, d_: ("Ok", d_), "invalid_value": lambda mach, *a_: ("ctor", "DeError", [])})
        badk = None
        try:
            for nm_ in NAMES + ["my-crate"]:
                machk.fuel = 50000
                r_ = machk.run_fn(cn_de[0], [nm_])
                got = r_[1][2][0] if isinstance(r_, tuple) and r_[0] == "Ok" and isinstance(r_[1], tuple) and r_[1][0] == "ctor" and r_[1][2] else (r_[1] if isinstance(r_, tuple) and r_[0] == "Ok" else None)
                if got != nm_:
                    badk = "the crate name `%s` is stored as %r: the generator looks crates up under the name the schema's x-rust-type states, so the entry is never found (or found for another crate)" % (nm_, got)
                    break
            for nm_ in ("a b", "a/b"):
                if badk:
                    break
                r_ = machk.run_fn(cn_de[0], [nm_])
                if isinstance(r_, tuple) and r_[0] == "Ok":
                    badk = "the malformed crate name `%s` is accepted" % nm_
        except mr.Unknown as e_:
            badk = "not evaluable (%s)" % e_
        rep.ob("C15.D3", "macro-crate-name-as-written", badk is None, "crate names (with digits, hyphens, underscores) are kept as written" if badk is None else
               "the macro's crate name parser is wrong: %s" % badk, cn_de[0].get("sp") or mc.fns[cn_de[0]["fn"]].get("sp"))
    # macro: the map value "orig@version" / "version"
    de = [h for h in mc.user_fns() if "MacroCrateSpec" in h["fn"] and "deserialize" in h["fn"]]
    if rep.floor("C15.D3", "macro crate spec deserializer", len(de), 1):
        machm = mr.Machine(mc, hooks={"parse": vers_hook, "deserialize": lambda mach, d_: ("Ok", d_), "invalid_value": lambda mach, *a_: ("ctor", "DeError", [])})
        bad = None
        nsc = 0
        try:
            for vs_, vk_ in VERS:
                for nm_ in [None] + NAMES:
                    val = ("%s@" % nm_ if nm_ else "") + vs_
                    machm.fuel = 50000
                    r_ = machm.run_fn(de[0], [val])
                    nsc += 1
                    if not (isinstance(r_, tuple) and r_[0] == "Ok"):
                        bad = "the valid value `%s` is rejected" % val
                        break
                    st_ = r_[1][2] if isinstance(r_[1], tuple) and r_[1][0] == "struct" else {}
                    got = (st_.get("original"), (st_.get("version") or (None, None))[1])
                    want = (mr.some(nm_) if nm_ else mr.NONE, vk_)
                    if got != want:
                        bad = "`%s` is taken apart as original %r, version kind %r (documented: original crate %r, %r)" % (val, got[0], got[1], nm_, vk_)
                        break
                if bad:
                    break
            for val in ("a b@1", "a/b@*", "serde@", "nonsense"):
                if bad:
                    break
                machm.fuel = 50000
                r_ = machm.run_fn(de[0], [val])
                nsc += 1
                if isinstance(r_, tuple) and r_[0] == "Ok":
                    bad = "the malformed value `%s` is accepted" % val
        except mr.Unknown as e_:
            bad = "not evaluable (%s)" % e_
        rep.ob("C15.D3", "macro-spec-split", bad is None, "evaluated on %d values: `[crate@]version`" % nsc if bad is None else
               "the macro's crate value parser is wrong: %s" % bad, de[0].get("sp") or mc.fns[de[0]["fn"]].get("sp"))
    if dm:
        h = dm[0]
        cnm2 = Canon(mc, h, 3)
        wc = [n for n, _ in nodes(h["body"], "mcall") if n["name"] == "with_crate"]
        if rep.floor("C15.D3", "macro with_crate calls", len(wc), 2):
            def red(s_):
                m_ = re.fullmatch(r"Some\(elem<.*>(\.0~CrateName)\)", s_)
                if m_:
                    return "Some(%s)" % m_.group(1)
                m_ = re.fullmatch(r"elem<.*>(\.0~CrateName|\.1~MacroCrateSpec\.\w+(~Some)?)", s_)
                return m_.group(1) if m_ else s_
            forms = sorted(tuple(red(cnm2.r(a_)) for a_ in n["args"]) for n in wc)
            ok = forms == [(".0~CrateName", ".1~MacroCrateSpec.version", "None"), (".1~MacroCrateSpec.original~Some", ".1~MacroCrateSpec.version", "Some(.0~CrateName)")]
            rep.ob("C15.D3", "macro-rename-is-map-key", ok, "with_crate(key, version, None) / with_crate(original, version, Some(key))" if ok else "with_crate forms: %s" % (forms,), wc[0].get("sp"))

    # ------------------------------------------------------------ D4 impls syntax
    ti = [h for h in mc.user_fns() if h["fn"].endswith("into_name_and_impls")]
    R4 = rep
    if ti:
        # decided by evaluation: for every list of `Trait` / `?Trait` bounds the resulting impl set is the documented one
        # (defaults {FromStr, Display}, each `Trait` added, each `?Trait` removed, unknown traits ignored)
        import minirust as mr4
        mach4 = mr4.Machine(mc, hooks={"to_token_stream": lambda mach, r_: r_})
        scen = [[], [("Maybe", "Display")], [("Maybe", "FromStr")], [("None", "Default")], [("Maybe", "Display"), ("None", "Default")], [("None", "Default"), ("Maybe", "FromStr")],
                [("Maybe", "Display"), ("Maybe", "FromStr")], [("None", "Display")], [("None", None)], [("Maybe", None), ("None", "Default")], [("Maybe", "Default")]]
        bad4 = None
        try:
            for items in scen:
                me = ("struct", "TypeAndImpls", {"type_name": "T", "colon_token": mr4.NONE, "impls": [("struct", "ImplTrait", {"modifier": ("ctor", m_, [] if m_ == "None" else ["?"]), "impl_name": mr4.some(("ctor", n_, [])) if n_ else mr4.NONE}) for m_, n_ in items]})
                mach4.fuel = 50000
                r_ = mach4.run_fn(ti[0], [me])
                got = sorted(x[1] for x in (r_[1][1] if isinstance(r_, tuple) and r_[0] == "tup" else []) if isinstance(x, tuple))
                want = {"FromStr", "Display"}
                for m_, n_ in items:
                    if n_ is None:
                        continue
                    if m_ == "None":
                        want.add(n_)
                    else:
                        want.discard(n_)
                if got != sorted(want) or len(got) != len(set(got)):
                    txt = " + ".join(("?" if m_ == "Maybe" else "") + (n_ or "Unknown") for m_, n_ in items) or "(no bounds)"
                    bad4 = "`T: %s` yields the impl set %s (documented: %s)" % (txt, got, sorted(want))
                    break
            if bad4 is None:
                # the type's own name: the tokens the user wrote, whatever the spacing (`dyn Trait`, `&'a T` need theirs)
                written = "crate :: Tagged < dyn crate :: Marker , & 'a str >"
                me = ("struct", "TypeAndImpls", {"type_name": written, "colon_token": mr4.NONE, "impls": []})
                mach4.fuel = 50000
                r_ = mach4.run_fn(ti[0], [me])
                nm_ = r_[1][0] if isinstance(r_, tuple) and r_[0] == "tup" else None
                toks = lambda t_: re.findall(r"[A-Za-z_0-9]+|'[a-z_]+|\S", t_ or "")
                if not isinstance(nm_, str) or toks(nm_) != toks(written):
                    bad4 = "the replacement type `%s` is handed to the generator as `%s`: tokens that need their spacing are fused, so the generator parses a different type" % (written, nm_)
        except mr4.Unknown as e_:
            bad4 = None
            rep.info("C15.D4 not evaluable (%s): the shape-based rules decide" % e_)
        else:
            rep.ob("C15.D4", "impl-set-as-documented", bad4 is None, "evaluated on %d bound lists: defaults {FromStr, Display}, `Trait` adds, `?Trait` removes, unknown traits are ignored" % len(scen) if bad4 is None else
                   "the macro's `Type: Trait + ?Trait` syntax is interpreted wrongly: %s" % bad4, ti[0].get("sp") or mc.fns[ti[0]["fn"]].get("sp"))

            class _Adv:
                def ob(self, rule, key, ok, detail="", where=None, nontrivial=True):
                    return rep.ob(rule, key, ok, detail, where, nontrivial) if ok else (rep.info("advisory (decided by evaluation): %s/%s" % (rule, key)) or False)

                def floor(self, rule, what, count, minimum):
                    return rep.floor(rule, what, count, minimum) if count >= minimum else (rep.info("advisory: anchor `%s` not found" % what) or False)
            R4 = _Adv()
    if R4.floor("C15.D4", "TypeAndImpls::into_name_and_impls", len(ti), 1):
        h = ti[0]
        consts = [x for q, x in mc.hir.items() if x.get("const") and "DEFAULT_IMPLS" in q]
        s = src(consts[0]["body"]) if consts else ""
        R4.ob("C15.D4", "default-impl-set", set(re.findall(r"TypeSpaceImpl::(\w+)", s)) == {"FromStr", "Display"}, "DEFAULT_IMPLS = %s" % s)
        m = [n for n, _ in nodes(h["body"], "match") if n.get("src") == "normal" and any("TraitBoundModifier" in x for a in n["arms"] for x in pat_top_variants(a["pat"]))]
        if R4.floor("C15.D4", "modifier table", len(m), 1):
            got = {}
            from lib import table_is_plain
            table_is_plain(R4, "C15.D4", "trait-modifier", m[0])
            for a in m[0]["arms"]:
                for t in pat_top_variants(a["pat"]):
                    got[t.split("::")[-1]] = src(block_last(a["body"]))
            ok = ".insert(" in got.get("None", "") and ".remove(" in got.get("Maybe", "")
            cnt = Canon(mc, h, 4)
            recvs = sorted({cnt.r(x["recv"]) for a in m[0]["arms"] for x, _ in walk(a["body"]) if x.get("k") == "mcall" and x["name"] in ("insert", "remove")})
            okr = recvs == ["DEFAULT_IMPLS.into_iter().collect()"]
            R4.ob("C15.D4", "modified-set-starts-from-defaults", okr, "the set that `Trait` / `?Trait` modify is DEFAULT_IMPLS, unconditionally" if okr else
                   "the impl set that the modifiers edit starts as `%s`, not as the documented defaults {FromStr, Display}: `T: ?Display` or `T: Trait` no longer means defaults minus/plus that trait" % (recvs[0][:120] if recvs else "?"), m[0].get("sp"))
            tail = cnt.r(block_last(h["body"]))
            okt = tail.endswith("DEFAULT_IMPLS.into_iter().collect().into_iter())") or (recvs and tail.endswith(recvs[0] + ".into_iter())"))
            R4.ob("C15.D4", "edited-set-is-returned", bool(okt), "the edited set is what is returned")
            R4.ob("C15.D4", "modifier-none-inserts-maybe-removes", ok, "None => %s, Maybe => %s" % (got.get("None"), got.get("Maybe")), m[0].get("sp"))

    # ------------------------------------------------------------ W1 same pipeline
    for label, c, h in (("macro", mc, dm[0] if dm else None), ("cli", cli, conv[0] if conv else None)):
        if h is None:
            continue
        seq = []
        for n, _ in walk(h["body"]):
            if n.get("k") in ("call", "mcall"):
                fn = n.get("fn", "")
                if "TypeSpace::" in fn and "TypeSpaceSettings" not in fn:
                    seq.append(fn.split("::")[-1])
                if "TypeSpaceSettings::" in fn:
                    seq.append("settings." + fn.split("::")[-1])
                if fn.endswith("as quote::ToTokens>::to_tokens") and "TypeSpace" in fn:
                    seq.append("to_tokens")
            if n.get("k") == "macro" and n["name"] == "quote" and any(mc.ty(a.get("ty")) in ("typify_impl::TypeSpace", "TypeSpace") or "TypeSpace" == mc.ty(a.get("ty")).split("::")[-1] for a in n.get("args", []) if a.get("hole")):
                seq.append("to_tokens")
        core = [x for x in seq if not x.startswith("settings.")]
        ok = core[:2] == ["new", "add_root_schema"] and core[2:] in (["to_stream"], ["to_tokens"])
        rep.ob("C15.W1", "pipeline:%s" % label, ok, "TypeSpace::%s" % " -> ".join(core) if ok else "front end %s runs TypeSpace::%s instead of new -> add_root_schema -> render" % (label, core), h.get("sp"))
        i_new = seq.index("new") if "new" in seq else -1
        late = [x for x in seq[i_new + 1:] if x.startswith("settings.")]
        rep.ob("C15.W1", "settings-frozen-before-new:%s" % label, i_new >= 0 and not late, "every setter precedes TypeSpace::new" if not late else "settings changed after the TypeSpace was created: %s" % late)
        new_calls = [n for n, _ in walk(h["body"]) if n.get("k") == "call" and n.get("fn", "").endswith("TypeSpace::new")]
        if new_calls:
            arg = strip_refs(new_calls[0]["args"][0])
            recvs = {src(strip_refs(n["recv"])) for n, _ in nodes(h["body"], "mcall") if n["name"].startswith("with_") and "TypeSpaceSettings" in n.get("fn", "")}
            ok = arg.get("k") == "path" and arg.get("res") == "local" and "TypeSpaceSettings" in c.ty(arg.get("ty")) and (recvs <= {arg["path"]})
            rep.ob("C15.W1", "new-takes-the-built-settings:%s" % label, ok, "TypeSpace::new takes the settings object every setter was applied to" if ok else "TypeSpace::new(%s) is not the settings object that was configured (%s)" % (src(new_calls[0]["args"][0]), sorted(recvs)))
        # the document handed to the type space is the parsed file, as parsed
        ars = [n for n, _ in walk(h["body"]) if n.get("k") == "mcall" and n["name"] == "add_root_schema"]
        if ars:
            from lib import binding_let, uses_of_let
            cnr = Canon(c, h, 5)
            doc = strip_refs(ars[0]["args"][0])
            t = cnr.r(doc)
            parsed = bool(re.match(r"(serde_json::)?(from_str|from_reader|from_slice)\(", t))
            bl = binding_let(h, doc)
            muts = []
            if bl is not None:
                uses = {id(u) for u in uses_of_let(h, bl)}
                for n, anc in walk(h["body"]):
                    if n.get("k") == "ref" and n.get("mut") and any(id(x) in uses for x, _ in walk(n["e"])):
                        muts.append(n)
                    if n.get("k") in ("assign", "assignop"):
                        lhs = n.get("l") or n.get("lhs") or n.get("place") or {}
                        if any(id(x) in uses for x, _ in walk(lhs)):
                            muts.append(n)
            ok = parsed and bl is not None and not muts
            rep.ob("C15.W1", "document-handed-over-as-parsed:%s" % label, ok, "add_root_schema receives the parsed document, untouched" if ok else
                   ("the document is %s before it is handed to the type space: this front end generates from something else than the file's content" %
                    ("modified (`%s`)" % src(muts[0])[:60] if muts else "not the parse result (`%s`)" % t[:80])), (muts[0] if muts else ars[0]).get("sp"))
    # post-processing in the macro: only the include_str! anchor
    if dm:
        qs = [n for n, _ in walk(dm[0]["body"]) if n.get("k") == "macro" and n["name"] == "quote"]
        t = facts.template_at(qs[-1]["sp"]) if qs else None
        txt = re.sub(r"#\s*\w+", "#x", re.sub(r"\s+", " ", t["text"])) if t else ""
        htypes = [mc.ty(a_.get("ty")) for a_ in qs[-1].get("args", []) if a_.get("hole")] if qs else []
        ok = txt == "#x const _ : & str = include_str ! (#x) ;" and len(htypes) == 2 and htypes[0].endswith("TypeSpace") and ("str" in htypes[1] or "String" in htypes[1])
        rep.ob("C15.W1", "macro-postprocessing", ok, "macro output = the type space's tokens + `const _: &str = include_str!(<schema path>);`" if ok else "macro output = `%s` (%s)" % (txt, htypes))
    if conv:
        cs_ = calls_in(conv[0]["body"])
        ret = Canon(cli, conv[0], 4).r(block_last(conv[0]["body"]))
        ok = any(x.endswith("rustfmt_wrapper::rustfmt") or x.endswith("::rustfmt") for x in cs_) and any(x.endswith("TypeSpace::to_stream") for x in cs_) and ret.startswith("Ok(rustfmt(format!(")
        rep.ob("C15.W1", "cli-postprocessing", ok, "CLI output = rustfmt(lint header + to_stream())" if ok else "CLI output is `%s`" % ret[:120])

    # ------------------------------------------------------------ W3 one spelling for derive paths
    # the generator orders and de-duplicates derives as strings (C14.T1): a front end that hands over a path in another
    # spelling than the written one (`a::b::C`) emits a derive twice when typify or another option names it too
    sites = []
    for label, c in (("macro", mc), ("cli", cli)):
        for h in c.user_fns():
            cnw = Canon(c, h, 5)
            cnw.inline_lets = True  # see through a rendering helper written with intermediate lets
            for n, anc in walk(h["body"]):
                if n.get("k") == "mcall" and n["name"] == "with_derive" and ("TypeSpaceSettings" in n.get("fn", "") or "TypeSpacePatch" in n.get("fn", "")):
                    t = cnw.r(n["args"][0])
                    red = t
                    for s_ in element_sources(t):
                        red = red.replace("elem<%s>" % s_, "E").replace("Iterator::next(IntoIterator::into_iter(%s))~Some.0" % s_, "E")
                    red = re.sub(r"^Iterator::next\(E\)~Some\.0", "E", red)
                    sites.append((label, h["fn"].split("::")[-1], red, n))
    if rep.floor("C15.W3", "derive hand-over sites in the front ends", len(sites), 3):
        WRITTEN = r"""E\.to_token_stream\(\)\.to_string\(\)(\.replace\((' '|" "), ""\)|\.split_whitespace\(\)\.collect\(\)|\.chars\(\)\.filter\(\|\.\.\| !elem<[^>]*>\.is_(ascii_)?whitespace\(\)\)\.collect\(\))"""
        per = {}
        for label, fn, red, n in sites:
            i = per.get((label, fn), 0)
            per[(label, fn)] = i + 1
            base = re.sub(r"(\.clone\(\)|\.to_string\(\)|\.to_owned\(\)|\.as_str\(\))+$", "", red)
            if base == "E" and ("String" in mc.ty(n["args"][0].get("ty")) or "str" in mc.ty(n["args"][0].get("ty")) or label == "cli"):
                cls = "verbatim"
            elif re.fullmatch(WRITTEN, red) or re.fullmatch(r"E\.segments\.iter\(\)\.map\(.*\)\.collect\(\)\.join\(\"::\"\)", red):
                cls = "written"
            elif re.fullmatch(r"E\.to_token_stream\(\)(\.to_string\(\))?", red) or re.fullmatch(r"E\.into_token_stream\(\)(\.to_string\(\))?", red):
                cls = "token-spaced"
            else:
                cls = "unreviewed"
            rep.ob("C15.W3", "derive-spelling:%s:%s#%d" % (label, fn, i), cls in ("verbatim", "written"),
                   {"verbatim": "the user's string is handed over as given", "written": "the path is rendered without token spacing (`a::b::C`)"}.get(cls) or
                   ("the derive path is handed to the generator as `%s` (%s): the token stream renders `a :: b :: C`, which does not merge with "
                    "`a::b::C` as typify and the builder interface spell it, so the derive is emitted twice or ordered differently" % (red[:100], cls)), n.get("sp"))
        ms_ = sorted({re.sub(r"(\.to_string\(\))+$", "", red) for label, fn, red, n in sites if label == "macro"})
        rep.ob("C15.W3", "derive-spelling-sites-agree:macro", len(ms_) == 1, "every macro site renders a derive path the same way" if len(ms_) == 1 else
               "the macro renders derive paths in %d different ways (%s): a derive named in `derives` and in a `patch` is not merged" % (len(ms_), " | ".join(x[-60:] for x in ms_)))

    # ------------------------------------------------------------ W2 nothing written on failure
    mains = [h for h in clibin.user_fns() if h["fn"].endswith("::main")]
    if rep.floor("C15.W2", "CLI main", len(mains), 1):
        h = mains[0]
        stmts = top_stmts(h)
        conv_ix = None
        for i, st in enumerate(stmts):
            if st.get("k") == "let" and any(x.endswith("cargo_typify::convert") for x in calls_in(st)) and st.get("init", {}).get("k") == "match" and st["init"].get("src") == "try":
                conv_ix = i
        rep.ob("C15.W2", "convert-result-propagated", conv_ix is not None, "`let contents = convert(&args)..?` at statement %s" % conv_ix if conv_ix is not None else "the result of convert() is not propagated with `?` before output")
        effects = []
        for i, st in enumerate(stmts):
            for n, _ in walk(st):
                if n.get("k") in ("call", "mcall") and re.search(r"std::fs::(write|File::create|OpenOptions|rename|copy)", n.get("fn", "")):
                    effects.append((i, n.get("fn"), n.get("sp")))
                if n.get("k") == "macro" and n["name"] in ("print", "println", "eprint", "write", "writeln") and n["name"] in ("print", "println"):
                    effects.append((i, n["name"] + "!", n.get("sp")))
        rep.floor("C15.W2", "output effects in main", len(effects), 2)
        for (i, what, sp) in effects:
            ok = conv_ix is not None and i > conv_ix
            rep.ob("C15.W2", "effect-after-success:%s" % what.split("::")[-1], ok, "%s happens after convert() succeeded" % what if ok else "%s can happen before/without convert() succeeding" % what, sp)
        # stdout iff output_path is None
        cnb = Canon(clibin, h, 4)
        for n, _ in nodes(h["body"], "if"):
            s_ = cnb.r(n)
            if ".output_path()" in s_ and n["cond"].get("k") == "letx":
                ok = bool(re.match(r"if let Some\(_\) = (\S+)\.output_path\(\) write\(\1\.output_path\(\)~Some, convert\(\1\)\.wrap_err\(.*?\)\?\).* else print!\(convert\(\1\)\.wrap_err\(.*?\)\?\)$", s_))
                rep.ob("C15.W2", "file-iff-path-else-stdout", ok, "Some(path) => fs::write(path, contents), None => print!(contents), contents = convert(&args)?" if ok else "output branch is `%s`" % s_[:200], n.get("sp"))
    # no file writes anywhere else in the CLI crates
    extra = []
    for c in (cli, clibin):
        for h in c.user_fns():
            if h["fn"].endswith("::main"):
                continue
            for n, _ in walk(h["body"]):
                if n.get("k") in ("call", "mcall") and re.search(r"std::fs::(write|File::create|OpenOptions|remove_file|rename)", n.get("fn", "")):
                    extra.append((h["fn"], n["fn"]))
    rep.ob("C15.W2", "no-other-writes", not extra, "no file-writing call outside main" if not extra else "file written outside main: %s" % extra[:2])
    op = [h for h in cli.user_fns() if h["fn"].endswith("CliArgs::output_path")]
    if rep.floor("C15.W2", "CliArgs::output_path", len(op), 1):
        m = [n for n, _ in nodes(op[0]["body"], "match") if n.get("src") == "normal"]
        ok = False
        detail = ""
        if m:
            arms = {}
            for a in m[0]["arms"]:
                pk, g, b = norm_arm(a)
                arms[pk] = (a, src(a["body"]))
            some = arms.get("Some($0)")
            none = arms.get("None")
            if some and none:
                s1 = some[1]
                dash = [n for n, _ in nodes(some[0]["body"], "if") if '"-"' in src(n["cond"]) and " Eq " in src(n["cond"])]
                ok1 = bool(dash) and src(block_last(dash[0]["then"])) == "None" and src(block_last(dash[0]["else"])).startswith("Some(")
                s2 = none[1]
                ok2 = "self.input.clone()" in s2 and 'set_extension("rs")' in s2 and src(block_last(none[0]["body"])).startswith("Some(")
                ok = ok1 and ok2
                detail = "`-` => None (stdout); given path => that path; absent => input with extension rs"
        rep.ob("C15.W2", "output-path-mapping", ok, detail or "output_path does not implement the documented mapping", op[0].get("sp") or cli.fns[op[0]["fn"]].get("sp"))
