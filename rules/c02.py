"""C02 — every schema-valid JSON instance deserializes into the generated type (shape clauses)."""
import re
from lib import (Canon, cguards, norm_arm, walk, nodes, ends, src, psrc, outcome, contains_node, pat_top_variants, short, calls_in, block_last,
                 strip_refs, guards, gtext, top_stmts, templates_in)

EXPLANATION = (
    "Decides four shape clauses that are necessary for 'generation never makes a type narrower', not serde's acceptance "
    "behaviour: (W1) StructPropertyState::Required reaches a named property only on the branch where `required` contains its "
    "name; the Required answered by the default classifier is turned into Optional + Option<T>; flattened members are the tabled "
    "exception; (W2) every source of deny_unknown_fields = true is the `additionalProperties: false` arm, a value propagated "
    "from one such struct, or the uninhabited enum — a flag OR-ed across the variants of one enum closes its open siblings and "
    "is reported; (W3) code that compares a string with minLength/maxLength counts chars (shared with C05.T4); (W4) when the "
    "allocator returns an existing id because a type of that name is already registered, the two entries were compared."
)
ASSUMPTIONS = ["serde tag inference, untagged ordering and shadowing are not decided"]


def run(facts, rep, tier):
    c = facts.impl
    # ------------------------------------------------------------ W1
    sites = []
    for h in c.user_fns():
        for n, anc in walk(h["body"]):
            if n.get("k") == "path" and n.get("res") == "ctor" and n.get("path", "").endswith("StructPropertyState::Required") and n.get("ty") is not None:
                sites.append((h, n, anc))
    rep.floor("C02.W1", "constructions of StructPropertyState::Required", len(sites), 4)
    classifier = [q for q, f in c.fns.items() if not f.get("derived") and f["output"].endswith("StructPropertyState") and any("serde_json::Value" in t for t in f["inputs"])]
    REQ_TEST = r"\$&BTreeSet<String>\.contains\(\$&str\)"
    for h, n, anc in sites:
        key = "%s#%d" % (h["fn"], sum(1 for o in rep.obligations if o["key"].startswith("C02.W1/required-justified:%s#" % h["fn"])))
        cn = Canon(c, h, 4)
        gs = cguards(cn, anc, n)
        conds = [g for g in gs if g[0] == "if"]
        st = [a for a in anc if a.get("k") == "struct" and a["path"].endswith("StructProperty") and "rest" not in a]
        flatten = bool(st) and dict((k, src(v)) for k, v in st[-1]["fields"]).get("rename") == "StructPropertyRename::Flatten"
        if h["fn"] in classifier:
            callers = [(hh, x, xa) for hh in c.user_fns() for x, xa in walk(hh["body"]) if x.get("k") in ("call", "mcall") and x.get("fn") == h["fn"]]
            ok = bool(callers)
            for hh, x, xa in callers:
                m = [a for a in xa if a.get("k") == "match" and contains_node(a["scrut"], x)]
                good = False
                if m:
                    for arm in m[-1]["arms"]:
                        if "StructPropertyState::Required" in psrc(arm["pat"]):
                            wraps = any(y.get("k") == "assign" and any(z.endswith("TypeSpace::id_to_option") for z in calls_in(y["r"])) for y, _ in walk(arm["body"]))
                            good = wraps and src(block_last(arm["body"])) == "StructPropertyState::Optional"
                ok = ok and good
            rep.ob("C02.W1", "required-justified:" + key, ok, "classifier result: its caller maps Required to Optional + Option<T>" if ok else "the classifier's Required is used as is: a property that is not in `required` becomes mandatory", n.get("sp"))
        elif flatten:
            rep.ob("C02.W1", "required-justified:" + key, True, "tabled exception: flattened member (no name of its own on the wire)")
        elif any(re.fullmatch(REQ_TEST, g[1]) for g in conds):
            rep.ob("C02.W1", "required-justified:" + key, True, "on the branch `required.contains(prop_name)`")
        else:
            rep.ob("C02.W1", "required-justified:" + key, False, "a named property is marked Required without a test that the schema's `required` lists it (guards: %s)" % (gtext(gs) or "none"), n.get("sp"))
    # the branch test itself
    sp = [h for h in c.user_fns() if h["fn"].endswith("TypeSpace::struct_property")]
    if sp:
        cnp = Canon(c, sp[0], 4)
        ifs = [n for n, _ in nodes(sp[0]["body"], "if") if re.fullmatch(REQ_TEST, cnp.r(n["cond"]))]
        rep.ob("C02.W1", "required-iff-listed", bool(ifs) and src(block_last(ifs[0]["then"])) == "StructPropertyState::Required", "state = if required.contains(prop_name) { Required } else { classify(default) }" if ifs else "struct_property does not branch on required.contains(prop_name)")
        okc = False
        for hh in c.user_fns():
            for x, _ in walk(hh["body"]):
                if x.get("k") in ("call", "mcall") and x.get("fn") == sp[0]["fn"]:
                    a = [Canon(c, hh, 3).r(y) for y in x["args"]]
                    okc = len(a) == 4 and a[1] == "$&ObjectValidation.required" and re.match(r"elem<\$&ObjectValidation\.properties\.iter\(\)\.chain\(.*>\.0$", a[2]) is not None and re.match(r"elem<\$&ObjectValidation\.properties\.iter\(\)\.chain\(.*>\.1$", a[3]) is not None
        rep.ob("C02.W1", "required-set-is-the-schemas", okc, "struct_property(.., &validation.required, <property name>, <its schema>) over validation.properties")

    # ------------------------------------------------------------ W2
    n_src = 0
    for h in c.user_fns():
        # (a) the arm in the struct-member converter
        for n, _ in nodes(h["body"], "let"):
            if n["pat"].get("k") == "bind" and "deny" in n["pat"]["name"] and n.get("init", {}).get("k") == "match":
                for arm in n["init"]["arms"]:
                    val = src(block_last(arm["body"]))
                    if val == "true":
                        n_src += 1
                        g = src(arm.get("guard")) if arm.get("guard") else ""
                        ok = "Schema::Bool(false)" in g and " Eq " in g
                        rep.ob("C02.W2", "closed-source:%s/additionalProperties-false" % h["fn"], ok, "closed under `%s`" % g if ok else "deny_unknown_fields becomes true in arm `%s` guard `%s`: not the additionalProperties:false case" % (psrc(arm["pat"]), g), arm.get("sp"))
                    elif val != "false":
                        rep.ob("C02.W2", "closed-source:%s/other" % h["fn"], False, "deny_unknown_fields computed as `%s`" % val, arm.get("sp"))
        # (b) joins across variants
        for n, anc in walk(h["body"]):
            if n.get("k") in ("assign", "assignop") and "deny" in src(n["l"]):
                n_src += 1
                in_iter = [a for a in anc if a.get("k") == "closure"]
                how = "|=" if n.get("k") == "assignop" else "= " + src(n["r"])
                rep.ob("C02.W2", "closed-source:%s/or-join" % h["fn"], False,
                       "`%s %s` inside the loop over the variants: one closed variant closes every variant of the enum (the attribute is on the container), so valid instances of the open variants are rejected" % (src(n["l"]), how), n.get("sp"))
        # (c) literal true handed to an enum/struct constructor
        for n, _ in nodes(h["body"], "call"):
            if re.search(r"TypeEntry(Enum|Struct)::from_metadata$", n.get("fn", "")):
                args = [src(a) for a in n["args"]]
                if "true" in args:
                    n_src += 1
                    empty = any(a in ("vec!()", "Vec::new()") for a in args)
                    rep.ob("C02.W2", "closed-source:%s/literal" % h["fn"], empty, "literal `true` only for the uninhabited enum (no variants)" if empty else "deny_unknown_fields = true is hard-wired for a type with members", n.get("sp"))
    rep.floor("C02.W2", "sources of deny_unknown_fields", n_src, 6)
    # propagation from a destructured struct is by the field itself
    ev = [h for h in c.user_fns() if h["fn"].endswith("TypeSpace::external_variant")]
    if ev:
        cne = Canon(c, ev[0], 4)
        rets = sorted(set(re.sub(r"self\.convert_schema\(\$Name, \$&Schema\)\?\.0", "ty", cne.r(n)) for n, _ in walk(ev[0]["body"]) if n.get("k") == "tup" and len(n.get("es", [])) == 2 and "VariantDetails::" in cne.r(n["es"][0])))
        want = sorted(["(VariantDetails::Tuple(ty~TypeEntry.details~Tuple), false)", "(VariantDetails::Simple, false)", "(VariantDetails::Struct(ty~TypeEntry.details~Struct~TypeEntryStruct.properties), ty~TypeEntry.details~Struct~TypeEntryStruct.deny_unknown_fields)", "(VariantDetails::Item(self.assign_type(ty)), false)"])
        rep.ob("C02.W2", "variant-inherits-struct-flag", rets == want, "struct variant: the struct's own flag; tuple/unit/item: false" if rets == want else "external_variant returns %s" % rets)

    # ------------------------------------------------------------ W3 (shared with C05.T4)
    sv = [h for h in c.user_fns() if h["fn"].endswith("StringValidator::is_valid")]
    if rep.floor("C02.W3", "generator-side string filter", len(sv), 1):
        lens = [n for n, _ in nodes(sv[0]["body"], "mcall") if n["name"] in ("len", "count")]
        for i, n in enumerate(lens):
            ok = n["name"] == "count" and n["recv"].get("k") == "mcall" and n["recv"]["name"] == "chars"
            rep.ob("C02.W3", "length-in-chars:generator#%d" % i, ok, "`%s`" % src(n) if ok else "enum values are filtered by byte length `%s`: a valid non-ASCII value is unrepresentable in the generated enum" % src(n), n.get("sp"))
        rep.floor("C02.W3", "length measurements", len(lens), 2)

    # ------------------------------------------------------------ W4
    alloc = []
    for h in c.user_fns():
        for n, _ in nodes(h["body"], "if"):
            cond = n["cond"]
            if cond.get("k") == "letx" and re.search(r"name_to_id\.get\(", src(cond["init"])):
                alloc.append((h, n))
    if rep.floor("C02.W4", "name lookup in the allocator", len(alloc), 1):
        h, n = alloc[0]
        then = n["then"]
        compared = any(x.get("k") == "bin" and x["op"] in ("Eq", "Ne") for x, _ in walk(then)) or any(x.get("k") == "mcall" and x["name"] in ("eq", "ne") for x, _ in walk(then)) or "Err(" in src(then)
        rep.ob("C02.W4", "reused-name-is-same-type:%s" % h["fn"], compared,
               "the registered entry is compared with the new one before its id is reused" if compared else
               "a type whose derived name is already registered silently reuses the registered type without comparing structure: two different inline schemas that derive the same name share one type, and valid instances of the second are rejected", n.get("sp"))
