#!/usr/bin/env python3
"""Detection battery over the confirmed seeded changes in /verif/seeded.

For every seeded/<sid>/patch.diff: apply it to a scratch copy of /repo, run the check of the property it was written to
break (with --all-props: every check) and require exit 1 with a VIOLATION that is not only a floor/anchor message.
--record writes the observed `caught_by` (check -> violated rule keys) into seeded/<sid>/meta.json.
Exit 0 iff every seeded change is reported by the check of its own property.
usage: seeded.py [--record] [--all-props] [sid ...]"""
import json
import os
import sys
import harness


def run_seeded(bat, changes, allp=False, record=False):
    missed = []
    for sid, meta, patch in changes:
        own = meta["breaks_property"]
        repo, err = bat.scratch(patch)
        if err:
            print("%-6s PATCH DOES NOT APPLY (the tree moved on: re-derive the change): %s" % (sid, err[:120]))
            missed.append(sid)
            continue
        caught = {}
        for pid in (harness.PROPS if allp else [own]):
            code, keys, text = bat.run(repo, pid)
            if code == 1 and ("VIOLATION property=%s" % pid) in text:
                caught[pid] = keys
            elif code not in (0, 1):
                caught[pid] = ["CHECK-ERROR exit=%d" % code]
        real = [k for k in caught.get(own, []) if "/anchor:" not in k and not k.startswith("CHECK-ERROR")]
        if not real:
            missed.append(sid)
        print("%-6s %-8s %s" % (sid, "caught" if real else "MISSED", "; ".join("%s: %s" % (p, ", ".join(k[:90] for k in ks[:2])) for p, ks in sorted(caught.items()))))
        if record:
            meta["caught_by"] = [{"check": p, "violations": ks} for p, ks in sorted(caught.items())]
            json.dump(meta, open(os.path.join(harness.VERIF, "seeded", sid, "meta.json"), "w"), indent=1)
    return missed


def main():
    args = [a for a in sys.argv[1:] if not a.startswith("--")]
    changes = [c for c in harness.seeded_changes() if not args or c[0] in args]
    with harness.Battery() as bat:
        missed = run_seeded(bat, changes, "--all-props" in sys.argv, "--record" in sys.argv)
    print("%d seeded change(s) missed by the check of their own property" % len(missed))
    return 1 if missed else 0


if __name__ == "__main__":
    sys.exit(main())
