// tmpl — syn-based helper for the typify verification rules.
//   tmpl extract <repo-root> <rel-file>...   -> JSON on stdout: every macro
//        invocation in non-test code, and for quote!/format_ident! the token
//        tree with `#hole` / `#( .. ) sep *` structure and source positions.
//   tmpl parse                                -> JSONL {id,cat,text} on stdin,
//        JSONL {id,ok,err} on stdout: does `text` parse as grammar category `cat`.
use proc_macro2::{Delimiter, TokenStream, TokenTree};
use serde_json::{json, Value};
use std::io::{BufRead, Write};
use syn::visit::Visit;

fn tt_json(ts: TokenStream) -> Vec<Value> {
    let toks: Vec<TokenTree> = ts.into_iter().collect();
    let mut out = Vec::new();
    let mut i = 0;
    let is_star = |t: &TokenTree| matches!(t, TokenTree::Punct(p) if p.as_char() == '*');
    while i < toks.len() {
        match &toks[i] {
            TokenTree::Punct(p) if p.as_char() == '#' && i + 1 < toks.len() => match &toks[i + 1] {
                TokenTree::Ident(id) => {
                    let s = id.span().start();
                    out.push(json!({"t":"hole","name":id.to_string(),"line":s.line,"col":s.column+1}));
                    i += 2;
                    continue;
                }
                TokenTree::Group(g) if g.delimiter() == Delimiter::Parenthesis => {
                    let j = i + 2;
                    if j < toks.len() && is_star(&toks[j]) {
                        out.push(json!({"t":"rep","sep":Value::Null,"body":tt_json(g.stream())}));
                        i = j + 1;
                        continue;
                    }
                    if j + 1 < toks.len() && is_star(&toks[j + 1]) {
                        let sep = match &toks[j] {
                            TokenTree::Punct(p) => p.as_char().to_string(),
                            other => other.to_string(),
                        };
                        out.push(json!({"t":"rep","sep":sep,"body":tt_json(g.stream())}));
                        i = j + 2;
                        continue;
                    }
                    out.push(json!({"t":"punct","s":"#","joint":false}));
                    i += 1;
                    continue;
                }
                _ => {
                    out.push(json!({"t":"punct","s":"#","joint":false}));
                    i += 1;
                    continue;
                }
            },
            TokenTree::Group(g) => {
                let d = match g.delimiter() {
                    Delimiter::Parenthesis => "(",
                    Delimiter::Brace => "{",
                    Delimiter::Bracket => "[",
                    Delimiter::None => "",
                };
                out.push(json!({"t":"group","d":d,"body":tt_json(g.stream())}));
                i += 1;
            }
            TokenTree::Ident(id) => {
                out.push(json!({"t":"ident","s":id.to_string()}));
                i += 1;
            }
            TokenTree::Punct(p) => {
                out.push(json!({"t":"punct","s":p.as_char().to_string(),"joint":p.spacing()==proc_macro2::Spacing::Joint}));
                i += 1;
            }
            TokenTree::Literal(l) => {
                out.push(json!({"t":"lit","s":l.to_string()}));
                i += 1;
            }
        }
    }
    out
}

struct V {
    file: String,
    fnstack: Vec<String>,
    out: Vec<Value>,
}

fn is_cfg_test(attrs: &[syn::Attribute]) -> bool {
    attrs.iter().any(|a| {
        a.path().is_ident("cfg") && {
            let s = a.meta.require_list().map(|l| l.tokens.to_string()).unwrap_or_default();
            s.trim() == "test"
        }
    })
}

impl V {
    fn scan_tokens(&mut self, ts: TokenStream) {
        // find nested macro invocations `name ! ( .. )` inside a token stream
        let toks: Vec<TokenTree> = ts.into_iter().collect();
        let mut i = 0;
        while i < toks.len() {
            if let TokenTree::Group(g) = &toks[i] {
                // macro call?
                if i >= 2 {
                    if let (TokenTree::Ident(id), TokenTree::Punct(p)) = (&toks[i - 2], &toks[i - 1]) {
                        if p.as_char() == '!' {
                            self.record(&id.to_string(), id.span(), g.stream());
                            i += 1;
                            continue;
                        }
                    }
                }
                self.scan_tokens(g.stream());
            }
            i += 1;
        }
    }
    fn record(&mut self, name: &str, sp: proc_macro2::Span, tokens: TokenStream) {
        let st = sp.start();
        let structured = matches!(name, "quote" | "format_ident" | "quote_spanned");
        let mut v = json!({
            "file": self.file, "line": st.line, "col": st.column + 1, "name": name,
            "fn": self.fnstack.join("::"),
            "text": tokens.to_string(),
        });
        if structured {
            v["tt"] = Value::Array(tt_json(tokens.clone()));
        }
        self.out.push(v);
        self.scan_tokens(tokens);
    }
}

impl<'ast> Visit<'ast> for V {
    fn visit_item_mod(&mut self, m: &'ast syn::ItemMod) {
        if is_cfg_test(&m.attrs) {
            return;
        }
        self.fnstack.push(m.ident.to_string());
        syn::visit::visit_item_mod(self, m);
        self.fnstack.pop();
    }
    fn visit_item_fn(&mut self, f: &'ast syn::ItemFn) {
        if is_cfg_test(&f.attrs) {
            return;
        }
        self.fnstack.push(f.sig.ident.to_string());
        syn::visit::visit_item_fn(self, f);
        self.fnstack.pop();
    }
    fn visit_item_impl(&mut self, im: &'ast syn::ItemImpl) {
        if is_cfg_test(&im.attrs) {
            return;
        }
        let ty = &im.self_ty;
        let name = quote::quote!(#ty).to_string().replace(' ', "");
        self.fnstack.push(name);
        syn::visit::visit_item_impl(self, im);
        self.fnstack.pop();
    }
    fn visit_impl_item_fn(&mut self, f: &'ast syn::ImplItemFn) {
        if is_cfg_test(&f.attrs) {
            return;
        }
        self.fnstack.push(f.sig.ident.to_string());
        syn::visit::visit_impl_item_fn(self, f);
        self.fnstack.pop();
    }
    fn visit_macro(&mut self, m: &'ast syn::Macro) {
        let seg = m.path.segments.last().unwrap();
        self.record(&seg.ident.to_string(), seg.ident.span(), m.tokens.clone());
    }
}

fn parse_as(cat: &str, text: &str) -> Result<(), String> {
    let ts: TokenStream = text.parse().map_err(|e| format!("lex: {}", e))?;
    let wrap = |pre: &str, post: &str| -> Result<TokenStream, String> {
        format!("{} {} {}", pre, text, post).parse::<TokenStream>().map_err(|e| format!("lex: {}", e))
    };
    let file = |ts: TokenStream| syn::parse2::<syn::File>(ts).map(|_| ()).map_err(|e| e.to_string());
    match cat {
        "file" | "items" => file(ts),
        "type" => syn::parse2::<syn::Type>(ts).map(|_| ()).map_err(|e| e.to_string()),
        "expr" => syn::parse2::<syn::Expr>(ts).map(|_| ()).map_err(|e| e.to_string()),
        "attrs" => file(wrap("", "struct __X;")?),
        "variants" => file(wrap("enum __E {", "}")?),
        "fields" => file(wrap("struct __S {", "}")?),
        "stmts" => file(wrap("fn __f() {", "}")?),
        "fieldinits" => file(wrap("fn __f() { __S {", "} }")?),
        "meta" => file(wrap("#[serde(", ")] struct __X;")?),
        "metas" => file(wrap("#[serde(", ")] struct __X;")?),
        "paths" => file(wrap("#[derive(", ")] struct __X;")?),
        "arms" => file(wrap("fn __f() { match __x {", "} }")?),
        "implitems" => file(wrap("impl __X {", "}")?),
        "pat" => file(wrap("fn __f() { match __x {", "=> {} } }")?),
        "empty" => {
            if ts.is_empty() {
                Ok(())
            } else {
                Err("not empty".into())
            }
        }
        other => Err(format!("unknown category {}", other)),
    }
}

fn main() {
    let args: Vec<String> = std::env::args().collect();
    match args.get(1).map(|s| s.as_str()) {
        Some("extract") => {
            let root = &args[2];
            let mut all = Vec::new();
            let mut files = Vec::new();
            for rel in &args[3..] {
                let path = format!("{}/{}", root, rel);
                let src = match std::fs::read_to_string(&path) {
                    Ok(s) => s,
                    Err(e) => {
                        eprintln!("tmpl: cannot read {}: {}", path, e);
                        std::process::exit(2);
                    }
                };
                let ast = match syn::parse_file(&src) {
                    Ok(a) => a,
                    Err(e) => {
                        eprintln!("tmpl: cannot parse {}: {}", path, e);
                        std::process::exit(2);
                    }
                };
                let mut v = V { file: rel.clone(), fnstack: vec![], out: vec![] };
                v.visit_file(&ast);
                files.push(json!({"file": rel, "macros": v.out.len()}));
                all.extend(v.out);
            }
            let out = json!({"files": files, "macros": all});
            println!("{}", out);
        }
        Some("parse") => {
            let stdin = std::io::stdin();
            let stdout = std::io::stdout();
            let mut o = stdout.lock();
            for line in stdin.lock().lines() {
                let line = line.unwrap();
                if line.trim().is_empty() {
                    continue;
                }
                let v: Value = serde_json::from_str(&line).unwrap();
                let cat = v["cat"].as_str().unwrap_or("");
                let text = v["text"].as_str().unwrap_or("");
                let r = std::panic::catch_unwind(|| parse_as(cat, text));
                let res = match r {
                    Ok(Ok(())) => json!({"id": v["id"], "ok": true}),
                    Ok(Err(e)) => json!({"id": v["id"], "ok": false, "err": e}),
                    Err(_) => json!({"id": v["id"], "ok": false, "err": "panic in parser"}),
                };
                writeln!(o, "{}", res).unwrap();
            }
        }
        _ => {
            eprintln!("usage: tmpl extract <root> <files..> | tmpl parse");
            std::process::exit(2);
        }
    }
}
