#!/usr/bin/env python3
"""Regression battery: every case applies one patch to a scratch copy of /repo (outside /repo and /verif), runs one
property's check against the copy and requires a VIOLATION that names the expected rule instance. Reverse-applied `fix`
patches re-introduce the genuine defects that were repaired. Exit 0 iff every case is detected.
usage: run.py [substring of case name ...]"""
import sys
import harness


def run_cases(bat, cases):
    failed = []
    for case in cases:
        import os
        repo, err = bat.scratch(os.path.join(harness.HERE, case["patch"]), case.get("reverse", False))
        if err:
            print("MISSED   %-44s %s %s" % (case["name"], case["property"], err))
            failed.append(case["name"])
            continue
        code, keys, text = bat.run(repo, case["property"])
        hit = [k for k in keys if case["expect"] in k]
        ok = code == 1 and ("VIOLATION property=%s" % case["property"]) in text and bool(hit)
        print("%s %-44s %s %s" % ("DETECTED" if ok else "MISSED  ", case["name"], case["property"], hit[0][:150] if hit else "exit=%d %s" % (code, "; ".join(keys)[:300])))
        if not ok:
            failed.append(case["name"])
    return failed


def main():
    only = sys.argv[1:]
    cases = [c for c in harness.regression_cases() if not only or any(o in c["name"] for o in only)]
    with harness.Battery() as bat:
        failed = run_cases(bat, cases)
    print("%d case(s) missed" % len(failed))
    return 1 if failed else 0


if __name__ == "__main__":
    sys.exit(main())
