"""C08 — arbitrary JSON names map to valid identifiers and exact wire names (provenance clauses)."""
import re
from lib import (Canon, norm_arm, walk, nodes, ends, src, psrc, outcome, contains_node, pat_top_variants, short, calls_in, block_last,
                 strip_refs, guards, gtext, top_stmts, templates_in)
import prov

EXPLANATION = (
    "Decides where identifiers come from and that the raw name is what serde sees, not the sanitiser over all Unicode strings: "
    "(W1) every string turned into an identifier (format_ident!) is a projection of an IR name field (type name, property "
    "name, variant ident), a sanitiser result or a literal — the tabled exceptions are the caller-supplied lifetime and the "
    "module path from settings; each IR name field is assigned, at every constructor site, from the sanitiser (sanitize / recase / "
    "get_type_name, then the patch lookup) or from a literal that is an identifier; (W2) the sanitiser ends with the "
    "`syn::parse_str::<Ident>` test that appends `_` to keywords and prefixes names that do not start with an XID_Start "
    "character; (D1) a rename is recorded exactly when the identifier differs from the JSON name and carries the raw name "
    "(properties via recase, variants via raw_name != ident_name); (D2) sanitised names are checked for distinctness before they "
    "are committed: variants (twice, then abort), properties of one struct, items of the module; (D3) the replacement lookup and "
    "type naming use the same sanitiser and case; "
    "(D2, strengthened) a duplicate-field test that compares neighbours runs on the vector sorted by the compared identifier, "
    "and a registered name held by another id is rejected under exactly `existing != inserted id`, looked up under the key "
    "that is inserted."
)
ASSUMPTIONS = ["heck's case conversion and unicode-ident's XID tables"]

TABLED = {
    "api:Type<'a>::parameter_ident_with_lifetime#1": "lifetime name is supplied by the API caller of parameter_ident_with_lifetime",
    "settings:type_mod": "module path prefix comes from TypeSpaceSettings::with_type_mod (caller-supplied, not a JSON name)",
    "settings:patch.rename": "a patched type name is caller-supplied through TypeSpacePatch::with_rename (not a JSON name)",
}


def run(facts, rep, tier):
    c = facts.impl
    pv = prov.Prov(c)
    # ------------------------------------------------------------ W1a: format_ident! arguments
    n_sites = 0
    for h in c.user_fns():
        idx = 0
        for n, anc in walk(h["body"]):
            if not (n.get("k") == "macro" and n["name"] == "format_ident"):
                continue
            n_sites += 1
            idx += 1
            t = facts.template_at(n["sp"])
            lit = (t or {}).get("text", "")
            fmt = re.match(r'^"([^"]*)"', lit)
            fmt_s = fmt.group(1) if fmt else "?"
            tags = set()
            for a in n.get("args", []):
                tags |= pv.of(h, a)
            bad = sorted(x for x in tags if x.startswith("unknown") or (x.startswith("api:") and x not in TABLED) or (x.startswith("settings:") and x not in TABLED))
            ok = not bad and fmt_s == "{}"
            key = "%s#%d" % (h["fn"], idx)
            tab = sorted(x for x in tags if x in TABLED)
            rep.ob("C08.W1", "ident-provenance:" + key, ok,
                   "format_ident!(\"%s\", %s) ← %s%s" % (fmt_s, src(n["args"])[:40], sorted(tags - set(tab)), (" (tabled: %s)" % tab) if tab else "") if ok else
                   "identifier built from a string of unreviewed provenance %s (format \"%s\")" % (bad, fmt_s), n.get("sp"))
    rep.floor("C08.W1", "format_ident! sites", n_sites, 28)
    # Ident-typed holes come from format_ident! (or are locals bound from it)
    n_h = 0
    for h in c.user_fns():
        for n, anc in walk(h["body"]):
            if n.get("k") == "macro" and n["name"] == "quote":
                for a in n.get("args", []):
                    if a.get("hole") and c.ty(a.get("ty")).replace("&", "") in ("proc_macro2::Ident",):
                        n_h += 1
    rep.floor("C08.W1", "Ident-typed template holes", n_h, 60)
    # any other way of making an Ident
    others = []
    for h in c.user_fns():
        for n, _ in walk(h["body"]):
            if n.get("k") in ("call", "mcall") and re.search(r"proc_macro2::Ident::new(_raw)?$", n.get("fn", "")):
                others.append((h["fn"], n.get("sp")))
    rep.ob("C08.W1", "no-raw-ident-construction", not others, "identifiers are only made with format_ident!" if not others else "Ident::new used directly at %s" % others[:2])

    # ------------------------------------------------------------ W1b: IR name fields at constructor sites
    n_ctor = 0
    for h in c.user_fns():
        for n, anc in nodes(h["body"], "struct"):
            if "rest" in n:
                continue  # a pattern, not a constructor
            st = n["path"].split("::")[-1]
            for fname, fexpr in n["fields"]:
                if (st, fname) not in prov.IR_NAME_FIELDS:
                    continue
                n_ctor += 1
                key = "%s.%s@%s#%d" % (st, fname, h["fn"], sum(1 for o in rep.obligations if o["key"].startswith("C08.W1/name-field-source:%s.%s@%s#" % (st, fname, h["fn"]))))
                if st == "Variant":
                    s = src(fexpr)
                    ok = s == "None"
                    rep.ob("C08.W1", "name-field-source:" + key, ok, "Variant::new leaves ident_name unset; it is assigned from the sanitiser when the enum is built" if ok else "Variant.ident_name initialised with `%s`" % s, n.get("sp"))
                    continue
                tags = pv.of(h, fexpr)
                lits_ok = True
                if "literal" in tags or "format" in tags:
                    texts = [x["v"].get("str", "") for x, _ in walk(fexpr) if x.get("k") == "lit"]
                    for x, _ in walk(fexpr):
                        if x.get("k") == "macro" and x["name"] == "format":
                            tt = facts.template_at(x["sp"])
                            m = re.match(r'^"([^"]*)"', (tt or {}).get("text", ""))
                            texts.append((m.group(1) if m else "?").replace("{}", "0"))
                    # resolve a local bound to a literal / format!
                    e2 = prov.peel(fexpr)
                    if e2.get("k") == "path" and e2.get("res") == "local":
                        from lib import binding_let
                        for ln in [binding_let(h, e2)]:
                            if ln is not None and ln["pat"].get("k") == "bind" and ln.get("init") is not None:
                                for x, _ in walk(ln["init"]):
                                    if x.get("k") == "lit" and "str" in x["v"]:
                                        texts.append(x["v"]["str"])
                                    if x.get("k") == "macro" and x["name"] == "format":
                                        tt = facts.template_at(x["sp"])
                                        m = re.match(r'^"([^"]*)"', (tt or {}).get("text", ""))
                                        texts.append((m.group(1) if m else "?").replace("{}", "0"))
                    lits_ok = bool(texts) and all(re.fullmatch(r"[a-z_][a-z0-9_]*", x) for x in texts)
                    tags -= {"literal", "format", "int"}
                    tags = {x for x in tags if not x.startswith("unknown:local idx")}
                bad = sorted(x for x in tags if x.startswith("unknown") or x.startswith("api:") or (x.startswith("settings:") and x not in TABLED) or x.startswith("ir:"))
                ok = not bad and lits_ok
                rep.ob("C08.W1", "name-field-source:" + key, ok,
                       "%s.%s ← %s" % (st, fname, sorted(tags) or "identifier literal") if ok else "%s.%s is initialised from %s%s" % (st, fname, bad or sorted(tags), "" if lits_ok else " (literal is not an identifier)"), n.get("sp"))
    rep.floor("C08.W1", "constructor sites of IR name fields", n_ctor, 10)
    # Variant.ident_name assignment
    em = [h for h in c.user_fns() if h["fn"].endswith("TypeEntryEnum::from_metadata")]
    if rep.floor("C08.W1", "enum constructor", len(em), 1):
        cne = Canon(c, em[0], 4)
        asg = [cne.r(n) for n, _ in nodes(em[0]["body"], "assign") if n["l"].get("k") == "field" and n["l"]["name"] == "ident_name"]
        ok = len(asg) >= 2 and all(re.fullmatch(r"(elem<\S*Vec<Variant>\.iter_mut\(\)>)\.ident_name = Some\(sanitize\(\1\.raw_name(\.replace\(.*\))?, Case::Pascal\)\)", a) for a in asg)
        rep.ob("C08.W1", "variant-ident-from-sanitiser", ok, "variant.ident_name = Some(sanitize(raw_name.., Pascal)) in both naming passes" if ok else "variant identifiers are not assigned from the sanitiser: %s" % asg)

    # ------------------------------------------------------------ W2 sanitiser guard
    sz = [h for h in c.user_fns() if h["fn"].endswith("util::sanitize")]
    if rep.floor("C08.W2", "sanitize", len(sz), 1):
        tail = block_last(sz[0]["body"])
        ok = False
        if tail.get("k") == "if" and tail.get("else") is not None:
            cond = tail["cond"]
            call = cond["recv"] if cond.get("k") == "mcall" and cond["name"] == "is_ok" else None
            then_v = strip_refs(block_last(tail["then"]))
            fm = [x for x, _ in walk(tail["else"]) if x.get("k") == "macro" and x["name"] == "format"]
            tf = facts.template_at(fm[0]["sp"]) if fm else None
            if call is not None and call.get("k") == "call" and call.get("fn", "").endswith("parse_str") and "Ident" in c.ty(call.get("ty")) and then_v.get("k") == "path" and then_v.get("res") == "local":
                arg_local = [x["path"] for x, _ in walk(call["args"]) if x.get("k") == "path" and x.get("res") == "local"]
                fm_local = [x["path"] for x, _ in walk(fm[0].get("args", [])) if x.get("k") == "path" and x.get("res") == "local"] if fm else []
                ok = arg_local == [then_v["path"]] and fm_local == [then_v["path"]] and bool(tf) and tf["text"].startswith('"{}_"')
        rep.ob("C08.W2", "keyword-guard", ok, "result is returned only if it parses as syn::Ident, otherwise `_` is appended" if ok else "sanitize does not end with the Ident-validity guard", tail.get("sp"))
        ms = [n for n, _ in nodes(sz[0]["body"], "match") if n.get("src") == "normal" and n["scrut"].get("k") == "mcall" and n["scrut"]["name"] == "next" and n["scrut"]["recv"].get("k") == "mcall" and n["scrut"]["recv"]["name"] == "chars"]
        ok = False
        if ms:
            subj = strip_refs(ms[0]["scrut"]["recv"]["recv"])
            sname = subj.get("path") if subj.get("k") == "path" else None
            got = {}
            for a in ms[0]["arms"]:
                pk, g, b = norm_arm(a)
                got[(pk, bool(a.get("guard")))] = (g, a)
            none = got.get(("None", False))
            good = got.get(("Some($0)", True))
            bad = got.get(("Some(_)", False))
            if none and good and bad and sname:
                pref = strip_refs(block_last(none[1]["body"]))
                okn = pref.get("k") == "path" and pref.get("res") == "local"
                okg = "is_xid_start($0)" in good[0] and strip_refs(block_last(good[1]["body"])).get("path") == sname
                fm = [x for x, _ in walk(bad[1]["body"]) if x.get("k") == "macro" and x["name"] == "format"]
                tf = facts.template_at(fm[0]["sp"]) if fm else None
                okb = bool(fm) and [x["path"] for x, _ in walk(fm[0].get("args", [])) if x.get("k") == "path" and x.get("res") == "local"] == [pref.get("path"), sname] and bool(tf) and tf["text"].startswith('"{}{}"')
                ok = okn and okg and okb
        rep.ob("C08.W2", "start-character-guard", ok, "empty -> prefix; XID_Start first char -> unchanged; otherwise prefixed" if ok else "sanitize does not guard the first character")
        reps_ = [n for n, _ in nodes(sz[0]["body"], "mcall") if n["name"] == "replace" and len(n.get("args", [])) == 2 and n["args"][0].get("k") == "closure" and src(n["args"][1]) == '"-"']
        ok = False
        if reps_:
            clo = reps_[0]["args"][0]
            pn = [x["name"] for p_ in clo["params"] for x, _ in walk(p_) if x.get("k") == "bind"]
            b = block_last(clo["body"])
            ok = b.get("k") == "un" and b.get("op") == "Not" and b["e"].get("k") == "call" and b["e"].get("fn", "").endswith("is_xid_continue") and [x.get("path") for x in b["e"]["args"]] == pn
        rep.ob("C08.W2", "non-identifier-characters-replaced", ok, "non-XID_Continue characters become separators before case conversion")

    # ------------------------------------------------------------ D1 rename iff different, raw name
    rc = [x for x in c.user_fns() if x["fn"].endswith("util::recase")]
    if rep.floor("C08.D1", "recase", len(rc), 1):
        s = Canon(c, rc[0], 4).r(rc[0]["body"])
        ok = s == "(sanitize($&str, $Case), if (sanitize($&str, $Case) Eq $&str) None else Some($&str.to_string()))"
        rep.ob("C08.D1", "property-rename-iff-differs", ok, "recase returns Some(raw input) exactly when the identifier differs")
    ov = [h for h in c.user_fns() if any("rename" in (t_ or {}).get("text", "") for (_, _, t_) in templates_in(facts, c, h)) and c.fns[h["fn"]]["inputs"] and "Variant" in c.fns[h["fn"]]["inputs"][0]]
    if rep.floor("C08.D1", "variant emitter", len(ov), 1):
        cnv = Canon(c, ov[0], 4)
        from lib import cguards
        rts = [(n, anc, t_) for (n, anc, t_) in templates_in(facts, c, ov[0]) if t_ and re.sub(r"\s+", "", t_["text"]).startswith("#[serde(rename=#")]
        ok = False
        if rts:
            n, anc, t_ = rts[0]
            cond = [g for g in cguards(cnv, anc, n) if g[0] == "adaptor" and g[1] == "then"]
            ok = bool(cond) and bool(re.fullmatch(r"\(\S*Variant\.raw_name Ne \S*Variant\.ident_name\.unwrap\(\)\)", cond[0][2]))
        rep.ob("C08.D1", "variant-rename-iff-differs", ok, "#[serde(rename = raw_name)] iff raw_name != ident_name")
    # every `rename = #x` hole is a raw-name field
    n_r = 0
    for h in c.user_fns():
        cnh = None
        for (n, anc, t) in templates_in(facts, c, h):
            if t and re.search(r"\brename\s*=\s*#", t["text"]):
                n_r += 1
                cnh = cnh or Canon(c, h, 4)
                hole = [a for a in n.get("args", []) if a.get("hole")]
                pr = cnh.r(hole[0]) if hole else ""
                okp = bool(re.search(r"(Variant\.raw_name|~Rename|~TypeEntry(Enum|Struct)\.rename~Some)$", pr))
                rep.ob("C08.D1", "rename-hole-is-raw:%s#%d" % (h["fn"], n_r), okp, "rename = %s" % pr if okp else "rename = `%s` is not the raw JSON name" % pr, n.get("sp"))
    rep.floor("C08.D1", "rename templates", n_r, 4)

    check_distinct(facts, rep, "C08.D2")

    # ------------------------------------------------------------ D3
    gtn = [x for x in c.user_fns() if x["fn"].endswith("util::get_type_name")]
    look = [(h, n) for h in c.user_fns() for n, _ in nodes(h["body"], "mcall") if n["name"] == "get" and src(n["recv"]).endswith("settings.replace")]
    if gtn and look:
        h, n = look[0]
        key = src(n["args"][0]).lstrip("&")
        from lib import binding_let
        bl_ = binding_let(h, n["args"][0])
        lets = {key: src(bl_["init"])} if bl_ is not None and bl_.get("init") is not None else {}
        a = re.search(r"sanitize\(&?\w+, (Case::\w+)\)", src(gtn[0]["body"]))
        b = re.search(r"sanitize\(&?\w+, (Case::\w+)\)", lets.get(key, ""))
        ok = bool(a and b) and a.group(1) == b.group(1)
        rep.ob("C08.D3", "replacement-key-and-type-names-agree", ok, "both use sanitize(.., %s)" % (a.group(1) if a else "?") if ok else "replacement lookup uses `%s`, type naming `%s`" % (lets.get(key), a.group(0) if a else "?"))


def check_distinct(facts, rep, RULE):
    """Sanitised names are checked for distinctness before they are committed (shared by C01.D1 and C08.D2)."""
    c = facts.impl
    em = [h for h in c.user_fns() if h["fn"].endswith("TypeEntryEnum::from_metadata")]
    # ------------------------------------------------------------ D2 distinctness before commit
    if em:
        h = em[0]
        stmts = top_stmts(h)
        ctor_ix = None
        checks = []
        for i, st in enumerate(stmts):
            if any(x.get("k") == "call" and x.get("fn", "").endswith("TypeEntryDetails::Enum") for x, _ in walk(st)):
                ctor_ix = i
            if st.get("k") == "if" and st["cond"].get("k") == "un" and any(x.endswith("variants_unique") for x in calls_in(st["cond"])):
                checks.append((i, st))
        ok = ctor_ix is not None and len(checks) >= 2 and all(i < ctor_ix for i, _ in checks)
        last_div = bool(checks) and any(x.get("k") == "macro" and x["name"] == "panic" for x, _ in walk(checks[-1][1]["then"]))
        if RULE.startswith("C08") and ok and last_div:
            # C08 asks for an *error*: the last-resort failure is a panic inside a constructor that cannot return one
            rep.ob(RULE, "variant-collision-is-an-error", False,
                   "enum values that still collide after both naming passes (e.g. \"red\" and \"Red\") end in `panic!(\"Failed to make unique variant names\")` while the schema is being added, not in an Err", checks[-1][1].get("sp"))
        rep.ob(RULE, "variants-distinct-before-commit", ok and last_div, "variants_unique is tested twice before the enum is built; the second failure aborts" if ok and last_div else "variant identifiers are not checked for distinctness before the enum is built", h.get("sp"))
        vu = [x for x in c.user_fns() if x["fn"].endswith("variants_unique")]
        if vu:
            rep.ob(RULE, "variants-unique-compares-idents", Canon(c, vu[0], 4).r(vu[0]["body"]) == "unique($&[Variant].iter().map(|..| elem<$&[Variant].iter()>.ident_name.unwrap()))", "uniqueness is over the sanitised identifiers")
    sm = [h for h in c.user_fns() if h["fn"].endswith("TypeSpace::struct_members")]
    if rep.floor(RULE, "struct member converter", len(sm), 1):
        h = sm[0]
        found = None
        for n, anc in walk(h["body"]):
            if n.get("k") in ("if", "letx") or (n.get("k") == "match"):
                pass
        # a test over the sanitised names (`.name`) of the collected properties that returns Err
        def reads_prop_name(e):
            return any(x.get("k") == "field" and x["name"] == "name" and (c.ty(x.get("bty")) or "").replace("&", "").strip().endswith("StructProperty") for x, _ in walk(e))
        for n, _ in nodes(h["body"], "if"):
            if outcome(n["then"]) != "ret-err":
                continue
            # two properties' identifiers are compared for equality and a hit is an error
            if any(x.get("k") == "bin" and x["op"] == "Eq" and reads_prop_name(x["l"]) and reads_prop_name(x["r"]) for x, _ in walk(n["cond"])):
                found = n
        if found is not None:
            # the test compares neighbours (`windows(2)`): it is complete only on a vector sorted by the compared key
            wins = [x for x, _ in walk(found["cond"]) if x.get("k") == "mcall" and x["name"] == "windows"]
            if wins:
                stmts = top_stmts(h)
                def top_ix(x):
                    for i_, t_ in enumerate(stmts):
                        if t_ is x or contains_node(t_, x):
                            return i_
                    return -1
                recv = src(strip_refs(wins[0]["recv"]))
                sorts = [x for x, _ in walk(h["body"]) if x.get("k") == "mcall" and x["name"] in ("sort_by", "sort_by_key", "sort", "sort_unstable_by", "sort_unstable_by_key", "sort_by_cached_key")
                         and src(strip_refs(x["recv"])) == recv and (x["name"] == "sort" or (x.get("args") and reads_prop_name(x["args"][0])))]
                ok_sorted = any(0 <= top_ix(x) < top_ix(found) for x in sorts)
                rep.ob(RULE, "neighbour-test-on-sorted-names", ok_sorted,
                       "the neighbour comparison runs on the vector sorted by the compared identifier" if ok_sorted else
                       "colliding identifiers are looked for among *neighbours* (`windows(2)`) but the vector is not sorted by that identifier before the test: two properties that collide with a third name between them escape it and the struct gets duplicate fields", found.get("sp"))
        rep.ob(RULE, "properties-distinct-before-commit", found is not None,
               "colliding property identifiers are rejected: `%s`" % src(found["cond"])[:90] if found else
               "no check that two JSON property names do not sanitise to the same field identifier (e.g. `foo-bar` and `foo_bar`): the struct would have duplicate fields", c.fns[h["fn"]].get("sp"))
    # items of the module: the name index is never overwritten (C16.W3)
    import c16
    n_g = 0
    for h in c.user_fns():
        for n, _ in nodes(h["body"], "mcall"):
            if n["name"] == "insert" and src(n["recv"]).endswith(".name_to_id"):
                n_g += 1
                g = c16.guard_for_insert(h, n, "name_to_id")
                rep.ob(RULE, "items-distinct-before-commit:%s" % h["fn"], g is not None, g or "a type name is committed without checking that it is not already taken (two items of one name)", n.get("sp"))
                if g and g.startswith("preceded by"):
                    why = c16.hit_rejects_other_ids(c, h, n, "name_to_id")
                    rep.ob(RULE, "taken-name-always-rejected:%s" % h["fn"], why is None, "a name held by another id is always rejected before the commit" if why is None else why, n.get("sp"))
    rep.floor(RULE, "name commits", n_g, 2)

