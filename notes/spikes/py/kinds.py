import re, sys, collections
import mustfacts as M
ALL=M.ALL
KINDS=sorted(ALL)

def fact_consistent(c, v, k, subject):
    """is edge fact (c==v) consistent with the JSON value `subject` having kind k?"""
    m=re.fullmatch(r'disc\(\*?'+subject+r'\)', c)
    if m:
        if isinstance(v,int): return k in M.KIND_OF_VARIANT[M.VALUE_VARIANTS[v]] if v in M.VALUE_VARIANTS else True
        # otherwise edge: not in listed variants
        return not any((vv in M.VALUE_VARIANTS) and M.KIND_OF_VARIANT[M.VALUE_VARIANTS[vv]]>= {k} and len(M.KIND_OF_VARIANT[M.VALUE_VARIANTS[vv]])==1 or (vv in M.VALUE_VARIANTS and k in M.KIND_OF_VARIANT[M.VALUE_VARIANTS[vv]]) for vv in v[1])
    mb=re.fullmatch(r'disc\(branch@\((\w+)@\(&?\*?'+subject+r'\)\)\)', c)
    if mb and mb.group(1) in M.CALL_KINDS:
        ks=M.CALL_KINDS[mb.group(1)]
        if isinstance(v,int): return (k in ks) if v==0 else (k not in ks)
        if 1 in v[1] and 0 not in v[1]: return k in ks
        if 0 in v[1] and 1 not in v[1]: return k not in ks
        return True
    m=re.fullmatch(r'(?:disc\()?(\w+)@\(&?\*?'+subject+r'\)\)?', c)
    if m and m.group(1) in M.CALL_KINDS:
        ks=M.CALL_KINDS[m.group(1)]
        if isinstance(v,int):
            if v==1: return k in ks
            if v==0: return (k not in ks) or m.group(1) in ('as_u64','as_i64','as_f64') and k in ('float',) and False or (k not in ks)
        else:
            # otherwise edge of a bool/option switch: the complement of listed values
            if 0 in v[1] and 1 not in v[1]: return k in ks     # not 0  => true/Some
            if 1 in v[1] and 0 not in v[1]: return k not in ks # not 1 => false/None
    return True

def arm_entries(fn):
    b0=fn.blocks[0]; t=b0['term']
    assert t['k']=='switch' and fn.canon(t['d'])=='disc(*self.0)', fn.canon(t['d'])
    return {v:tgt for v,tgt in t['targets']}

def failure_blocks(fn):
    bad=set()
    for i,b in fn.blocks.items():
        for s in b['stmts']:
            rv=s['rv']
            if s['lhs']=='_0' and rv['k']=='agg' and (rv['adt'].endswith('Option::None') or rv['adt'].endswith('Result::Err')): bad.add(i)
        t=b['term']
        if t['k']=='call' and t['dest']=='_0' and 'from_residual' in t['pretty']: bad.add(i)
        if t['k']=='call' and t['t']==[] : bad.add(i)   # diverging call (panic) -- counted separately
        if t['k']=='unreachable': bad.add(i)
    return bad

def reach_success(fn, entry, k, subject):
    bad=failure_blocks(fn)
    seen=set(); st=[entry]
    while st:
        i=st.pop()
        if i in seen or i in bad or fn.blocks[i]['cleanup']: continue
        seen.add(i)
        b=fn.blocks[i]; t=b['term']
        if t['k']=='return': return True
        if t['k']=='switch':
            c=fn.canon(t['d']); vals=[v for v,_ in t['targets']]
            for v,tgt in t['targets']:
                if fact_consistent(c,v,k,subject): st.append(tgt)
            if fact_consistent(c,('not',tuple(vals)),k,subject): st.append(t['otherwise'])
        else:
            st.extend(int(x) for x in t.get('t',[]) if x!='')
    return False

def panics_reachable(fn, entry, k, subject):
    seen=set(); st=[entry]; hits=[]
    bad=failure_blocks(fn)
    while st:
        i=st.pop()
        if i in seen or fn.blocks[i]['cleanup']: continue
        seen.add(i); b=fn.blocks[i]; t=b['term']
        if t['k']=='call' and t['t']==[] and 'panick' in t['cid']: hits.append((i,t['mac'])); continue
        if i in bad: continue
        if t['k']=='switch':
            c=fn.canon(t['d']); vals=[v for v,_ in t['targets']]
            for v,tgt in t['targets']:
                if fact_consistent(c,v,k,subject): st.append(tgt)
            if fact_consistent(c,('not',tuple(vals)),k,subject): st.append(t['otherwise'])
        else: st.extend(int(x) for x in t.get('t',[]) if x!='')
    return hits

def table(name, subject):
    fn=M.Fn(M.D[name]); out={}
    for v,entry in arm_entries(fn).items():
        out[v]=frozenset(k for k in KINDS if reach_success(fn, entry, k, subject))
    return out

if __name__=='__main__':
    V=table('defaults::<impl type_entry::TypeEntry>::validate_value','default')
    R=table('value::<impl type_entry::TypeEntry>::output_value','value')
    def show(k): return 'ALL' if k==ALL else (','.join(sorted(k)) or 'NONE')
    for v in sorted(V):
        nm=M.DETAILS[v]; vk=V[v]; rk=R.get(v, frozenset())
        verdict='ok' if vk<=rk else 'VIOLATION: validator accepts {'+','.join(sorted(vk-rk))+'} which the renderer rejects'
        print(f"{nm:10} validator={show(vk):28} renderer={show(rk):28} {verdict}")
